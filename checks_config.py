# Per-property configuration of the driver (./check). Case counts live in the Go tests
# (vt.Check(t, quick, thorough-per-shard, ...)); here: package, sharding, budgets, fuzz targets.
CHECKS = {
    "C02": {
        "pkg": "c02",
        "rule": "rapid-generated offset multisets with adversarial faulty positions + exhaustive small alphabet enumeration.",
        "assumptions": ["offsets |v| < 2^62 as the property states; measurement timestamps within +-100 years of 2000 (time.Time.Sub does not saturate)"],
        "timeout_quick": 300, "timeout_thorough": 1500,
    },
    "C04": {
        "pkg": "c04",
        "rule": "rapid-generated (reference, delta) pairs, era- and window-edge dense, plus enumerations of the nanosecond and fraction fields.",
        "assumptions": ["reference times 1970..2500 as the property states"],
        "timeout_quick": 300, "timeout_thorough": 1500,
    },
    "C18": {
        "pkg": "c18",
        "rule": "rapid-generated values per conversion with big-integer/rational reference arithmetic, plus a sweep of the kernel's scaled-ppm range.",
        "assumptions": ["clocks.SystemClock.Drift is exercised without privileges (no adjtimex call is involved)", "CSPTP formula inputs bounded by 2^60 ns so that no admissible combination overflows int64"],
        "timeout_quick": 300, "timeout_thorough": 1500,
    },
    "C14": {
        "pkg": "c14",
        "rule": "rapid-generated protocol values and byte strings per codec, exhaustive 8/16-bit NTP field enumeration, generated segmentations of NTS-KE streams.",
        "assumptions": ["NTS packets are generated to fit nts.MaxPacketLen (oversize requests belong to C11)", "NTS-KE AEAD records carry exactly one algorithm id (ntske.Data has room for one)"],
        "timeout_quick": 300, "timeout_thorough": 1500,
    },
    "C01": {
        "pkg": "c01",
        "parts": [{"pkg": "c01"}, {"pkg": "c01m", "overlay_main": True, "shards": 1}],
        "rule": "rapid-generated configurations and multi-round source histories driving the real sync.Run in a synctest bubble.",
        "assumptions": ["the system clock and the clock discipline are replaced by a scripted clock (Drift = rate x interval, or unknown) and a recorder", "NaN impact factors are generated among the inadmissible configurations", "offsets of magnitude >= 2^62 are generated but exempt from the exact reference model (only the bound is asserted)"],
        "timeout_quick": 400, "timeout_thorough": 1800,
    },
    "C17": {
        "pkg": "c17",
        "rule": "rapid-generated exchange histories with resets / epoch changes against a naive reference (lucky-packet) and metamorphic + replica oracles (Ntimed).",
        "assumptions": ["round-trip delays within a lucky-packet history are pairwise distinct (the statement's precondition)", "Ntimed samples within a guard band of 1e-9 relative around a learned limit are not judged"],
        "timeout_quick": 400, "timeout_thorough": 1800,
    },
    "C19": {
        "pkg": "c19",
        "rule": "rapid-generated update histories driving the real PLL against a recording fake clock.",
        "assumptions": ["clock readings are non-decreasing; gaps between updates range up to 584 years (beyond what a duration can express)", "MinInt64 offsets are exempt from the 'by exactly the offset' clause (negation saturates by design)"],
        "timeout_quick": 400, "timeout_thorough": 1800,
    },
    "C12": {
        "pkg": "c12", "race": True,
        # c12l: the NTP listener's use of the provider, real listener with a provider the harness ages (one process: fixed port)
        "parts": [{"pkg": "c12"}, {"pkg": "c12l", "race": False, "shards": 1}],
        # a local time zone with daylight saving: calendar arithmetic in time.Local (AddDate) differs from durations
        "env": {"TZ": "Europe/Zurich"},
        "rule": "rapid-generated Current/Get/advance/burst sequences on the real provider under virtual time (synctest), race detector on.",
        "assumptions": ["virtual time of testing/synctest stands for the wall clock the provider reads", "goroutine interleavings inside a burst are those the Go scheduler produces"],
        "timeout_quick": 400, "timeout_thorough": 1800,
    },
    "C16": {
        "pkg": "c16", "race": True,
        "rule": "rapid-generated completion schedules for MeasureClockOffsets under virtual time (synctest), race detector on.",
        "assumptions": ["orders among goroutines that become ready at the same virtual instant are chosen by the Go runtime; results completing exactly at the stop instant are accepted either way"],
        "timeout_quick": 400, "timeout_thorough": 1800,
    },
    "C06": {
        "pkg": "c06",
        "parts": [{"pkg": "c06"}, {"pkg": "c06l", "shards": 4}],
        "rule": "rapid state machine over the request handler and transmit-timestamp update through the verif hooks.",
        "assumptions": ["updates for an exchange whose (client, rx) key was reused by a later exchange are not issued (keying ambiguity that needs a backward clock step)"],
        "timeout_quick": 400, "timeout_thorough": 1800,
    },
    "C07": {
        "pkg": "c07", "shards": 6, "mem_gb": 6,
        "parts": [{"pkg": "c07"}, {"pkg": "c07c", "race": True, "shards": 8}],
        "rule": "rapid state machine (structure), capacity/eviction model at the real 2^20 capacity, concurrent batches with the race detector.",
        "assumptions": ["recency is the order of the instants the timestamps stand for (all instants of a case lie within seconds of its base time, which is next to an NTP era boundary in three of four cases)", "schedules are those the Go runtime produces; not enumerated"],
        "timeout_quick": 600, "timeout_thorough": 2400,
    },
    "C10": {
        "pkg": "c10",
        "rule": "rapid-generated NTS requests/responses/cookies built with the project's encoder, each followed by an exhaustive single-bit and field-level mutation sweep judged against an independent walker + miscreant AES-SIV.",
        "assumptions": ["miscreant (the AEAD library the project uses) is trusted as the reference AES-SIV", "the authenticator's own extension length field and bytes after the ciphertext are neither authenticated nor used: changes there are not required to be rejected"],
        "timeout_quick": 600, "timeout_thorough": 2400,
    },
    "C03": {
        "pkg": "c03", "shards": 8,
        "rule": "rapid state machine driving the real clients against the harness's NTP server model over loopback sockets.",
        "assumptions": ["the sandbox clock is not stepped during a run (harness instants and kernel timestamps are read from the same CLOCK_REALTIME)", "timing is measured, not controlled: a stall only widens the envelope"],
        "timeout_quick": 600, "timeout_thorough": 2400,
    },
    "C09": {
        "pkg": "c09", "shards": 8,
        "rule": "exhaustive first-byte x length x trailing-kind grid and rapid-generated headers sent to the real IP listener over loopback, sentinel-delimited reply counting.",
        "assumptions": ["replies on one socket pair are FIFO (same 4-tuple => same SO_REUSEPORT socket => same goroutine)", "loopback may drop datagrams under memory pressure: a sentinel is retried 6 times before the listener is declared unresponsive"],
        "timeout_quick": 600, "timeout_thorough": 2400,
    },
    "C20": {
        "pkg": "c20", "shards": 8,
        # c20d: where the NTP request goes after the exchange (fixed ports on loopback: one process only)
        "parts": [{"pkg": "c20"}, {"pkg": "c20d", "shards": 1}, {"pkg": "c20q", "shards": 1}],
        "rule": "rapid state machine of FetchData calls on the real fetcher against a scripted TLS key-exchange server; truncation sweep.",
        "assumptions": ["TLS 1.3 with a run-time self-signed certificate and InsecureSkipVerify (certificate validation is configuration of the callers)", "AEAD records with several ids (or a stray byte) make success admissible when algorithm 15 is among them and forbid it otherwise; warning records are not judged (a client may treat them as errors)", "QUIC/SCION transport of the key exchange is exercised on loopback within one AS only (empty path, no daemon)"],
        "timeout_quick": 600, "timeout_thorough": 2400,
    },
    "C11": {
        "pkg": "c11", "shards": 8,
        "rule": "rapid state machine of successful and lost exchanges between the real NTS client and the real IP listener through an inspecting relay.",
        "assumptions": ["cookies are issued by the harness's conformant key-exchange server with the project's ServerCookie/EncryptWithNonce under the provider shared with the listener (i.e. exactly this project's 124-byte cookies)", "server key rotation between exchanges is covered by C12 (virtual time cannot reach goroutines blocked in network I/O)"],
        "timeout_quick": 600, "timeout_thorough": 2400,
    },
    "C05": {
        "pkg": "c05", "shards": 8,
        "rule": "rapid-generated delivery scripts of mutated replies injected by the harness's server model into the real IP client (plain and NTS).",
        "assumptions": ["datagrams from another port of the queried address are generated but not judged", "IP and SCION transport; SCION packet-authenticator checks are part of C13"],
        "timeout_quick": 600, "timeout_thorough": 2400,
    },
    "C13": {
        "pkg": "c13", "shards": 8, "env": {"USE_MOCK_KEYS": "true"},
        "parts": [{"pkg": "c13"}, {"pkg": "c13k", "env": {"USE_MOCK_KEYS": "false"}, "shards": 4}],
        "rule": "rapid-generated SCION packets probing the real SCION listener (service and end-host port) and end-to-end exchanges of the real SCION client through a tampering relay.",
        "assumptions": ["part c13 runs with USE_MOCK_KEYS=true (all-zero host-to-host key); part c13k runs against a harness-provided fake SCION daemon with input-dependent keys; key epochs/expiry are not exercised", "scionproto's slayers/spao (the library the project uses) is trusted for MAC input layout and parsing", "address type/length combinations, path types and authenticator option lengths that make the listener panic are excluded here and owned by C08"],
        "timeout_quick": 600, "timeout_thorough": 2400,
    },
    "C15": {
        "pkg": "c15", "shards": 8,
        "rule": "scripted-randomness checks of RandIntn/Sample (incl. exhaustive small-size uniformity) and rapid state machine over multipath measurement rounds on loopback.",
        "assumptions": ["uniformity for large n rests on the pointwise characterisation of RandIntn plus the exhaustive small-size enumeration, not on wall-clock statistics", "completion order of per-path goroutines is what the runtime produces"],
        "timeout_quick": 600, "timeout_thorough": 2400,
    },
    "C08": {
        "pkg": "c08", "shards": 6, "oom_is_violation": True,
        "rule": "rapid-generated hostile datagram / stream scripts against the real listeners and clients hosted in child processes; liveness judged by sentinels on the same socket pair.",
        "assumptions": ["'never hangs' is checked as 'answers within a bounded wait' with a reproduction protocol; an unbounded-but-finite delay would be inconclusive", "TLS handshake internals and QUIC are exercised only with valid handshakes followed by hostile record streams"],
        "timeout_quick": 900, "timeout_thorough": 2700,
    },
}
