package c17

import (
	"encoding/json"
	"fmt"
	"math"
	"os"
	"path/filepath"
	"slices"
	"sort"
	"testing"
	"time"

	"pgregory.net/rapid"

	"example.com/scion-time/core/client"
	"example.com/scion-time/core/timebase"

	"verif/internal/ev"
	"verif/internal/fakeclk"
	"verif/internal/vt"
)

var clk = fakeclk.New(time.Unix(1700000000, 0))

func TestMain(m *testing.M) {
	timebase.RegisterClock(clk)
	vt.Main(m)
}

type failer interface {
	Fatalf(format string, args ...any)
}

type exhFail struct {
	t testing.TB
	c any
}

func (e exhFail) Fatalf(format string, args ...any) { vt.Violation(e.t, e.c, format, args...) }

// sample: an NTP exchange given by its four instants as ns since `base`.
type sample struct {
	T0, T1, T2, T3 int64
	Reset          bool `json:"reset,omitempty"` // Reset() is called before this sample
	Epoch          bool `json:"epoch,omitempty"` // the clock epoch changes before this sample
	// Far moves the server's (1, 2) or the client's (3) two instants out of the range that durations can
	// express relative to the other side: 1 = the zero time.Time (year 1), 2 = year 9000, 3 = client at the zero
	// time.Time. The differences saturate; only sign and saturation of the raw offset are defined then.
	Far int `json:"far,omitempty"`
}

var base = time.Unix(1700000000, 0).UTC()

func (s sample) times() (a, b, c, d time.Time) {
	a, b, c, d = base.Add(time.Duration(s.T0)), base.Add(time.Duration(s.T1)), base.Add(time.Duration(s.T2)), base.Add(time.Duration(s.T3))
	switch s.Far {
	case 1:
		b, c = time.Time{}, time.Time{}.Add(time.Duration(s.T2-s.T1))
	case 2:
		b = time.Date(9000, 1, 1, 0, 0, 0, 0, time.UTC)
		c = b.Add(time.Duration(s.T2 - s.T1))
	case 3:
		a, d = time.Time{}, time.Time{}.Add(time.Duration(s.T3-s.T0))
	}
	return
}

// exact integer offset*2 and rtd
func (s sample) off2() int64 { return (s.T1 - s.T0) + (s.T2 - s.T3) }
func (s sample) rtd() int64  { return (s.T3 - s.T0) - (s.T2 - s.T1) }

// genSample builds an exchange from true offset, one-way delays and server processing time.
func mk(t0, theta, d1, p, d2 int64) sample {
	t1 := t0 + d1 + theta
	return sample{T0: t0, T1: t1, T2: t1 + p, T3: t0 + d1 + p + d2}
}

// ---------------------------------------------------------------- lucky packet filter

type luckyCase struct {
	Cap, Pick int
	Zero      bool // zero-value filter (unconfigured)
	H         []sample
}

func checkLucky(t failer, c luckyCase) (fullWindows int) {
	var f *client.LuckyPacketFilter
	if c.Zero {
		f = &client.LuckyPacketFilter{}
	} else {
		f = client.NewLuckyPacketFilter(c.Cap, c.Pick)
	}
	var win []sample
	for i, s := range c.H {
		if s.Reset {
			f.Reset()
			win = win[:0]
		}
		a, b, cc, d := s.times()
		got := int64(f.Do(a, b, cc, d))
		if c.Zero {
			if d2 := 2*got - s.off2(); d2 > 1 || d2 < -1 {
				t.Fatalf("unconfigured filter: sample %d: got %d, raw offset %d/2", i, got, s.off2())
			}
			continue
		}
		win = append(win, s)
		if len(win) > c.Cap {
			win = win[1:]
		}
		sel := slices.Clone(win)
		sort.SliceStable(sel, func(i, j int) bool { return sel[i].rtd() < sel[j].rtd() })
		k := min(c.Pick, c.Cap, len(sel))
		sel = sel[:k]
		offs2 := make([]int64, k)
		for j, x := range sel {
			offs2[j] = x.off2()
		}
		slices.Sort(offs2)
		// offsets as the filter computes them: trunc(off2/2)
		h := func(v int64) int64 { return v / 2 }
		if k%2 == 1 {
			if want := h(offs2[k/2]); got != want {
				t.Fatalf("cap %d pick %d sample %d: got %d, want median %d of the %d lowest-delay samples in the window of %d", c.Cap, c.Pick, i, got, want, k, len(win))
			}
		} else {
			lo, hi := h(offs2[k/2-1]), h(offs2[k/2])
			if d2 := 2*got - (lo + hi); d2 > 2 || d2 < -2 {
				t.Fatalf("cap %d pick %d sample %d: got %d, want midpoint of %d and %d", c.Cap, c.Pick, i, got, lo, hi)
			}
		}
		if len(win) == c.Cap && c.Pick < c.Cap {
			fullWindows++
		}
	}
	return
}

func genHistory(t *rapid.T, n int, distinctRTD bool) []sample {
	theta := rapid.Int64Range(-int64(24*time.Hour), int64(24*time.Hour)).Draw(t, "theta")
	wander := rapid.Int64Range(0, int64(time.Millisecond)).Draw(t, "wander")
	seen := map[int64]bool{}
	var h []sample
	t0 := int64(0)
	// the client's clock need not run forward from one sample to the next: it may be set back (once, at a drawn
	// position, in a third of the histories), and single samples may carry a much earlier transmit time
	setBackAt := -1
	if rapid.IntRange(0, 2).Draw(t, "clock-set-back") == 0 {
		setBackAt = rapid.IntRange(0, n).Draw(t, "set-back-at")
	}
	for i := 0; i < n; i++ {
		t0 += rapid.Int64Range(1, int64(64*time.Second)).Draw(t, "gap")
		if i == setBackAt {
			t0 -= rapid.Int64Range(int64(time.Second), int64(48*time.Hour)).Draw(t, "set-back-by")
		}
		dg := rapid.OneOf(rapid.Int64Range(0, int64(2*time.Second)), rapid.Int64Range(0, int64(time.Millisecond)), rapid.Int64Range(0, 50))
		d1, d2 := dg.Draw(t, "d1"), dg.Draw(t, "d2")
		p := rapid.Int64Range(0, int64(time.Millisecond)).Draw(t, "proc")
		th := theta
		if wander > 0 {
			th += rapid.Int64Range(-wander, wander).Draw(t, "dtheta")
		}
		// a server whose reported turnaround (transmit - receive timestamp) is longer than it really was - coarse or
		// stepped server clock - makes the measured round-trip delay smaller than the path delay, even negative
		extra := int64(0)
		if rapid.IntRange(0, 3).Draw(t, "overreported-turnaround") == 0 {
			extra = rapid.Int64Range(0, d1+d2+int64(time.Millisecond)).Draw(t, "extra")
		}
		for distinctRTD && seen[d1+d2-extra] {
			d2++
		}
		seen[d1+d2-extra] = true
		s := mk(t0, th, d1, p, d2)
		s.T2 += extra
		h = append(h, s)
	}
	return h
}

var recLucky = ev.New("c17/lucky-packet", "rapid: capacity 1..32, pick 1..40 (and the zero-value filter), histories of 1..100 exchanges (true offset within +-1 day, one-way delays 0..2 s and, for a quarter of the samples, an over-reported server turnaround (measured round-trip delay down to negative values), pairwise distinct in round-trip delay, Reset() at generated positions; in a third of the histories the client's clock is set back by 1 s..2 days at a drawn position, so that transmit times do not increase in arrival order); oracle: naive reference (last <=N samples since the last reset, k=min(pick,N,available) lowest exact round-trip delays, median of exact integer offsets; even count within 1 ns of the midpoint). One evaluation = one history. Non-trivial: history containing a full window with pick < capacity; distinct by history hash")

func TestPropLucky(t *testing.T) {
	vt.Check(t, 60000, 400000, func(t *rapid.T) {
		c := luckyCase{
			Cap:  rapid.OneOf(rapid.IntRange(1, 32), rapid.IntRange(1, 6)).Draw(t, "cap"),
			Pick: rapid.OneOf(rapid.IntRange(1, 40), rapid.IntRange(1, 6)).Draw(t, "pick"),
			Zero: rapid.IntRange(0, 19).Draw(t, "zero") == 0,
		}
		if c.Cap > 1 && rapid.Bool().Draw(t, "pick<cap") {
			c.Pick = rapid.IntRange(1, c.Cap-1).Draw(t, "pick2")
		}
		n := rapid.OneOf(rapid.IntRange(1, 100), rapid.IntRange(1, 12), rapid.IntRange(c.Cap, c.Cap+20)).Draw(t, "n")
		c.H = genHistory(t, n, true)
		for i := range c.H {
			if i > 0 && rapid.IntRange(0, 24).Draw(t, "reset") == 0 {
				c.H[i].Reset = true
			}
		}
		full := checkLucky(t, c)
		b, _ := json.Marshal(c)
		recLucky.Eval(full > 0, ev.Hash(b), func() any {
			s := c
			if len(s.H) > 6 {
				s.H = s.H[:6]
			}
			return map[string]any{"cap": c.Cap, "pick": c.Pick, "zero_value": c.Zero, "history_len": len(c.H), "first_samples": s.H}
		}, fmt.Sprintf("zero=%v", c.Zero))
	})
}

// ---------------------------------------------------------------- Ntimed filter

type ntimedCase struct {
	H []sample
	// Epoch0 is the clock epoch when the filters of this case are created: 0 for a service that has just been
	// started and has not stepped its clock yet (driver/clocks.SystemClock counts its steps from 0), so that the
	// first epoch change of a history is the clock's first step.
	Epoch0 uint64 `json:"epoch0,omitempty"`
}

func ulpNs(x float64) float64 { return (math.Nextafter(math.Abs(x), math.Inf(1)) - math.Abs(x)) * 1e9 }

// rawClose: got equals the raw offset within float rounding of the filter's seconds arithmetic.
func rawClose(got int64, s sample) bool {
	lo, hi := time.Duration(s.T0-s.T1).Seconds(), time.Duration(s.T3-s.T2).Seconds()
	tol := 2 + 8*max(ulpNs(lo), ulpNs(hi))
	return math.Abs(float64(got)-float64(s.off2())/2) <= tol
}

// refStats mirrors the running statistics of Ntimed's filter (upstream recurrences) so that the
// harness knows the learned delay bounds before each sample.
type refStats struct {
	alo, amid, ahi, alolo, ahihi, navg float64
}

// step returns (judged, inside): judged=false when the sample is too close to a limit (or the
// limits are not finite) for a float-order-independent verdict.
func (r *refStats) step(s sample) (judged, inside bool) {
	lo, hi := time.Duration(s.T0-s.T1).Seconds(), time.Duration(s.T3-s.T2).Seconds()
	mid := (lo + hi) / 2
	if r.navg < 20 {
		r.navg++
	}
	var loNoise, hiNoise float64
	if r.navg > 2 {
		loNoise = math.Sqrt(r.alolo - r.alo*r.alo)
		hiNoise = math.Sqrt(r.ahihi - r.ahi*r.ahi)
	}
	loLim, hiLim := r.alo-loNoise*3, r.ahi+hiNoise*3
	guard := 1e-9*(math.Abs(lo)+math.Abs(hi)+math.Abs(loLim)+math.Abs(hiLim)) + 1e-9
	finite := !math.IsNaN(loLim) && !math.IsNaN(hiLim) && !math.IsInf(loLim, 0) && !math.IsInf(hiLim, 0)
	failLo, failHi := lo < loLim, hi > hiLim
	// beyond ~1 day of offset the variance estimate (alolo - alo^2) is dominated by cancellation: not judged
	judged = finite && math.Abs(lo-loLim) > guard && math.Abs(hi-hiLim) > guard && math.Abs(lo) < 1e5 && math.Abs(hi) < 1e5
	inside = !failLo && !failHi
	branch4 := !(failLo && failHi) && !(r.navg > 3 && failLo) && !(r.navg > 3 && failHi)
	if r.navg > 3 && failLo && !failHi {
		mid = r.amid + (hi - r.ahi)
	} else if r.navg > 3 && failHi && !failLo {
		mid = r.amid + (lo - r.alo)
	}
	w := r.navg
	if r.navg > 2 && !branch4 {
		w *= w
	}
	r.alo += (lo - r.alo) / w
	r.amid += (mid - r.amid) / w
	r.ahi += (hi - r.ahi) / w
	r.alolo += (lo*lo - r.alolo) / w
	r.ahihi += (hi*hi - r.ahihi) / w
	return
}

func checkNtimed(t failer, c ntimedCase) (judgedInside, tails int) {
	clk.SetEpoch(c.Epoch0)
	f := client.NewNtimedFilter(nil)
	var fresh *client.NtimedFilter // fed only the samples since the last reset / epoch change
	fresh = client.NewNtimedFilter(nil)
	var ref refStats
	since := 0
	for i, s := range c.H {
		if s.Epoch {
			clk.BumpEpoch()
		}
		if s.Reset {
			f.Reset()
		}
		if s.Epoch || s.Reset {
			fresh = client.NewNtimedFilter(nil)
			ref = refStats{}
			if since >= 1 {
				tails++
			}
			since = 0
		}
		a, b, cc, d := s.times()
		got := int64(f.Do(a, b, cc, d))
		got2 := int64(fresh.Do(a, b, cc, d))
		since++
		if got != got2 {
			t.Fatalf("sample %d (%d since last reset/epoch change): filter with earlier history returned %d, fresh filter fed only the samples since returned %d", i, since, got, got2)
		}
		judged, inside := ref.step(s)
		if s.Far != 0 {
			// server behind the client (1) or ahead of it (2, 3) by more than a duration can express
			want := int64(1)
			if s.Far == 1 {
				want = -1
			}
			if since <= 3 && (got == 0 || (got > 0) != (want > 0) || got/2 > -(1<<61) && got/2 < 1<<61) {
				t.Fatalf("sample %d is number %d since the last reset; the server's clock is %s the client's by more than 292 years: got %d (expected: sign %+d, saturated)", i, since, map[int64]string{-1: "behind", 1: "ahead of"}[want], got, want)
			}
			continue
		}
		if since <= 3 {
			if !rawClose(got, s) {
				t.Fatalf("sample %d is number %d since the last reset: got %d, raw offset %.1f", i, since, got, float64(s.off2())/2)
			}
			continue
		}
		if judged && inside {
			judgedInside++
			if !rawClose(got, s) {
				t.Fatalf("sample %d (number %d since reset) lies within the learned delay bounds: got %d, raw offset %.1f", i, since, got, float64(s.off2())/2)
			}
		}
	}
	return
}

var recNtimed = ev.New("c17/ntimed", "rapid: histories of 1..80 exchanges (true offset within +-1 day, occasionally +-30 years, and in 3 of 40 histories one side's instants at the zero time.Time or in the year 9000 so that the differences saturate - there only sign and saturation of the first three outputs are judged; delays with spikes x10..x1000 in either direction), Reset() calls and clock-epoch changes at generated positions (one registered fake clock supplies the epoch; 3 of 4 histories begin at epoch 0 like a service that has not stepped its clock yet, the others at a later epoch). Oracles: first three outputs after construction/reset/epoch change equal the raw offset (2 ns + 8 ulp of the operands); a filter with earlier history and a fresh filter fed only the samples since the last reset/epoch change return bit-identical outputs; samples that a harness-side replica of Ntimed's running statistics puts clearly inside the learned bounds (guard band 1e-9 relative) return the raw offset. One evaluation = one history. Non-trivial: >= 1 judged inside-bounds sample at position >= 4, or a reset/epoch change followed by >= 4 samples; distinct by history hash")

func genNtimedHistory(t *rapid.T) []sample {
	n := rapid.OneOf(rapid.IntRange(1, 80), rapid.IntRange(4, 30)).Draw(t, "n")
	theta := rapid.OneOf(rapid.Int64Range(-int64(24*time.Hour), int64(24*time.Hour)), rapid.Int64Range(-int64(time.Second), int64(time.Second)),
		rapid.Int64Range(-int64(30*365*24*time.Hour), int64(30*365*24*time.Hour))).Draw(t, "theta")
	baseDelay := rapid.Int64Range(1000, int64(100*time.Millisecond)).Draw(t, "basedelay")
	jitter := rapid.Int64Range(0, baseDelay/2).Draw(t, "jitter")
	var h []sample
	t0 := int64(0)
	for i := 0; i < n; i++ {
		t0 += rapid.Int64Range(int64(time.Millisecond), int64(64*time.Second)).Draw(t, "gap")
		dl := func(label string) int64 {
			d := baseDelay + rapid.Int64Range(-jitter, jitter).Draw(t, label)
			if rapid.IntRange(0, 7).Draw(t, label+"spike") == 0 {
				d *= rapid.SampledFrom([]int64{10, 100, 1000}).Draw(t, label+"x")
			}
			return d
		}
		s := mk(t0, theta, dl("d1"), rapid.Int64Range(0, 100000).Draw(t, "proc"), dl("d2"))
		if i > 0 {
			switch rapid.IntRange(0, 19).Draw(t, "cut") {
			case 0:
				s.Reset = true
			case 1:
				s.Epoch = true
			}
		}
		h = append(h, s)
	}
	// saturating durations: the whole history with one side at the zero time / in the year 9000
	if far := rapid.IntRange(0, 39).Draw(t, "far"); far >= 1 && far <= 3 {
		for i := range h {
			h[i].Far = far
		}
	}
	return h
}

func TestPropNtimed(t *testing.T) {
	vt.Check(t, 60000, 400000, func(t *rapid.T) {
		c := ntimedCase{H: genNtimedHistory(t)}
		if rapid.IntRange(0, 3).Draw(t, "startedLongAgo") == 0 {
			c.Epoch0 = rapid.SampledFrom([]uint64{1, 2, 7, 1 << 32, math.MaxUint64 - 1}).Draw(t, "epoch0")
		}
		ji, tails := checkNtimed(t, c)
		b, _ := json.Marshal(c)
		longTail := false
		since := 0
		for _, s := range c.H {
			if s.Reset || s.Epoch {
				since = 0
			}
			since++
			if since >= 4 && len(c.H) > since {
				longTail = true
			}
		}
		_ = tails
		var ls []string
		if ji > 0 {
			ls = append(ls, "has-judged-inside-sample")
		}
		if longTail {
			ls = append(ls, "reset-followed-by>=4")
		}
		if c.Epoch0 == 0 {
			for i, s := range c.H {
				if s.Epoch {
					if i >= 4 && len(c.H)-i >= 4 {
						ls = append(ls, "first-step-of-the-clock-after>=4-samples")
					}
					break
				}
			}
		}
		recNtimed.Eval(ji > 0 || longTail, ev.Hash(b), func() any {
			s := c.H
			if len(s) > 6 {
				s = s[:6]
			}
			return map[string]any{"history_len": len(c.H), "judged_inside": ji, "first_samples": s}
		}, ls...)
	})
}

func TestReplay(t *testing.T) {
	files, _ := filepath.Glob(filepath.Join(vt.CorpusDir("C17"), "*.json"))
	if p := vt.ReplayCase(); p != "" {
		files = []string{p}
	}
	for _, p := range files {
		b, err := os.ReadFile(p)
		if err != nil {
			t.Fatal(err)
		}
		var w struct {
			Kind string          `json:"kind"`
			Case json.RawMessage `json:"case"`
		}
		if err := json.Unmarshal(b, &w); err != nil {
			t.Fatalf("%s: %v", p, err)
		}
		if w.Kind == "lucky" {
			var c luckyCase
			_ = json.Unmarshal(w.Case, &c)
			checkLucky(exhFail{t, c}, c)
		} else {
			var c ntimedCase
			_ = json.Unmarshal(w.Case, &c)
			checkNtimed(exhFail{t, c}, c)
		}
	}
}
