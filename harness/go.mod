module verif

go 1.24.2

require (
	example.com/scion-time v0.0.0
	github.com/prometheus/client_golang v1.21.1
	pgregory.net/rapid v1.3.0
)

require (
	github.com/HdrHistogram/hdrhistogram-go v1.1.2 // indirect
	github.com/beorn7/perks v1.0.1 // indirect
	github.com/cespare/xxhash/v2 v2.3.0 // indirect
	github.com/dchest/cmac v1.0.0 // indirect
	github.com/dustin/go-humanize v1.0.1 // indirect
	github.com/google/uuid v1.6.0 // indirect
	github.com/grpc-ecosystem/go-grpc-middleware v1.4.0 // indirect
	github.com/grpc-ecosystem/go-grpc-prometheus v1.2.0 // indirect
	github.com/grpc-ecosystem/grpc-opentracing v0.0.0-20180507213350-8e809c8a8645 // indirect
	github.com/klauspost/compress v1.18.0 // indirect
	github.com/munnerz/goautoneg v0.0.0-20191010083416-a7dc8b61c822 // indirect
	github.com/opentracing/opentracing-go v1.2.0 // indirect
	github.com/prometheus/client_model v0.6.1 // indirect
	github.com/prometheus/common v0.63.0 // indirect
	github.com/prometheus/procfs v0.16.0 // indirect
	github.com/quic-go/quic-go v0.50.1 // indirect
	github.com/remyoudompheng/bigfft v0.0.0-20230129092748-24d4a6f8daec // indirect
	github.com/uber/jaeger-client-go v2.30.0+incompatible // indirect
	github.com/uber/jaeger-lib v2.4.1+incompatible // indirect
	go.uber.org/atomic v1.11.0 // indirect
	go.uber.org/multierr v1.11.0 // indirect
	go.uber.org/zap v1.27.0 // indirect
	golang.org/x/crypto v0.36.0 // indirect
	golang.org/x/exp v0.0.0-20250305212735-054e65f0b394 // indirect
	golang.org/x/net v0.38.0 // indirect
	golang.org/x/text v0.23.0 // indirect
	google.golang.org/genproto/googleapis/rpc v0.0.0-20250324211829-b45e905df463 // indirect
	modernc.org/libc v1.62.1 // indirect
	modernc.org/mathutil v1.7.1 // indirect
	modernc.org/memory v1.9.1 // indirect
	modernc.org/sqlite v1.37.0 // indirect
)

replace example.com/scion-time => /repo

require (
	github.com/anishathalye/porcupine v1.3.0
	github.com/google/gopacket v1.1.19
	github.com/miscreant/miscreant.go v0.0.0-20200214223636-26d376326b75
	github.com/pelletier/go-toml/v2 v2.2.3
	github.com/scionproto/scion v0.12.0
	golang.org/x/sys v0.31.0
	google.golang.org/grpc v1.71.1
	google.golang.org/protobuf v1.36.6
)
