module verif

go 1.24.2

require (
	example.com/scion-time v0.0.0
	pgregory.net/rapid v1.3.0
)

replace example.com/scion-time => /repo
