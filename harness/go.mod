module verif

go 1.24.2

require (
	example.com/scion-time v0.0.0
	pgregory.net/rapid v1.3.0
)

require golang.org/x/sys v0.31.0 // indirect

replace example.com/scion-time => /repo
