package c02

import (
	"encoding/json"
	"errors"
	"math/big"
	"os"
	"path/filepath"
	"slices"
	"sort"
	"testing"
	"time"

	"pgregory.net/rapid"

	"example.com/scion-time/base/timemath"
	"example.com/scion-time/core/measurements"

	"verif/internal/ev"
	"verif/internal/gen"
	"verif/internal/vt"
)

func TestMain(m *testing.M) { vt.Main(m) }

const lim62 = int64(1)<<62 - 1

// ---------------------------------------------------------------- oracle

type tcase struct {
	Kind   string  `json:"kind"` // "dur" or "meas"
	Values []int64 `json:"values"`
	Faulty []int   `json:"faulty"` // indices of arbitrary values (len <= (n-1)/3)
	Perm   []int   `json:"perm"`   // permutation applied for the order-independence check
	TS     []int64 `json:"ts,omitempty"` // unix ns timestamps (meas)
	// Far (meas): 0 = the timestamp is TS[i]; 1 = the zero time.Time (what a source that never measured reports);
	// 2 = a date in the year 9000. Such timestamps are more than 292 years from the others (time.Time.Sub saturates).
	Far []int `json:"far,omitempty"`
}

type failer interface {
	Fatalf(format string, args ...any)
}

func minmax(vs []int64) (int64, int64) {
	lo, hi := vs[0], vs[0]
	for _, v := range vs {
		lo, hi = min(lo, v), max(hi, v)
	}
	return lo, hi
}

func sameMultiset(a, b []int64) bool {
	a, b = slices.Clone(a), slices.Clone(b)
	slices.Sort(a)
	slices.Sort(b)
	return slices.Equal(a, b)
}

func durs(vs []int64) []time.Duration {
	ds := make([]time.Duration, len(vs))
	for i, v := range vs {
		ds[i] = time.Duration(v)
	}
	return ds
}

func ints(ds []time.Duration) []int64 {
	vs := make([]int64, len(ds))
	for i, d := range ds {
		vs[i] = int64(d)
	}
	return vs
}

// midOK: r is the midpoint of x and y up to 1 ns of rounding in either direction,
// evaluated in arbitrary precision (so an overflowing implementation is exposed).
func midOK(r, x, y int64) bool {
	s := new(big.Int).Add(big.NewInt(x), big.NewInt(y))
	d := new(big.Int).Sub(new(big.Int).Mul(big.NewInt(r), big.NewInt(2)), s)
	return d.CmpAbs(big.NewInt(2)) <= 0
}

func correctOf(c tcase) []int64 {
	var cs []int64
	for i, v := range c.Values {
		if !slices.Contains(c.Faulty, i) {
			cs = append(cs, v)
		}
	}
	return cs
}

func permuted[T any](xs []T, perm []int) []T {
	out := make([]T, len(xs))
	for i, p := range perm {
		out[i] = xs[p]
	}
	return out
}

func checkDur(t failer, c tcase) {
	n := len(c.Values)
	sorted := slices.Clone(c.Values)
	slices.Sort(sorted)
	f := (n - 1) / 3
	clo, chi := minmax(correctOf(c))
	alo, ahi := minmax(c.Values)

	in := durs(c.Values)
	got := int64(timemath.FaultTolerantMidpoint(in))
	if got < clo || got > chi {
		t.Fatalf("FTM(%v) = %d outside the correct values' range [%d, %d] (faulty %v)", c.Values, got, clo, chi, c.Faulty)
	}
	if !midOK(got, sorted[f], sorted[n-1-f]) {
		t.Fatalf("FTM(%v) = %d is not the midpoint of %d and %d", c.Values, got, sorted[f], sorted[n-1-f])
	}
	if !sameMultiset(ints(in), c.Values) {
		t.Fatalf("FTM changed the caller's slice beyond reordering: %v -> %v", c.Values, ints(in))
	}
	in2 := durs(permuted(c.Values, c.Perm))
	if got2 := int64(timemath.FaultTolerantMidpoint(in2)); got2 != got {
		t.Fatalf("FTM depends on input order: %v -> %d, permuted %v -> %d", c.Values, got, permuted(c.Values, c.Perm), got2)
	}

	in = durs(c.Values)
	med := int64(timemath.Median(in))
	if med < alo || med > ahi {
		t.Fatalf("Median(%v) = %d outside [%d, %d]", c.Values, med, alo, ahi)
	}
	if n%2 == 1 {
		if med != sorted[n/2] {
			t.Fatalf("Median(%v) = %d, want %d", c.Values, med, sorted[n/2])
		}
	} else if !midOK(med, sorted[n/2-1], sorted[n/2]) {
		t.Fatalf("Median(%v) = %d is not the midpoint of %d and %d", c.Values, med, sorted[n/2-1], sorted[n/2])
	}
	if !sameMultiset(ints(in), c.Values) {
		t.Fatalf("Median changed the caller's slice beyond reordering: %v -> %v", c.Values, ints(in))
	}
	in2 = durs(permuted(c.Values, c.Perm))
	if med2 := int64(timemath.Median(in2)); med2 != med {
		t.Fatalf("Median depends on input order: %v -> %d, permuted -> %d", c.Values, med, med2)
	}
}

func meas(c tcase) []measurements.Measurement {
	ms := make([]measurements.Measurement, len(c.Values))
	for i := range ms {
		ms[i] = measurements.Measurement{
			Timestamp: tsOf(c, i),
			Offset:    time.Duration(c.Values[i]),
		}
		if i%3 == 1 {
			ms[i].Error = errors.New("stale error of an earlier round")
		}
	}
	return ms
}

func tsOf(c tcase, i int) time.Time {
	if i < len(c.Far) {
		switch c.Far[i] {
		case 1:
			return time.Time{}
		case 2:
			return time.Date(9000, 6, 1, 12, 0, 0, int(c.TS[i]%1e9+1e9)%1e9, time.UTC)
		}
	}
	return time.Unix(0, 0).Add(time.Duration(c.TS[i]))
}

func isFar(c tcase, i int) bool { return i < len(c.Far) && c.Far[i] != 0 }

type mkey struct{ off, ts int64 }

func mset(ms []measurements.Measurement) []mkey {
	ks := make([]mkey, len(ms))
	for i, m := range ms {
		ks[i] = mkey{int64(m.Offset), m.Timestamp.Unix()<<20 ^ int64(m.Timestamp.Nanosecond())}
	}
	sort.Slice(ks, func(a, b int) bool {
		if ks[a].off != ks[b].off {
			return ks[a].off < ks[b].off
		}
		return ks[a].ts < ks[b].ts
	})
	return ks
}

// tsOK: ts is (within 1 ns) the midpoint of the timestamps of some admissible
// pair: one element with offset lo, a different element with offset hi (ties
// make the sort's choice ambiguous; every admissible pair is accepted).
func tsOK(c tcase, ts time.Time, lo, hi int64, same bool) bool {
	for i, a := range c.Values {
		if a != lo {
			continue
		}
		for j, b := range c.Values {
			if b != hi || (i == j) != same {
				continue
			}
			x, y := tsOf(c, i), tsOf(c, j)
			if x.After(y) {
				x, y = y, x
			}
			if ts.Before(x) || ts.After(y) {
				continue // the statement: between the timestamps of the two selected measurements
			}
			if isFar(c, i) || isFar(c, j) {
				return true // more than 292 years apart: only "between" is required
			}
			if midOK(ts.UnixNano(), c.TS[i], c.TS[j]) {
				return true
			}
		}
	}
	return false
}

func distinctValues(vs []int64) bool {
	s := slices.Clone(vs)
	slices.Sort(s)
	for i := 1; i < len(s); i++ {
		if s[i] == s[i-1] {
			return false
		}
	}
	return true
}

func checkMeas(t failer, c tcase) {
	n := len(c.Values)
	sorted := slices.Clone(c.Values)
	slices.Sort(sorted)
	f := (n - 1) / 3
	clo, chi := minmax(correctOf(c))
	alo, ahi := minmax(c.Values)

	in := meas(c)
	before := mset(in)
	got := measurements.FaultTolerantMidpoint(in)
	if got.Error != nil {
		t.Fatalf("measurement FTM returned Error %v", got.Error)
	}
	if o := int64(got.Offset); o < clo || o > chi || !midOK(o, sorted[f], sorted[n-1-f]) {
		t.Fatalf("measurement FTM(%v).Offset = %d outside [%d,%d] or not the midpoint of %d,%d", c.Values, o, clo, chi, sorted[f], sorted[n-1-f])
	}
	if !tsOK(c, got.Timestamp, sorted[f], sorted[n-1-f], f == n-1-f) {
		t.Fatalf("measurement FTM timestamp %d is not between/at the midpoint of the timestamps of the selected pair (values %v ts %v far %v; got %v)", got.Timestamp.Unix(), c.Values, c.TS, c.Far, got.Timestamp)
	}
	if !slices.Equal(before, mset(in)) {
		t.Fatalf("measurement FTM changed the slice beyond reordering")
	}
	in2 := permuted(meas(c), c.Perm)
	// Error fields follow position in meas(); irrelevant for the result.
	got2 := measurements.FaultTolerantMidpoint(in2)
	if got2.Offset != got.Offset {
		t.Fatalf("measurement FTM offset depends on order: %d vs %d", got.Offset, got2.Offset)
	}
	if distinctValues(c.Values) && !got2.Timestamp.Equal(got.Timestamp) {
		t.Fatalf("measurement FTM timestamp depends on order: %v vs %v", got.Timestamp, got2.Timestamp)
	}

	in = meas(c)
	med := measurements.Median(in)
	if med.Error != nil {
		t.Fatalf("measurement Median returned Error %v", med.Error)
	}
	o := int64(med.Offset)
	if o < alo || o > ahi {
		t.Fatalf("measurement Median offset %d outside [%d,%d]", o, alo, ahi)
	}
	if n%2 == 1 {
		if o != sorted[n/2] || !tsOK(c, med.Timestamp, sorted[n/2], sorted[n/2], true) {
			t.Fatalf("measurement Median (odd) = (%d,%d) not an input with the median offset %d", o, med.Timestamp.UnixNano(), sorted[n/2])
		}
	} else {
		if !midOK(o, sorted[n/2-1], sorted[n/2]) || !tsOK(c, med.Timestamp, sorted[n/2-1], sorted[n/2], false) {
			t.Fatalf("measurement Median (even) = (%d,%d) not the midpoint of the middle pair (values %v ts %v)", o, med.Timestamp.UnixNano(), c.Values, c.TS)
		}
	}
	if !slices.Equal(before, mset(in)) {
		t.Fatalf("measurement Median changed the slice beyond reordering")
	}
	in2 = permuted(meas(c), c.Perm)
	med2 := measurements.Median(in2)
	if med2.Offset != med.Offset || (distinctValues(c.Values) && !med2.Timestamp.Equal(med.Timestamp)) {
		t.Fatalf("measurement Median depends on order")
	}
}

func nontrivial(c tcase) bool {
	if len(c.Values) < 4 {
		lo, hi := minmax(c.Values)
		return new(big.Int).Sub(big.NewInt(hi), big.NewInt(lo)).Cmp(big.NewInt(1<<62)) > 0
	}
	clo, chi := minmax(correctOf(c))
	for _, i := range c.Faulty {
		if c.Values[i] < clo || c.Values[i] > chi {
			return true
		}
	}
	lo, hi := minmax(c.Values)
	return new(big.Int).Sub(big.NewInt(hi), big.NewInt(lo)).Cmp(big.NewInt(1<<62)) > 0
}

func caseHash(c tcase) uint64 {
	b, _ := json.Marshal(c)
	return ev.Hash(b)
}

// ---------------------------------------------------------------- generators

func genCase(t *rapid.T, kind string) tcase {
	n := rapid.OneOf(rapid.IntRange(1, 10), rapid.IntRange(1, 64),
		rapid.SampledFrom([]int{3, 4, 5, 6, 7, 9, 10, 12, 13, 15, 16, 30, 31, 63, 64})).Draw(t, "n")
	style := rapid.IntRange(0, 3).Draw(t, "style")
	var vg *rapid.Generator[int64]
	switch style {
	case 0:
		vg = gen.Below62()
	case 1: // clustered
		c := gen.Below62().Draw(t, "center")
		vg = rapid.Map(rapid.Int64Range(-5, 5), func(d int64) int64 { return max(-lim62, min(lim62, c+d)) })
	case 2: // many duplicates
		a, b := gen.Below62().Draw(t, "a"), gen.Below62().Draw(t, "b")
		vg = rapid.SampledFrom([]int64{a, b, a + sign(-a), 0})
	default: // extremes
		vg = rapid.SampledFrom([]int64{lim62, -lim62, lim62 - 1, -lim62 + 1, 0, 1, -1})
	}
	vs := rapid.SliceOfN(vg, n, n).Draw(t, "values")
	fmax := (n - 1) / 3
	nf := rapid.IntRange(0, fmax).Draw(t, "nf")
	if fmax > 0 && rapid.IntRange(0, 2).Draw(t, "fullf") > 0 {
		nf = fmax
	}
	perm := rapid.Permutation(iota(n)).Draw(t, "faultpos")
	faulty := slices.Clone(perm[:nf])
	slices.Sort(faulty)
	for _, i := range faulty {
		clo, chi := minmax(vs) // any; adversary sees everything
		switch rapid.IntRange(0, 5).Draw(t, "adv") {
		case 0:
			vs[i] = -lim62
		case 1:
			vs[i] = lim62
		case 2:
			vs[i] = clo
		case 3:
			vs[i] = chi
		case 4:
			vs[i] = gen.Below62().Draw(t, "advv")
		default:
			vs[i] = max(-lim62, min(lim62, chi+1))
		}
	}
	c := tcase{Kind: kind, Values: vs, Faulty: faulty, Perm: rapid.Permutation(iota(n)).Draw(t, "perm")}
	if kind == "meas" {
		const span = int64(100 * 365 * 24 * time.Hour)
		base := int64(946684800) * 1e9 // 2000-01-01
		tg := rapid.OneOf(rapid.Int64Range(base-span, base+span), rapid.Int64Range(base, base+10), rapid.Just(base))
		c.TS = rapid.SliceOfN(tg, n, n).Draw(t, "ts")
		if rapid.IntRange(0, 3).Draw(t, "far-timestamps") == 0 {
			c.Far = rapid.SliceOfN(rapid.SampledFrom([]int{0, 0, 1, 1, 2}), n, n).Draw(t, "far")
		}
	}
	return c
}

func sign(v int64) int64 {
	if v < 0 {
		return -1
	}
	return 1
}

func iota(n int) []int {
	xs := make([]int, n)
	for i := range xs {
		xs[i] = i
	}
	return xs
}

// ---------------------------------------------------------------- tests

var (
	recDur  = ev.New("c02/duration", "rapid: n in 1..64 (dense small), |v|<2^62 mixtures (uniform, clustered, duplicates, extremes), <=floor((n-1)/3) adversarial positions, random permutation; oracle: containment in correct range, big-int midpoint, multiset preserved, order independence. Non-trivial: n>=4 with >=1 faulty value outside the correct range, or spread > 2^62; distinct by hash of the case")
	recMeas = ev.New("c02/measurement", "as c02/duration for Measurement values with timestamps within +-100y of 2000 and stale Error fields; additionally Error==nil and timestamp = midpoint of an admissible selected pair")
	recExh  = ev.New("c02/exhaustive-small", "all sequences of length 1..7 over a 5-value alphabet {-(2^62-1),-1,0,1,2^62-1} x every faulty subset of size <= floor((n-1)/3): containment + midpoint; non-trivial: n>=4 with a faulty value outside the correct range")
)

func TestPropDuration(t *testing.T) {
	vt.Check(t, 150000, 3000000, func(t *rapid.T) {
		c := genCase(t, "dur")
		checkDur(t, c)
		recDur.Eval(nontrivial(c), caseHash(c), func() any { return c }, lbl(c)...)
	})
}

func TestPropMeasurement(t *testing.T) {
	vt.Check(t, 100000, 2000000, func(t *rapid.T) {
		c := genCase(t, "meas")
		checkMeas(t, c)
		recMeas.Eval(nontrivial(c), caseHash(c), func() any { return c }, lbl(c)...)
	})
}

func lbl(c tcase) []string {
	var ls []string
	n := len(c.Values)
	switch {
	case n <= 3:
		ls = append(ls, "n<=3")
	case n <= 10:
		ls = append(ls, "n4..10")
	default:
		ls = append(ls, "n>10")
	}
	if len(c.Faulty) == (n-1)/3 && n >= 4 {
		ls = append(ls, "max-faulty")
	}
	if !distinctValues(c.Values) {
		ls = append(ls, "ties")
	}
	return ls
}

type exhFail struct {
	t testing.TB
	c tcase
}

func (e exhFail) Fatalf(format string, args ...any) { vt.Violation(e.t, e.c, format, args...) }

func TestExhaustiveSmall(t *testing.T) {
	recExh.Exhaustive = true
	alpha := []int64{-lim62, -1, 0, 1, lim62}
	maxN := 7
	if !vt.Thorough() {
		maxN = 6
	}
	shard, shards := vt.Shard(), vt.Shards()
	idx := 0
	for n := 1; n <= maxN; n++ {
		total := 1
		for i := 0; i < n; i++ {
			total *= len(alpha)
		}
		f := (n - 1) / 3
		var subsets [][]int
		subsets = append(subsets, nil)
		if f >= 1 {
			for i := 0; i < n; i++ {
				subsets = append(subsets, []int{i})
			}
		}
		if f >= 2 {
			for i := 0; i < n; i++ {
				for j := i + 1; j < n; j++ {
					subsets = append(subsets, []int{i, j})
				}
			}
		}
		for code := 0; code < total; code++ {
			idx++
			if idx%shards != shard {
				continue
			}
			vs := make([]int64, n)
			x := code
			for i := range vs {
				vs[i] = alpha[x%len(alpha)]
				x /= len(alpha)
			}
			for _, fs := range subsets {
				c := tcase{Kind: "dur", Values: vs, Faulty: fs, Perm: iota(n)}
				checkDur(exhFail{t, c}, c)
				recExh.Eval(nontrivial(c), ev.Hash(n, code, len(fs), ev.Hash(fs)), func() any { return c })
			}
		}
	}
}

// TestReplay re-runs saved cases (corpus + --replay of a JSON case) without the library.
func TestReplay(t *testing.T) {
	files, _ := filepath.Glob(filepath.Join(vt.CorpusDir("C02"), "*.json"))
	if p := vt.ReplayCase(); p != "" {
		files = []string{p}
	}
	for _, p := range files {
		b, err := os.ReadFile(p)
		if err != nil {
			t.Fatal(err)
		}
		var w struct {
			Case tcase `json:"case"`
		}
		if err := json.Unmarshal(b, &w); err != nil {
			t.Fatalf("%s: %v", p, err)
		}
		c := w.Case
		if len(c.Perm) != len(c.Values) {
			c.Perm = iota(len(c.Values))
		}
		if c.Kind == "meas" {
			checkMeas(exhFail{t, c}, c)
		} else {
			checkDur(exhFail{t, c}, c)
		}
	}
}
