package c06

// Eviction and isolation: "Timestamps recorded for one client are never served to another" must also hold
// when a client's record is dropped because the store is full and its place is taken by a newcomer.

import (
	"fmt"
	"testing"
	"time"

	"pgregory.net/rapid"

	"example.com/scion-time/core/server"
	"example.com/scion-time/net/ntp"

	"verif/internal/ev"
	"verif/internal/vt"
)

var recEv = ev.New("c06/eviction-isolation", "rapid: the store is filled to its capacity (2^20 clients, each with 1..8 recorded exchanges for a sample of them) through the real handler; then newcomers with recent receive times arrive (each evicts the least recently active client) and send follow-up requests that cite (origin = ) a receive timestamp recorded for the evicted client, for another stored client, or for themselves, with receive field != transmit field. Oracle: the newcomer's record holds only its own exchanges; a reply citing another client's timestamp is basic (origin = the request's transmit timestamp, transmit later than receive); a reply citing its own recorded exchange is interleaved with exactly the recorded transmit time. One evaluation = one follow-up request. Non-trivial: follow-up citing a timestamp of an evicted or foreign client; distinct by (fill pattern, step)")

func TestPropEvictionIsolation(t *testing.T) {
	vt.Check(t, 1, 4, func(t *rapid.T) {
		server.ResetV()
		const N = server.TssCapV
		base := time.Unix(1900000000, 0)
		deep := rapid.IntRange(1, 8).Draw(t, "exchanges-of-oldest-clients")
		handle := func(c string, rx time.Time, cite *ntp.Time64, tx ntp.Time64) (ntp.Packet, time.Time) {
			var q, resp ntp.Packet
			q.SetVersion(4)
			q.SetMode(ntp.ModeClient)
			q.TransmitTime = tx
			if cite != nil {
				q.OriginTime = *cite
				q.ReceiveTime = ntp.Time64{Seconds: 9, Fraction: 9}
			}
			clk.Set(rx.Add(50))
			var txt time.Time
			server.HandleRequestV(c, &q, &rx, &txt, &resp)
			return resp, txt
		}
		name := func(i int) string { return fmt.Sprintf("fill-%d", i) }
		// the 64 oldest clients get `deep` exchanges each (distinct receive times), the rest one
		var seq uint32
		for i := 0; i < N; i++ {
			k := 1
			if i < 64 {
				k = deep
			}
			for e := 0; e < k; e++ {
				seq++
				handle(name(i), base.Add(time.Duration(i*10+e)*time.Microsecond), nil, ntp.Time64{Seconds: 1, Fraction: seq})
			}
		}
		if nmap, _ := server.LenV(); nmap != N {
			t.Fatalf("harness: store holds %d clients after the fill, expected %d", nmap, N)
		}
		now := base.Add(time.Duration(N*10+100) * time.Microsecond)
		steps := rapid.IntRange(100, 300).Draw(t, "newcomers")
		for s := 0; s < steps; s++ {
			// the client that is least recently active right now
			var victim server.ItemV
			server.VisitV(func(pos int, it server.ItemV, inMap bool) bool {
				victim = it
				victim.Pairs = append([]server.PairV(nil), it.Pairs...)
				return false
			})
			now = now.Add(time.Duration(rapid.IntRange(1, 1000).Draw(t, "gap-us")) * time.Microsecond)
			nc := fmt.Sprintf("new-%d", s)
			seq++
			first, _ := handle(nc, now, nil, ntp.Time64{Seconds: 2, Fraction: seq})
			it, ok := server.LookupV(nc)
			if !ok {
				t.Fatalf("newcomer %s with a recent receive time was not stored at capacity", nc)
			}
			if _, still := server.LookupV(victim.Key); still {
				t.Fatalf("the least recently active client %s was not evicted for newcomer %s", victim.Key, nc)
			}
			if len(it.Pairs) != 1 || it.Pairs[0].Rx != first.ReceiveTime {
				t.Fatalf("newcomer %s took the place of %s and its record holds %d exchanges %v, expected exactly its own (rx %v)", nc, victim.Key, len(it.Pairs), it.Pairs, first.ReceiveTime)
			}
			// follow-ups
			for f := rapid.IntRange(1, 3).Draw(t, "followups"); f > 0; f-- {
				kind := rapid.SampledFrom([]string{"cite-evicted", "cite-evicted", "cite-foreign", "cite-own"}).Draw(t, "cite")
				var cite ntp.Time64
				var wantTx *ntp.Time64
				switch kind {
				case "cite-evicted":
					cite = victim.Pairs[rapid.IntRange(0, len(victim.Pairs)-1).Draw(t, "pair")].Rx
				case "cite-foreign":
					o, ok := server.LookupV(name(N - 1 - rapid.IntRange(0, 1000).Draw(t, "foreign")))
					if !ok || len(o.Pairs) == 0 {
						continue
					}
					cite = o.Pairs[0].Rx
				case "cite-own":
					cur, _ := server.LookupV(nc)
					p := cur.Pairs[rapid.IntRange(0, len(cur.Pairs)-1).Draw(t, "ownpair")]
					cite, wantTx = p.Rx, &p.Tx
				}
				now = now.Add(time.Duration(rapid.IntRange(1, 50).Draw(t, "gap2-us")) * time.Microsecond)
				seq++
				tx := ntp.Time64{Seconds: 3, Fraction: seq}
				resp, _ := handle(nc, now, &cite, tx)
				if wantTx != nil {
					if resp.OriginTime != (ntp.Time64{Seconds: 9, Fraction: 9}) || resp.TransmitTime != *wantTx {
						t.Fatalf("%s: request citing the client's own recorded exchange (rx %v, recorded tx %v) got origin %v transmit %v", nc, cite, *wantTx, resp.OriginTime, resp.TransmitTime)
					}
				} else {
					if resp.OriginTime != tx {
						t.Fatalf("%s citing receive timestamp %v recorded for another client (%s) got an interleaved reply (origin %v, transmit %v): timestamps of one client served to another", nc, cite, kind, resp.OriginTime, resp.TransmitTime)
					}
					d := int64(uint64(resp.TransmitTime.Seconds)<<32|uint64(resp.TransmitTime.Fraction)) - int64(uint64(resp.ReceiveTime.Seconds)<<32|uint64(resp.ReceiveTime.Fraction))
					if d <= 0 {
						t.Fatalf("%s: basic reply with transmit %v not later than receive %v", nc, resp.TransmitTime, resp.ReceiveTime)
					}
				}
				recEv.Eval(wantTx == nil, ev.Hash(deep, s, kind, f), func() any {
					return map[string]any{"newcomer": nc, "evicted": victim.Key, "evicted_exchanges": len(victim.Pairs), "cite": kind}
				}, kind)
			}
		}
	})
}
