package c06

import (
	"fmt"
	"testing"
	"time"

	"pgregory.net/rapid"

	"example.com/scion-time/core/server"
	"example.com/scion-time/core/timebase"
	"example.com/scion-time/net/ntp"

	"verif/internal/ev"
	"verif/internal/fakeclk"
	"verif/internal/kf"
	"verif/internal/vt"
)

var clk = fakeclk.New(time.Unix(1700000000, 0))

func TestMain(m *testing.M) {
	timebase.RegisterClock(clk)
	vt.Main(m)
}

// hist is what the harness remembers about one reply it saw.
type hist struct {
	seq      int
	client   string
	req      ntp.Packet
	rxt      time.Time  // receive time as returned (possibly bumped)
	txt      time.Time  // software transmit time as returned
	rx64     ntp.Time64 // reply's receive timestamp
	sw64     ntp.Time64
	kernel   *ntp.Time64 // exact recorded value after a delivered update, if any
	kernelGT bool        // delivered kernel time was not later than rx: any recorded value later than rx is admissible
	updated  bool        // an update was applied (delivered or unreadable)
	lost     bool        // update reported "no transmit timestamp readable"
	stale    bool        // a later exchange of the same client reused this rx value
}

type machine struct {
	t       *rapid.T
	clients []string
	base    time.Time
	tick    int64 // strictly increasing helper for distinct clock readings
	all     []*hist
	byRx    map[string]map[ntp.Time64]*hist // latest exchange per (client, rx)
	labels  map[string]int
	steps   int
	events  []string
}

func (m *machine) logf(format string, args ...any) {
	if len(m.events) < 400 {
		m.events = append(m.events, fmt.Sprintf(format, args...))
	}
}

func (m *machine) fatalf(format string, args ...any) {
	m.t.Helper()
	for _, e := range m.events[max(0, len(m.events)-30):] {
		m.t.Logf("history: %s", e)
	}
	m.t.Fatalf(format, args...)
}

// later compares two NTP timestamps as instants less than half an era apart (era-aware).
func (m *machine) later(a, b ntp.Time64) bool {
	x := uint64(a.Seconds)<<32 | uint64(a.Fraction)
	y := uint64(b.Seconds)<<32 | uint64(b.Fraction)
	return int64(x-y) > 0
}

func find(it server.ItemV, rx ntp.Time64) (server.PairV, bool) {
	for _, p := range it.Pairs {
		if p.Rx == rx {
			return p, true
		}
	}
	return server.PairV{}, false
}

// agree checks (iv): every pair kept for the client stems from this client's own history.
func (m *machine) agree(c string) {
	it, ok := server.LookupV(c)
	if !ok {
		return
	}
	if len(it.Pairs) == 0 || len(it.Pairs) > server.TssItemCapV {
		m.fatalf("client %s: %d pairs on record", c, len(it.Pairs))
	}
	seen := map[ntp.Time64]bool{}
	for _, p := range it.Pairs {
		if seen[p.Rx] {
			m.fatalf("client %s: receive timestamp %v kept twice", c, p.Rx)
		}
		seen[p.Rx] = true
		h := m.byRx[c][p.Rx]
		if h == nil {
			m.fatalf("client %s: record holds receive timestamp %v that was never given to this client (another client's timestamps?)", c, p.Rx)
		}
		if h.lost {
			m.fatalf("client %s: exchange %d whose transmit timestamp could not be read is still on record", c, h.seq)
		}
		switch {
		case h.kernel != nil:
			if p.Tx != *h.kernel {
				m.fatalf("client %s: exchange %d: recorded tx %v, kernel transmit timestamp %v was delivered", c, h.seq, p.Tx, *h.kernel)
			}
		case h.kernelGT:
			if !m.later(p.Tx, p.Rx) {
				m.fatalf("client %s: exchange %d: recorded tx %v not later than rx %v", c, h.seq, p.Tx, p.Rx)
			}
		default:
			if p.Tx != h.sw64 {
				m.fatalf("client %s: exchange %d: recorded tx %v differs from the transmit time of that reply %v", c, h.seq, p.Tx, h.sw64)
			}
		}
	}
}

func (m *machine) request() {
	t := m.t
	c := rapid.SampledFrom(m.clients).Draw(t, "client")
	mine := m.exchangesOf(c, true)
	var req ntp.Packet
	req.SetVersion(uint8(rapid.SampledFrom([]int{3, 4}).Draw(t, "vn")))
	req.SetMode(ntp.ModeClient)
	req.Poll = int8(rapid.IntRange(0, 10).Draw(t, "poll"))
	t64 := func(label string) ntp.Time64 {
		return ntp.Time64{Seconds: rapid.Uint32().Draw(t, label+"s"), Fraction: rapid.Uint32().Draw(t, label+"f")}
	}
	kind := rapid.SampledFrom([]string{"basic", "basic", "il-latest", "il-any", "il-any", "il-other-client", "il-unknown", "il-rx-eq-tx", "replay"}).Draw(t, "kind")
	switch {
	case kind == "basic" || (len(mine) == 0 && kind != "il-other-client" && kind != "il-unknown"):
		kind = "basic"
		req.TransmitTime = t64("ctx")
		if rapid.Bool().Draw(t, "zero-rx") {
			req.ReceiveTime = ntp.Time64{}
		} else {
			req.ReceiveTime = req.TransmitTime // some clients copy
		}
	case kind == "il-latest":
		h := mine[len(mine)-1]
		req.OriginTime, req.ReceiveTime, req.TransmitTime = h.rx64, t64("crx"), t64("ctx")
	case kind == "il-any":
		h := rapid.SampledFrom(mine).Draw(t, "cite")
		req.OriginTime, req.ReceiveTime, req.TransmitTime = h.rx64, t64("crx"), t64("ctx")
	case kind == "il-rx-eq-tx":
		h := rapid.SampledFrom(mine).Draw(t, "cite")
		req.OriginTime, req.TransmitTime = h.rx64, t64("ctx")
		req.ReceiveTime = req.TransmitTime
	case kind == "il-other-client":
		var others []*hist
		for _, h := range m.all {
			if h.client != c {
				others = append(others, h)
			}
		}
		if len(others) == 0 {
			req.OriginTime = t64("org")
		} else {
			req.OriginTime = rapid.SampledFrom(others).Draw(t, "cite").rx64
		}
		req.ReceiveTime, req.TransmitTime = t64("crx"), t64("ctx")
	case kind == "il-unknown":
		req.OriginTime, req.ReceiveTime, req.TransmitTime = t64("org"), t64("crx"), t64("ctx")
	case kind == "replay":
		req = rapid.SampledFrom(mine).Draw(t, "replayed").req
	}
	// receive time of the packet
	m.tick += rapid.Int64Range(1, 1000).Draw(t, "tick")
	rxt := m.base.Add(time.Duration(m.tick))
	switch rapid.SampledFrom([]string{"later", "later", "later", "collide", "collide-any-client", "earlier", "plus1"}).Draw(t, "rxkind") {
	case "collide":
		if len(mine) > 0 {
			rxt = rapid.SampledFrom(mine).Draw(t, "rxcollide").rxt
		}
	case "collide-any-client":
		if len(m.all) > 0 {
			rxt = rapid.SampledFrom(m.all).Draw(t, "rxcollide").rxt
		}
	case "earlier":
		rxt = m.base.Add(time.Duration(rapid.Int64Range(0, max(1, m.tick)).Draw(t, "rxearlier")))
	case "plus1":
		if len(mine) > 0 {
			rxt = mine[len(mine)-1].rxt.Add(1)
		}
	}
	// the server's clock reading at handling time
	var now time.Time
	nowKind := rapid.SampledFrom([]string{"after", "after", "after", "equal", "before"}).Draw(t, "nowkind")
	switch nowKind {
	case "after":
		now = rxt.Add(time.Duration(rapid.Int64Range(1, 100000).Draw(t, "nowd")))
	case "equal":
		now = rxt
	default:
		now = rxt.Add(-time.Duration(rapid.Int64Range(1, 100000).Draw(t, "nowd")))
	}
	clk.Set(now)

	before, hadState := server.LookupV(c)
	rxtIn := rxt
	var txt time.Time
	var resp ntp.Packet
	server.HandleRequestV(c, &req, &rxt, &txt, &resp)
	m.steps++
	m.logf("request #%d client=%s kind=%s rxt=%d(+%d) now=%s org=%v rx=%v tx=%v -> org=%v rx=%v tx=%v", len(m.all), c, kind,
		rxtIn.Sub(m.base), rxt.Sub(rxtIn), nowKind, req.OriginTime, req.ReceiveTime, req.TransmitTime, resp.OriginTime, resp.ReceiveTime, resp.TransmitTime)

	// (i) header and receive timestamp
	if resp.Version() != 4 || resp.Mode() != ntp.ModeServer || resp.Stratum != 1 {
		m.fatalf("reply is not a version-4 server-mode stratum-1 packet: VN %d mode %d stratum %d", resp.Version(), resp.Mode(), resp.Stratum)
	}
	if resp.ReceiveTime != ntp.Time64FromTime(rxt) {
		m.fatalf("reply receive timestamp %v is not the (returned) receive time %v", resp.ReceiveTime, ntp.Time64FromTime(rxt))
	}
	// (ii) distinct from all receive timestamps currently kept for that client
	if rxt.Before(rxtIn) {
		m.fatalf("receive time moved backwards: %v -> %v", rxtIn, rxt)
	}
	if hadState {
		if _, dup := find(before, resp.ReceiveTime); dup {
			m.fatalf("reply receive timestamp %v equals one currently kept for client %s", resp.ReceiveTime, c)
		}
	}
	// (iii) basic or interleaved
	interleaved := req.ReceiveTime != req.TransmitTime && resp.OriginTime == req.ReceiveTime &&
		!(resp.OriginTime == req.TransmitTime && resp.TransmitTime == ntp.Time64FromTime(txt))
	if req.ReceiveTime != req.TransmitTime && resp.OriginTime == req.ReceiveTime && resp.OriginTime != req.TransmitTime {
		interleaved = true
	}
	if interleaved {
		m.labels["interleaved-reply"]++
		e, ok := server.PairV{}, false
		if hadState {
			e, ok = find(before, req.OriginTime)
		}
		if !ok {
			m.fatalf("interleaved reply to client %s although no earlier reply with receive timestamp %v is on record for it", c, req.OriginTime)
		}
		if resp.TransmitTime != e.Tx {
			m.fatalf("interleaved reply carries transmit timestamp %v, recorded for the cited reply is %v", resp.TransmitTime, e.Tx)
		}
		if !m.later(e.Tx, e.Rx) {
			if !kf.Known("C06", "c06/interleaved-served-tx-not-after-rx") {
				m.fatalf("interleaved reply serves transmit timestamp %v which is not later than the receive timestamp %v of the cited reply", e.Tx, e.Rx)
			}
		}
	} else {
		if resp.OriginTime != req.TransmitTime {
			m.fatalf("basic reply origin %v differs from the request's transmit timestamp %v (request rx field %v)", resp.OriginTime, req.TransmitTime, req.ReceiveTime)
		}
		if resp.TransmitTime != ntp.Time64FromTime(txt) {
			m.fatalf("basic reply transmit timestamp %v is not the returned transmit time %v", resp.TransmitTime, ntp.Time64FromTime(txt))
		}
		if now.After(rxtIn) && !txt.After(rxt) {
			m.fatalf("clock reading %v is later than the packet's receive time %v but transmit time %v is not later than the receive time %v", now, rxtIn, txt, rxt)
		}
		if hadState {
			if _, ok := find(before, req.OriginTime); ok && req.ReceiveTime != req.TransmitTime {
				m.labels["interleaved-possible-but-basic"]++
			}
		}
	}
	if rxt.After(rxtIn) {
		m.labels["rx-collision-bump"]++
	}
	// history
	h := &hist{seq: len(m.all), client: c, req: req, rxt: rxt, txt: txt, rx64: resp.ReceiveTime, sw64: ntp.Time64FromTime(txt)}
	if old := m.byRx[c][h.rx64]; old != nil {
		old.stale = true
	}
	if m.byRx[c] == nil {
		m.byRx[c] = map[ntp.Time64]*hist{}
	}
	m.byRx[c][h.rx64] = h
	m.all = append(m.all, h)
	// (v) the pair of a stateful request is on record
	after, ok := server.LookupV(c)
	if !ok {
		m.fatalf("client %s has no state after a request although the store is far from full", c)
	}
	if p, ok := find(after, h.rx64); !ok || p.Tx != h.sw64 {
		m.fatalf("exchange %d (rx %v, tx %v) is not on record right after the request: %+v", h.seq, h.rx64, h.sw64, after.Pairs)
	}
	m.agree(c)
}

func (m *machine) exchangesOf(c string, onlyCurrent bool) []*hist {
	var r []*hist
	for _, h := range m.all {
		if h.client == c && !(onlyCurrent && h.stale) {
			r = append(r, h)
		}
	}
	return r
}

func (m *machine) update() {
	t := m.t
	var cands []*hist
	for _, h := range m.all {
		if !h.updated && !h.stale {
			cands = append(cands, h)
		}
	}
	if len(cands) == 0 {
		t.Skip("no exchange awaiting its transmit timestamp")
	}
	// mostly the most recent ones (immediate update), sometimes long-delayed ones
	var h *hist
	if rapid.IntRange(0, 2).Draw(t, "recent") > 0 {
		h = cands[len(cands)-1]
	} else {
		h = rapid.SampledFrom(cands).Draw(t, "exchange")
	}
	outcome := rapid.SampledFrom([]string{"kernel-later", "kernel-later", "unreadable", "kernel-before-rx", "kernel-between-rx-and-clock-reading"}).Draw(t, "outcome")
	txt1 := h.txt
	switch outcome {
	case "kernel-between-rx-and-clock-reading":
		// a timestamping clock that lags the system clock (or a clock set back between handling and sending): the
		// kernel's transmit time is later than the receive time but earlier than the handler's clock reading
		if gap := int64(h.txt.Sub(h.rxt)); gap >= 2 {
			txt1 = h.rxt.Add(time.Duration(rapid.Int64Range(1, gap-1).Draw(t, "kd")))
			m.labels["kernel-tx-before-clock-reading"]++
		} else {
			outcome = "kernel-later"
			txt1 = h.txt.Add(time.Duration(rapid.Int64Range(1, 50000).Draw(t, "kd")))
		}
	case "kernel-later":
		txt1 = h.txt.Add(time.Duration(rapid.Int64Range(1, 50000).Draw(t, "kd")))
	case "kernel-before-rx":
		txt1 = h.rxt.Add(-time.Duration(rapid.Int64Range(0, 50000).Draw(t, "kd")))
	}
	before, had := server.LookupV(h.client)
	_, onRecord := server.PairV{}, false
	if had {
		_, onRecord = find(before, h.rx64)
	}
	k := txt1
	server.UpdateTXTimestampV(h.client, h.rxt, &k)
	m.steps++
	h.updated = true
	m.logf("update exchange #%d client=%s outcome=%s on-record=%v", h.seq, h.client, outcome, onRecord)
	after, hasAfter := server.LookupV(h.client)
	p, still := server.PairV{}, false
	if hasAfter {
		p, still = find(after, h.rx64)
	}
	if !onRecord {
		if still {
			m.fatalf("update for exchange %d, which was not on record, created a record", h.seq)
		}
		m.agree(h.client)
		return
	}
	switch {
	case outcome == "unreadable" && h.txt.After(h.rxt):
		h.lost = true
		m.labels["lost-tx-removal"]++
		if still {
			m.fatalf("exchange %d: no transmit timestamp could be read but the exchange is still on record with tx %v", h.seq, p.Tx)
		}
	case outcome == "unreadable":
		// the software transmit time itself was not later than rx (clock reading <= receive time): see known finding
		h.kernelGT = true
		if still && !m.later(p.Tx, p.Rx) {
			m.fatalf("exchange %d: recorded tx %v not later than rx %v after the update", h.seq, p.Tx, p.Rx)
		}
	case txt1.After(h.rxt):
		k64 := ntp.Time64FromTime(txt1)
		if k64 == h.sw64 { // cannot happen: >= 1 ns apart
			h.lost = true
			return
		}
		h.kernel = &k64
		m.labels["kernel-tx-recorded"]++
		if !still || p.Tx != k64 {
			m.fatalf("exchange %d: kernel transmit timestamp %v delivered but the record is %+v (present=%v)", h.seq, k64, p, still)
		}
	default: // kernel time not later than rx: whatever is recorded must be later than rx
		h.kernelGT = true
		m.labels["kernel-before-rx"]++
		if still && !m.later(p.Tx, p.Rx) {
			m.fatalf("exchange %d: recorded tx %v not later than rx %v after the update", h.seq, p.Tx, p.Rx)
		}
		if !still {
			h.lost = true // dropping is admissible too
			h.kernelGT = false
		}
	}
	m.agree(h.client)
}

var rec = ev.New("c06/handler-history", "rapid state machine over the real request handler and transmit-timestamp update (verif hooks) with a registered fake clock: 2..5 clients; requests of kinds {basic, interleaved citing the latest / any / a superseded reply of the same client, citing another client's reply, unknown origin, rx field == tx field, verbatim replay}, receive times {later, colliding with a kept one of the same or another client, earlier, +1 ns chains}, bases incl. the 2036 era boundary, clock reading after/equal/before the receive time; transmit-timestamp updates {kernel later than the clock reading, kernel between receive time and clock reading, unreadable, kernel before rx} applied immediately, delayed or never. Oracle: history model independent of the replacement policy (header fields, rx uniqueness, basic/interleaved justification against the pre-call snapshot, recorded tx = kernel value once delivered, lost exchanges dropped, no foreign timestamps, pair on record right after a stateful request). One evaluation = one step. Non-trivial: sequence with an interleaved reply, an rx collision bump or a lost-tx removal; distinct by hash of the step log")

func TestPropHandlerHistory(t *testing.T) {
	vt.Check(t, 30000, 150000, func(t *rapid.T) {
		server.ResetV()
		m := &machine{t: t, byRx: map[string]map[ntp.Time64]*hist{}, labels: map[string]int{}}
		nc := rapid.IntRange(2, 5).Draw(t, "nclients")
		for i := 0; i < nc; i++ {
			m.clients = append(m.clients, fmt.Sprintf("10.0.0.%d", i+1))
		}
		m.base = rapid.SampledFrom([]time.Time{
			time.Unix(1700000000, 0),
			time.Unix(-2208988800+(1<<32)-1, 999990000), // just before the 2036 era rollover
			time.Unix(1700000000, 999999000),
		}).Draw(t, "base")
		t.Repeat(map[string]func(*rapid.T){
			"request": func(t *rapid.T) { m.t = t; m.request() },
			"update":  func(t *rapid.T) { m.t = t; m.update() },
		})
		for _, c := range m.clients {
			m.agree(c)
		}
		nt := m.labels["interleaved-reply"] > 0 || m.labels["rx-collision-bump"] > 0 || m.labels["lost-tx-removal"] > 0
		var ls []string
		for l := range m.labels {
			ls = append(ls, l)
		}
		h := ev.Hash(fmt.Sprint(m.events))
		rec.Eval(nt, h, func() any { return m.events[:min(len(m.events), 12)] }, ls...)
		if m.steps > 1 {
			rec.Count(int64(m.steps - 1))
		}
	})
}
