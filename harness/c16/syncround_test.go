package c16

// The round as the synchronization loop runs it: core/sync derives the round's deadline from Config.SyncTimeout and
// hands it to the collector. "Collecting offsets ... returns no later than the round's deadline however slow, blocked
// or failing individual clocks are", observed at the loop: the correction of a round is handed over no later than
// SyncTimeout (virtual time) after the round began, for every admissible timeout including 0 and 1 ns.

import (
	"context"
	"fmt"
	"io"
	"log/slog"
	"runtime"
	"sync"
	"testing"
	"testing/synctest"
	"time"

	"github.com/prometheus/client_golang/prometheus"
	"pgregory.net/rapid"

	rsync "example.com/scion-time/core/sync"

	"example.com/scion-time/core/client"

	"verif/internal/ev"
	"verif/internal/vt"
)

type srcAns struct {
	Kind  int   `json:"kind"` // 0 answers after Delay; 1 error after Delay; 2 blocks until the context ends; 3 ignores the context for Delay
	Delay int64 `json:"delay"`
}

type loopCase struct {
	Interval int64      `json:"interval"`
	Timeout  int64      `json:"timeout"`
	NRef     int        `json:"nref"`
	NPeer    int        `json:"npeer"`
	Rounds   [][]srcAns `json:"rounds"`
}

type loopEvent struct {
	kind string
	at   time.Time
}

type loopWorld struct {
	mu     sync.Mutex
	events []loopEvent
	c      *loopCase
}

func (w *loopWorld) add(k string) {
	w.mu.Lock()
	w.events = append(w.events, loopEvent{k, time.Now()})
	w.mu.Unlock()
}

type loopClk struct {
	w      *loopWorld
	sleeps int
}

func (c *loopClk) Epoch() uint64                        { return 0 }
func (c *loopClk) Now() time.Time                       { return time.Now() }
func (c *loopClk) Drift(d time.Duration) time.Duration  { return d / 1000 }
func (c *loopClk) Step(time.Duration)                   {}
func (c *loopClk) Adjust(_, _ time.Duration, _ float64) {}
func (c *loopClk) Sleep(d time.Duration) {
	c.w.add("sleep")
	c.sleeps++
	if c.sleeps >= len(c.w.c.Rounds) {
		runtime.Goexit()
	}
	time.Sleep(d)
}

type loopAdj struct{ w *loopWorld }

func (a loopAdj) Do(time.Duration) { a.w.add("do") }

type loopSrc struct {
	w     *loopWorld
	idx   int
	mu    sync.Mutex
	calls int
}

func (s *loopSrc) MeasureClockOffset(ctx context.Context) (time.Time, time.Duration, error) {
	s.mu.Lock()
	k := s.calls
	s.calls++
	s.mu.Unlock()
	if k >= len(s.w.c.Rounds) {
		return time.Time{}, 0, fmt.Errorf("past the scripted history")
	}
	a := s.w.c.Rounds[k][s.idx]
	switch a.Kind {
	case 2:
		<-ctx.Done()
		return time.Time{}, 0, ctx.Err()
	case 1:
		time.Sleep(time.Duration(a.Delay))
		return time.Time{}, 0, fmt.Errorf("scripted failure")
	default:
		time.Sleep(time.Duration(a.Delay))
		return time.Now(), time.Duration(1000 * (s.idx + 1)), nil
	}
}

var recLoop = ev.New("c16/sync-round-deadline", "rapid: the real sync.Run in a synctest bubble (scripted system clock, recording discipline) with 1..4 reference clocks and 0..3 peers over 1..4 rounds; SyncTimeout from {0, 1 ns, 1 us, 1 ms, interval/2} and ranges; per round and source: answers or fails after a delay (before, at, after the timeout), blocks until its context ends, or ignores the context for up to 3 intervals. Oracle: every round hands exactly one correction to the discipline, no later than SyncTimeout of virtual time after the round began (round k+1 begins when the Sleep(interval) after round k returns); a round that never ends shows as a deadlocked bubble. One evaluation = one round. Non-trivial: round with a source that blocks or outlasts the timeout; distinct by case hash")

func TestPropSyncRoundDeadline(t *testing.T) {
	vt.Check(t, 1500, 15000, func(t *rapid.T) {
		c := &loopCase{
			Interval: rapid.SampledFrom([]int64{int64(time.Second), int64(16 * time.Second), 2000, int64(time.Millisecond)}).Draw(t, "interval"),
			NRef:     rapid.IntRange(1, 4).Draw(t, "nref"),
			NPeer:    rapid.IntRange(0, 3).Draw(t, "npeer"),
		}
		c.Timeout = rapid.OneOf(rapid.SampledFrom([]int64{0, 0, 1, 1000, int64(time.Millisecond), c.Interval / 2}), rapid.Int64Range(0, c.Interval/2)).Draw(t, "timeout")
		c.Timeout = min(c.Timeout, c.Interval/2)
		nr := rapid.IntRange(1, 4).Draw(t, "rounds")
		hard := 0
		for k := 0; k < nr; k++ {
			var as []srcAns
			for i := 0; i < c.NRef+c.NPeer; i++ {
				a := srcAns{Kind: rapid.SampledFrom([]int{0, 0, 1, 2, 2, 3}).Draw(t, "kind")}
				switch a.Kind {
				case 0, 1:
					a.Delay = rapid.OneOf(rapid.Int64Range(0, max(c.Timeout, 1)), rapid.SampledFrom([]int64{0, c.Timeout, c.Timeout + 1, max(c.Timeout-1, 0)})).Draw(t, "delay")
				case 3:
					a.Delay = c.Timeout + rapid.Int64Range(1, 3*c.Interval).Draw(t, "late")
				}
				if a.Kind >= 2 || a.Delay > c.Timeout {
					hard++
				}
				as = append(as, a)
			}
			c.Rounds = append(c.Rounds, as)
		}
		if msg := runLoop(c); msg != "" {
			t.Fatalf("%s (%+v)", msg, *c)
		}
		var ls []string
		if c.Timeout == 0 {
			ls = append(ls, "timeout-0")
		}
		if c.Timeout == 1 {
			ls = append(ls, "timeout-1ns")
		}
		recLoop.Eval(hard > 0, ev.Hash(fmt.Sprint(*c)), func() any { return c }, ls...)
		if nr > 1 {
			recLoop.Count(int64(nr - 1))
		}
	})
}

func runLoop(c *loopCase) (msg string) {
	w := &loopWorld{c: c}
	clk := &loopClk{w: w}
	var refs, peers []client.ReferenceClock
	for i := 0; i < c.NRef; i++ {
		refs = append(refs, &loopSrc{w: w, idx: i})
	}
	for i := 0; i < c.NPeer; i++ {
		peers = append(peers, &loopSrc{w: w, idx: c.NRef + i})
	}
	cfg := rsync.Config{ReferenceClockImpact: 1.25, PeerClockImpact: 2.5, PeerClockCutoff: 50 * time.Microsecond,
		SyncTimeout: time.Duration(c.Timeout), SyncInterval: time.Duration(c.Interval)}
	log := slog.New(slog.NewTextHandler(io.Discard, nil))
	var start time.Time
	var panicked any
	func() {
		defer func() {
			if r := recover(); r != nil {
				msg = fmt.Sprintf("the loop did not get through its rounds: %v (events so far: %d)", r, len(w.events))
			}
		}()
		synctest.Run(func() {
			prometheus.DefaultRegisterer = prometheus.NewRegistry()
			w.mu.Lock()
			start = time.Now()
			w.mu.Unlock()
			done := make(chan struct{})
			go func() {
				defer close(done)
				defer func() {
					r := recover()
					w.mu.Lock()
					panicked = r
					w.mu.Unlock()
				}()
				rsync.Run(log, cfg, clk, loopAdj{w}, refs, peers)
			}()
			<-done
		})
	}()
	if msg != "" {
		return msg
	}
	w.mu.Lock()
	defer w.mu.Unlock()
	if panicked != nil {
		return fmt.Sprintf("sync.Run panicked on an admissible configuration: %v", panicked)
	}
	if len(w.events) != 2*len(c.Rounds) {
		return fmt.Sprintf("%d rounds scripted, %d discipline/sleep events", len(c.Rounds), len(w.events))
	}
	begin := start
	for k := range c.Rounds {
		d, sl := w.events[2*k], w.events[2*k+1]
		if d.kind != "do" || sl.kind != "sleep" {
			return fmt.Sprintf("round %d: expected one correction then the sleep, got %s, %s", k, d.kind, sl.kind)
		}
		if took := d.at.Sub(begin); took > time.Duration(c.Timeout) || took < 0 {
			return fmt.Sprintf("round %d took %v from its begin to its correction; its deadline is SyncTimeout = %v after the begin", k, took, time.Duration(c.Timeout))
		}
		begin = sl.at.Add(time.Duration(c.Interval))
	}
	return ""
}
