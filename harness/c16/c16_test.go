package c16

import (
	"context"
	"encoding/json"
	"errors"
	"fmt"
	"os"
	"path/filepath"
	"slices"
	"strings"
	"sync"
	"testing"
	"testing/synctest"
	"time"

	"pgregory.net/rapid"

	"example.com/scion-time/core/client"
	"example.com/scion-time/core/measurements"

	"verif/internal/ev"
	"verif/internal/vt"
)

func TestMain(m *testing.M) { vt.Main(m) }

const (
	cAt        = 0 // completes At ns after the start, ignoring cancellation
	cOnCancel  = 1 // returns an error as soon as the context is cancelled
	cAfterCanc = 2 // waits for cancellation, then Extra ns more, then completes
)

type clockSpec struct {
	Kind  int   `json:"kind"`
	At    int64 `json:"at,omitempty"`
	Extra int64 `json:"extra,omitempty"`
	OK    bool  `json:"ok"`
	// Err (when !OK): which error the clock reports. Errors of a clock are its own business: one that wraps a
	// context error (a clock that bounds its work with a private context) must not be mistaken for the round's end.
	Err int `json:"err,omitempty"` // 0 plain; 1 wraps context.Canceled; 2 wraps context.DeadlineExceeded; 3 os.ErrDeadlineExceeded; 4 the bare context.DeadlineExceeded
}

type rcase struct {
	Stop     string      `json:"stop"` // "deadline" | "cancel" | "none"
	D        int64       `json:"d"`    // deadline / cancellation instant (ns after start)
	Clocks   []clockSpec `json:"clocks"`
	Second   int64       `json:"second_call_at"` // <0: none; else a second collection starts at this instant
	More     int         `json:"more_attempts,omitempty"` // further attempts on the same collector, 1 ns apart, after the second one
	WrongLen int         `json:"wrong_len"`      // 0: correct; else len(ms) = n + WrongLen
}

type clk struct {
	spec  clockSpec
	tag   int64
	start time.Time
}

func (c *clk) MeasureClockOffset(ctx context.Context) (time.Time, time.Duration, error) {
	switch c.spec.Kind {
	case cAt:
		time.Sleep(time.Until(c.start.Add(time.Duration(c.spec.At))))
	case cOnCancel:
		<-ctx.Done()
		return time.Time{}, 0, ctx.Err()
	case cAfterCanc:
		<-ctx.Done()
		time.Sleep(time.Duration(c.spec.Extra))
	}
	if !c.spec.OK {
		switch c.spec.Err {
		case 1:
			return time.Time{}, 0, fmt.Errorf("scripted clock: private context: %w", context.Canceled)
		case 2:
			return time.Time{}, 0, fmt.Errorf("scripted clock: private timeout: %w", context.DeadlineExceeded)
		case 3:
			return time.Time{}, 0, os.ErrDeadlineExceeded
		case 4:
			return time.Time{}, 0, context.DeadlineExceeded
		}
		return time.Time{}, 0, errors.New("scripted error")
	}
	return time.Now(), time.Duration(c.tag), nil
}

const sentinel = time.Duration(-7777777)

type outcome struct {
	msg                 string
	late, edge, overlap bool
}

func run(c rcase) (res outcome) {
	var mu sync.Mutex
	var out outcome
	defer func() {
		if r := recover(); r != nil { // synctest reports blocked goroutines as a deadlock panic in the caller
			res = outcome{msg: fmt.Sprintf("goroutines left behind after every clock returned: %v", r)}
			return
		}
		mu.Lock()
		res = out
		mu.Unlock()
	}()
	fail := func(format string, args ...any) {
		if out.msg == "" {
			out.msg = fmt.Sprintf(format, args...)
		}
	}
	synctest.Run(func() {
		mu.Lock()
		defer mu.Unlock()
		n := len(c.Clocks)
		start := time.Now()
		ctx := context.Background()
		var cancel context.CancelFunc = func() {}
		switch c.Stop {
		case "deadline":
			ctx, cancel = context.WithDeadline(ctx, start.Add(time.Duration(c.D)))
		case "cancel":
			ctx, cancel = context.WithCancel(ctx)
			go func() {
				time.Sleep(time.Duration(c.D))
				cancel()
			}()
		}
		defer cancel()
		var rcs []client.ReferenceClock
		var clks []*clk
		for i, s := range c.Clocks {
			k := &clk{spec: s, tag: int64(1000 + i), start: start}
			clks = append(clks, k)
			rcs = append(rcs, k)
		}
		ms := make([]measurements.Measurement, n+c.WrongLen)
		for i := range ms {
			ms[i].Offset = sentinel
		}
		var col client.ReferenceClockClient
		if c.WrongLen != 0 {
			p := capture(func() { col.MeasureClockOffsets(ctx, rcs, ms) })
			if p == nil {
				fail("result slice of length %d for %d clocks was accepted", len(ms), n)
			}
			return
		}
		// expected return instant
		stopAt := int64(-1)
		if c.Stop != "none" {
			stopAt = c.D
		}
		latest := int64(0)
		allFinite := true
		for _, s := range c.Clocks {
			if s.Kind != cAt {
				allFinite = false
			} else {
				latest = max(latest, s.At)
			}
		}
		wantRet := stopAt
		if allFinite && (stopAt < 0 || latest < stopAt) {
			wantRet = latest
		}
		// optional overlapping second collection on the same collector
		type attempt struct {
			at int64
			p  any
		}
		var attempts []attempt
		secondDone := make(chan struct{})
		if c.Second >= 0 {
			out.overlap = c.Second < wantRet
			go func() {
				defer close(secondDone)
				time.Sleep(time.Duration(c.Second))
				for k := 0; k <= c.More; k++ {
					if k > 0 {
						time.Sleep(1)
					}
					ms2 := make([]measurements.Measurement, 1)
					a := attempt{at: c.Second + int64(k)}
					a.p = capture(func() {
						col.MeasureClockOffsets(context.Background(), []client.ReferenceClock{&clk{spec: clockSpec{Kind: cAt, At: 0, OK: true}, tag: 1, start: time.Now()}}, ms2)
					})
					if a.p == nil && ms2[0].Offset != 1 {
						fail("collection attempt %d at %d was admitted but did not deliver its result", k+2, a.at)
					}
					attempts = append(attempts, a)
				}
			}()
		} else {
			close(secondDone)
		}
		p := capture(func() { col.MeasureClockOffsets(ctx, rcs, ms) })
		ret := int64(time.Since(start))
		if p != nil {
			fail("collection panicked: %v", p)
			return
		}
		if ret != wantRet {
			fail("collection returned %d ns after its start, expected %d (deadline/cancel at %d, latest completion %d)", ret, wantRet, stopAt, latest)
		}
		snap := slices.Clone(ms)
		// S: successes strictly before the return instant; SD: successes exactly at it (only when stopped by deadline/cancel)
		must, may := map[int64]bool{}, map[int64]bool{}
		for i, s := range c.Clocks {
			if s.Kind == cAt && s.OK {
				tag := int64(1000 + i)
				switch {
				case s.At < ret || stopAt < 0 || (allFinite && latest < stopAt):
					must[tag] = true
				case s.At == ret:
					may[tag] = true
					out.edge = true
				}
			}
			if s.Kind == cAfterCanc && s.Extra == 0 && s.OK {
				// completes at the very instant of the cancellation: may or may not be counted
				may[int64(1000+i)] = true
				out.edge = true
			}
			if s.Kind != cAt || (stopAt >= 0 && s.At > stopAt) {
				out.late = true
			}
			if s.Kind == cAt && stopAt >= 0 && s.At == stopAt {
				out.edge = true
			}
		}
		seen := map[int64]bool{}
		front := 0
		for front < len(snap) && snap[front].Offset != sentinel {
			tag := int64(snap[front].Offset)
			if snap[front].Error != nil {
				fail("result %d at the front of the slice carries an error", front)
			}
			if seen[tag] {
				fail("result with tag %d placed twice in the result slice", tag)
			}
			if !must[tag] && !may[tag] {
				fail("result slice contains tag %d which is not a success that arrived in time (return at %d)", tag, ret)
			}
			seen[tag] = true
			front++
		}
		for i := front; i < len(snap); i++ {
			if snap[i].Offset != sentinel {
				fail("position %d behind the %d collected results was modified (offset %v)", i, front, snap[i].Offset)
			}
		}
		for tag := range must {
			if !seen[tag] {
				fail("success with tag %d arrived before the return instant %d but is missing from the front of the result slice %v", tag, ret, offsets(snap))
			}
		}
		// let every scripted clock finish, then the slice must be unchanged
		cancel()
		far := latest
		for _, s := range c.Clocks {
			far = max(far, s.Extra+max(stopAt, 0))
		}
		time.Sleep(time.Duration(far+10) - time.Since(start))
		<-secondDone
		for i := range ms {
			if ms[i] != snap[i] {
				fail("result slice changed after the collection had returned (position %d: %v -> %v)", i, snap[i].Offset, ms[i].Offset)
			}
		}
		for k, a := range attempts {
			switch {
			case a.at < wantRet:
				if a.p == nil {
					fail("collection attempt %d, started at %d while the first collection was in progress (until %d), was not refused (earlier attempts refused: %d)", k+2, a.at, wantRet, k)
				} else if !strings.Contains(fmt.Sprint(a.p), "in progress") {
					fail("overlapping collection refused with an unexpected panic: %v", a.p)
				}
			case a.at > wantRet:
				if a.p != nil {
					fail("collection attempt %d started at %d after the first ended (%d) panicked: %v", k+2, a.at, wantRet, a.p)
				}
			}
		}
	})
	return
}

func offsets(ms []measurements.Measurement) []int64 {
	var o []int64
	for _, m := range ms {
		o = append(o, int64(m.Offset))
	}
	return o
}

func capture(f func()) (p any) {
	defer func() { p = recover() }()
	f()
	return nil
}

func genCase(t *rapid.T) rcase {
	c := rcase{Second: -1}
	c.Stop = rapid.SampledFrom([]string{"deadline", "deadline", "deadline", "cancel", "none"}).Draw(t, "stop")
	c.D = rapid.OneOf(rapid.Int64Range(1, int64(time.Second)), rapid.SampledFrom([]int64{1, 2, 1000, int64(500 * time.Millisecond)})).Draw(t, "d")
	n := rapid.OneOf(rapid.IntRange(0, 12), rapid.IntRange(1, 4)).Draw(t, "n")
	for i := 0; i < n; i++ {
		s := clockSpec{OK: rapid.IntRange(0, 3).Draw(t, "ok") > 0}
		if !s.OK {
			s.Err = rapid.SampledFrom([]int{0, 0, 1, 2, 3, 4}).Draw(t, "errkind")
		}
		kinds := []int{cAt, cAt, cAt, cOnCancel, cAfterCanc}
		if c.Stop == "none" {
			kinds = []int{cAt}
		}
		s.Kind = rapid.SampledFrom(kinds).Draw(t, "kind")
		switch s.Kind {
		case cAt:
			s.At = rapid.OneOf(rapid.SampledFrom([]int64{0, c.D - 1, c.D, c.D + 1, 3 * c.D}), rapid.Int64Range(0, 2*c.D)).Draw(t, "at")
		case cAfterCanc:
			s.Extra = rapid.Int64Range(0, 5*c.D).Draw(t, "extra")
		}
		c.Clocks = append(c.Clocks, s)
	}
	switch rapid.IntRange(0, 9).Draw(t, "variant") {
	case 0:
		c.WrongLen = rapid.SampledFrom([]int{-1, 1, 2}).Draw(t, "wronglen")
		if n+c.WrongLen < 0 {
			c.WrongLen = 1
		}
	case 1, 2, 3:
		// instant 0 is the start of the first collection itself: which of two simultaneous starts wins is unspecified
		c.Second = rapid.OneOf(rapid.Int64Range(1, 3*c.D), rapid.SampledFrom([]int64{1, max(1, c.D-1), c.D + 1})).Draw(t, "second")
		c.More = rapid.SampledFrom([]int{0, 0, 1, 2, 3}).Draw(t, "more-attempts")
	}
	return c
}

var rec = ev.New("c16/collect", "rapid: 0..12 scripted reference clocks inside a synctest bubble (virtual time), stop by deadline D, manual cancellation at D, or none; per clock a completion time from {0, D-1, D, D+1, 3D, range}, 'returns when cancelled', or 'returns Extra after cancellation', success (unique tag) or error (plain, wrapping context.Canceled / context.DeadlineExceeded, os.ErrDeadlineExceeded); result slice pre-filled with sentinels; optional second collection on the same collector at a generated instant, followed by 0..3 further attempts 1 ns apart; optional wrong-length slice; built with -race. Oracle: return instant == min(stop, latest completion) exactly; front of the slice = each in-time success once (those completing exactly at the stop instant optional), rest untouched, unchanged after late results arrive; bubble exit finds no blocked goroutine; every overlapping attempt refused with the 'in progress' panic (also after an earlier attempt was refused), later ones work; wrong length refused. Non-trivial: >= 1 clock completing at/after the stop instant, or an overlapping second call; distinct by case hash")

func TestPropCollect(t *testing.T) {
	vt.Check(t, 15000, 150000, func(t *rapid.T) {
		c := genCase(t)
		disarm := vt.Watchdog(t, 60*time.Second, c, "MeasureClockOffsets did not return (virtual time could not advance to the deadline)")
		o := run(c)
		disarm()
		if o.msg != "" {
			t.Fatalf("%s", o.msg)
		}
		b, _ := json.Marshal(c)
		var ls []string
		if o.late {
			ls = append(ls, "clock-after-stop")
		}
		if o.edge {
			ls = append(ls, "clock-exactly-at-stop")
		}
		if o.overlap {
			ls = append(ls, "overlapping-second-call")
		}
		if c.WrongLen != 0 {
			ls = append(ls, "wrong-length")
		}
		rec.Eval(o.late || o.edge || o.overlap, ev.Hash(b), func() any { return c }, ls...)
	})
}

// TestReplay re-runs saved cases (corpus and --replay of a JSON case) without the library.
func TestReplay(t *testing.T) {
	files, _ := filepath.Glob(filepath.Join(vt.CorpusDir("C16"), "*.json"))
	if p := vt.ReplayCase(); p != "" {
		files = []string{p}
	}
	for _, p := range files {
		b, err := os.ReadFile(p)
		if err != nil {
			t.Fatal(err)
		}
		var w struct {
			Case rcase `json:"case"`
		}
		if err := json.Unmarshal(b, &w); err != nil {
			t.Fatalf("%s: %v", p, err)
		}
		disarm := vt.Watchdog(t, 60*time.Second, w.Case, "MeasureClockOffsets did not return")
		o := run(w.Case)
		disarm()
		if o.msg != "" {
			vt.Violation(t, w.Case, "%s", o.msg)
		}
	}
}
