package c01

import (
	"context"
	"encoding/json"
	"fmt"
	"io"
	"log/slog"
	"math"
	"math/big"
	"os"
	"path/filepath"
	"runtime"
	"slices"
	"sync"
	"testing"
	"testing/synctest"
	"time"

	"github.com/prometheus/client_golang/prometheus"
	"pgregory.net/rapid"

	"example.com/scion-time/core/client"
	rsync "example.com/scion-time/core/sync"

	"verif/internal/ev"
	"verif/internal/gen"
	"verif/internal/vt"
)

func TestMain(m *testing.M) { vt.Main(m) }

// ---------------------------------------------------------------- script

const (
	kOK    = 0 // answers after Delay (< timeout)
	kErr   = 1 // answers with an error after Delay
	kLate  = 2 // answers (success) after Delay > timeout, ignoring cancellation
	kBlock = 3 // waits for cancellation, then returns an error
	kEdge  = 4 // answers exactly at the timeout instant
)

type answer struct {
	Kind   int   `json:"kind"`
	Offset int64 `json:"offset"`
	Delay  int64 `json:"delay"`
}

type script struct {
	R, P      float64    `json:"-"`
	RBits     uint64     `json:"r_bits"`
	PBits     uint64     `json:"p_bits"`
	Cutoff    int64      `json:"cutoff"`
	Interval  int64      `json:"interval"`
	Timeout   int64      `json:"timeout"`
	Unknown   bool       `json:"unknown_drift"`
	DriftRate float64    `json:"drift_rate"`
	NRef      int        `json:"nref"`
	NPeer     int        `json:"npeer"`
	Rounds    [][]answer `json:"rounds"` // per round: nref+npeer answers
}

func (s *script) drift(d time.Duration) time.Duration {
	if s.Unknown {
		return math.MaxInt64
	}
	return time.Duration(float64(d) * s.DriftRate)
}

func (s *script) admissible() bool {
	if !(s.R > 1) || !(s.P > 1) || !(s.P-1 > s.R) {
		return false
	}
	if s.Interval <= 0 || s.Timeout < 0 || s.Timeout > s.Interval/2 {
		return false
	}
	return s.drift(time.Duration(s.Interval)) > 0
}

// ---------------------------------------------------------------- fakes

type event struct {
	kind string // "do", "sleep"
	val  int64
}

type world struct {
	mu     sync.Mutex
	events []event
	s      *script
}

func (w *world) add(e event) {
	w.mu.Lock()
	w.events = append(w.events, e)
	w.mu.Unlock()
}

type fakeClk struct {
	w      *world
	rounds int
	sleeps int
}

func (c *fakeClk) Epoch() uint64                        { return 0 }
func (c *fakeClk) Now() time.Time                       { return time.Now() }
func (c *fakeClk) Drift(d time.Duration) time.Duration  { return c.w.s.drift(d) }
func (c *fakeClk) Step(time.Duration)                   {}
func (c *fakeClk) Adjust(_, _ time.Duration, _ float64) {}
func (c *fakeClk) Sleep(d time.Duration) {
	c.w.add(event{"sleep", int64(d)})
	c.sleeps++
	if c.sleeps >= c.rounds {
		runtime.Goexit() // end of the scripted history: sync.Run never returns by itself
	}
	time.Sleep(d)
}

type recAdj struct{ w *world }

func (a recAdj) Do(off time.Duration) { a.w.add(event{"do", int64(off)}) }

type src struct {
	w     *world
	idx   int
	mu    sync.Mutex
	calls int
}

var errScripted = fmt.Errorf("scripted failure")

func (c *src) MeasureClockOffset(ctx context.Context) (time.Time, time.Duration, error) {
	c.mu.Lock()
	k := c.calls
	c.calls++
	c.mu.Unlock()
	if k >= len(c.w.s.Rounds) {
		return time.Time{}, 0, errScripted
	}
	a := c.w.s.Rounds[k][c.idx]
	switch a.Kind {
	case kBlock:
		<-ctx.Done()
		return time.Time{}, 0, ctx.Err()
	case kErr:
		time.Sleep(time.Duration(a.Delay))
		return time.Time{}, 0, errScripted
	default:
		time.Sleep(time.Duration(a.Delay))
		return time.Now(), time.Duration(a.Offset), nil
	}
}

// ---------------------------------------------------------------- oracle helpers

func sgn(x int64) int64 {
	switch {
	case x < 0:
		return -1
	case x > 0:
		return 1
	}
	return 0
}

func absF(x int64) float64 { return math.Abs(float64(x)) }

func ftm(vs []int64) int64 {
	s := slices.Clone(vs)
	slices.Sort(s)
	f := (len(s) - 1) / 3
	x, y := s[f], s[len(s)-1-f]
	m := new(big.Int).Add(big.NewInt(x), big.NewInt(y))
	m.Quo(m, big.NewInt(2)) // truncates toward zero; +-1 ns accepted by the caller
	return m.Int64()
}

type verdict struct {
	nontrivial bool
	labels     []string
}

// run executes one scripted history and returns an error description or "".
func run(s *script) (msg string, vs []verdict, nrounds int) {
	w := &world{s: s}
	clk := &fakeClk{w: w, rounds: len(s.Rounds)}
	var refs, peers []client.ReferenceClock
	for i := 0; i < s.NRef; i++ {
		refs = append(refs, &src{w: w, idx: i})
	}
	for i := 0; i < s.NPeer; i++ {
		peers = append(peers, &src{w: w, idx: s.NRef + i})
	}
	cfg := rsync.Config{
		ReferenceClockImpact: s.R, PeerClockImpact: s.P,
		PeerClockCutoff: time.Duration(s.Cutoff), SyncTimeout: time.Duration(s.Timeout), SyncInterval: time.Duration(s.Interval),
	}
	log := slog.New(slog.NewTextHandler(io.Discard, nil))
	var panicked any
	synctest.Run(func() {
		prometheus.DefaultRegisterer = prometheus.NewRegistry()
		done := make(chan struct{})
		go func() {
			defer close(done)
			defer func() { panicked = recover() }()
			rsync.Run(log, cfg, clk, recAdj{w}, refs, peers)
		}()
		<-done
	})
	adm := s.admissible()
	if !adm {
		if panicked == nil {
			return fmt.Sprintf("inadmissible configuration was not refused: %s", s.describe()), nil, 0
		}
		if len(w.events) != 0 {
			return fmt.Sprintf("inadmissible configuration refused only after %d clock-discipline/sleep calls", len(w.events)), nil, 0
		}
		return "", nil, 0
	}
	if panicked != nil {
		return fmt.Sprintf("admissible configuration %s: Run panicked: %v", s.describe(), panicked), nil, 0
	}
	// (2) exactly one Do per round, followed by Sleep(interval)
	if len(w.events) != 2*len(s.Rounds) {
		return fmt.Sprintf("%d rounds scripted but events are %v", len(s.Rounds), w.events), nil, 0
	}
	drift := float64(s.drift(time.Duration(s.Interval)))
	bRef, bPeer := s.R*drift, s.P*drift
	for k := range s.Rounds {
		d, sl := w.events[2*k], w.events[2*k+1]
		if d.kind != "do" || sl.kind != "sleep" || sl.val != s.Interval {
			return fmt.Sprintf("round %d: expected one correction then Sleep(interval), got %v %v", k, d, sl), nil, 0
		}
		corr := d.val
		// (3) the bound, in the arithmetic of the statement
		switch {
		case s.NRef == 0 && s.NPeer == 0:
			if corr != 0 {
				return fmt.Sprintf("round %d: correction %d without any source", k, corr), nil, 0
			}
		case s.NPeer == 0:
			if absF(corr) > bRef*(1+1e-12)+1 {
				return fmt.Sprintf("round %d: |correction| %d exceeds reference bound %g (r=%g drift=%g)", k, corr, bRef, s.R, drift), nil, 0
			}
		default:
			if absF(corr) > bPeer*(1+1e-12)+1 {
				return fmt.Sprintf("round %d: |correction| %d exceeds peer bound %g (p=%g drift=%g)", k, corr, bPeer, s.P, drift), nil, 0
			}
		}
		// (4) exact model when every source answered in time with |offset| < 2^62
		v := verdict{}
		if bRef > 1<<61 && bPeer < 1<<63 {
			v.labels = append(v.labels, "bounds-beyond-2^61-ns")
		}
		exact := s.Timeout > 0
		for _, a := range s.Rounds[k] {
			if a.Kind != kOK || a.Delay >= s.Timeout || a.Offset <= -(1<<62) || a.Offset >= 1<<62 {
				exact = false
			}
			if a.Kind != kOK {
				v.nontrivial = true
			}
		}
		if !exact {
			v.labels = append(v.labels, "round-with-failing-or-late-source")
			vs = append(vs, v)
			continue
		}
		v.labels = append(v.labels, "exact-round")
		clamp := func(x int64, b float64) (int64, bool) {
			if absF(x) > b {
				return sgn(x) * int64(math.Min(b, math.MaxInt64/2)), true // b > MaxInt64 cannot clamp: |x| < 2^62
			}
			return x, false
		}
		var refCorr, peerCorr int64
		var refOk, peerOk, cl bool
		tol := 1.0
		if s.NRef > 0 {
			var os []int64
			for _, a := range s.Rounds[k][:s.NRef] {
				os = append(os, a.Offset)
			}
			refCorr, cl = clamp(ftm(os), bRef)
			refOk = true
			if cl {
				v.nontrivial = true
				v.labels = append(v.labels, "ref-clamped")
				tol += bRef * 1e-12
			}
		}
		if s.NPeer > 0 {
			os := []int64{0}
			for _, a := range s.Rounds[k][s.NRef:] {
				os = append(os, a.Offset)
			}
			po := ftm(os)
			// the implementation's midpoint may differ by 1 ns from ours: near the cutoff both outcomes are admissible
			switch {
			case absF(po) > float64(s.Cutoff)+1:
				peerCorr, cl = clamp(po, bPeer)
				peerOk = true
				if cl {
					v.nontrivial = true
					v.labels = append(v.labels, "peer-clamped")
					tol += bPeer * 1e-12
				}
			case absF(po) >= float64(s.Cutoff)-1 && s.Cutoff < math.MaxInt64-2:
				v.labels = append(v.labels, "at-cutoff-unjudged")
				vs = append(vs, v)
				continue
			default:
				v.nontrivial = true
				v.labels = append(v.labels, "peer-within-cutoff")
			}
		}
		// expected value as an exact rational: want2 = 2*want
		want2 := new(big.Int)
		switch {
		case refOk && peerOk:
			want2.Add(big.NewInt(refCorr), big.NewInt(peerCorr))
			tol += 1
			v.nontrivial = true
			v.labels = append(v.labels, "both-contribute")
		case refOk:
			want2.Mul(big.NewInt(refCorr), big.NewInt(2))
		case peerOk:
			want2.Mul(big.NewInt(peerCorr), big.NewInt(2))
		}
		diff2 := new(big.Int).Sub(new(big.Int).Mul(big.NewInt(corr), big.NewInt(2)), want2)
		d2, _ := new(big.Float).SetInt(diff2).Float64()
		if math.Abs(d2) > 2*tol {
			return fmt.Sprintf("round %d: correction %d, reference model %v/2 (ref %d ok=%v, peer %d ok=%v, bounds %g/%g, cutoff %d) for answers %+v",
				k, corr, want2, refCorr, refOk, peerCorr, peerOk, bRef, bPeer, s.Cutoff, s.Rounds[k]), nil, 0
		}
		vs = append(vs, v)
	}
	return "", vs, len(s.Rounds)
}

func (s *script) describe() string {
	return fmt.Sprintf("{r=%g p=%g cutoff=%d interval=%d timeout=%d unknownDrift=%v rate=%g nref=%d npeer=%d}", s.R, s.P, s.Cutoff, s.Interval, s.Timeout, s.Unknown, s.DriftRate, s.NRef, s.NPeer)
}

// ---------------------------------------------------------------- generator

func genScript(t *rapid.T) *script {
	s := &script{}
	bad := rapid.IntRange(0, 23).Draw(t, "inadmissible") // 0..5: one inadmissible setting
	s.R = rapid.OneOf(rapid.Float64Range(1.0000001, 10), rapid.Float64Range(1, 1e6),
		rapid.SampledFrom([]float64{math.Nextafter(1, 2), 1.25, 2, 1e6})).Draw(t, "r")
	if s.R <= 1 {
		s.R = math.Nextafter(1, 2)
	}
	s.P = s.R + 1 + rapid.OneOf(rapid.Float64Range(1e-9, 10), rapid.SampledFrom([]float64{1e-9, 0.25, 1.5, 1e3, math.Inf(1)})).Draw(t, "pgap")
	if !(s.P-1 > s.R) {
		s.P = s.R*2 + 2
	}
	s.Interval = rapid.OneOf(rapid.Int64Range(2, int64(time.Hour)), rapid.Int64Range(int64(time.Millisecond), int64(10*time.Second)),
		rapid.SampledFrom([]int64{2, 1000, int64(time.Second), int64(24 * time.Hour)})).Draw(t, "interval")
	s.Timeout = rapid.OneOf(rapid.Int64Range(0, s.Interval/2), rapid.Just(s.Interval/2), rapid.Just(int64(0))).Draw(t, "timeout")
	s.Cutoff = rapid.OneOf(rapid.Int64Range(0, int64(time.Millisecond)), rapid.SampledFrom([]int64{0, 1, 50000, math.MaxInt64}), rapid.Int64Range(0, math.MaxInt64)).Draw(t, "cutoff")
	s.Unknown = rapid.IntRange(0, 5).Draw(t, "unknown") == 0
	s.DriftRate = rapid.OneOf(rapid.Float64Range(1e-9, 1e-3), rapid.Float64Range(1e-12, 1), rapid.SampledFrom([]float64{250e-6, 1e-6, 1})).Draw(t, "rate")
	// bounds of the order of 2^62..2^63 ns (admissible, if absurd: drift 1 s/s over a day, factors of 10^4..10^5):
	// the two bounded values can then be further apart than an int64 holds
	huge := rapid.IntRange(0, 11).Draw(t, "huge-bounds") == 0
	if huge {
		s.Unknown, s.DriftRate, s.Interval = false, 1, int64(24*time.Hour)
		s.Timeout = rapid.SampledFrom([]int64{1000, int64(time.Second)}).Draw(t, "huge-timeout")
		s.R = rapid.Float64Range(2e4, 1.05e5).Draw(t, "huge-r")
		s.P = s.R * rapid.Float64Range(1.1, 2).Draw(t, "huge-pmul")
	}
	switch bad {
	case 0:
		s.R = rapid.SampledFrom([]float64{1, 0.5, 0, -1, math.Inf(-1), math.NaN()}).Draw(t, "badr")
	case 1:
		s.P = rapid.SampledFrom([]float64{1, 0.5, 0, -3, math.NaN()}).Draw(t, "badp")
	case 2:
		s.P = s.R + rapid.SampledFrom([]float64{1, 0.5, 0, 0.999999}).Draw(t, "badgap")
	case 3:
		s.Interval = rapid.SampledFrom([]int64{0, -1, math.MinInt64}).Draw(t, "badinterval")
	case 4:
		s.Timeout = rapid.SampledFrom([]int64{-1, s.Interval/2 + 1, s.Interval, math.MaxInt64}).Draw(t, "badtimeout")
	case 5:
		s.Unknown = false
		s.DriftRate = rapid.SampledFrom([]float64{0, 1e-30}).Draw(t, "zerodrift")
	}
	s.RBits, s.PBits = math.Float64bits(s.R), math.Float64bits(s.P)
	s.NRef = rapid.IntRange(0, 7).Draw(t, "nref")
	s.NPeer = rapid.IntRange(0, 7).Draw(t, "npeer")
	nr := rapid.IntRange(1, 8).Draw(t, "rounds")
	drift := float64(s.drift(time.Duration(max(s.Interval, 1))))
	bRef, bPeer := s.R*drift, s.P*drift
	clampI := func(f float64) int64 {
		f = math.Abs(f)
		if f >= math.MaxInt64/4 || math.IsNaN(f) {
			return math.MaxInt64 / 4
		}
		return int64(f)
	}
	offg := rapid.OneOf(
		gen.Int64Mix(),
		gen.Near(0, 1000),
		gen.Near(s.Cutoff, 3), gen.Near(-s.Cutoff, 3),
		gen.Near(clampI(bRef), 3), gen.Near(-clampI(bRef), 3),
		gen.Near(clampI(bPeer), 3), gen.Near(-clampI(bPeer), 3),
		rapid.Int64Range(-clampI(bPeer)*2-10, clampI(bPeer)*2+10),
		rapid.Int64Range(-(1<<62)+1, 1<<62-1),
	)
	if huge {
		offg = rapid.OneOf(rapid.SampledFrom([]int64{math.MinInt64, math.MinInt64 + 1, math.MaxInt64, math.MaxInt64 - 1, -(1 << 62), 1 << 62}), offg)
	}
	allOK := rapid.IntRange(0, 2).Draw(t, "mostly-ok") > 0
	for k := 0; k < nr; k++ {
		var as []answer
		for i := 0; i < s.NRef+s.NPeer; i++ {
			a := answer{Offset: offg.Draw(t, "off")}
			kind := kOK
			if !allOK || rapid.IntRange(0, 9).Draw(t, "fault") == 0 {
				kind = rapid.SampledFrom([]int{kOK, kOK, kErr, kLate, kBlock, kEdge}).Draw(t, "kind")
			}
			a.Kind = kind
			to := max(s.Timeout, 0)
			switch kind {
			case kOK, kErr:
				if to > 0 {
					a.Delay = rapid.OneOf(rapid.Int64Range(0, to-1), rapid.Just(int64(0)), rapid.Just(to-1)).Draw(t, "delay")
				}
			case kLate:
				a.Delay = to + rapid.OneOf(rapid.Int64Range(1, 1000), rapid.Int64Range(1, max(2, min(3*max(s.Interval, 1), int64(time.Hour))))).Draw(t, "late")
			case kEdge:
				a.Delay = to
			}
			as = append(as, a)
		}
		s.Rounds = append(s.Rounds, as)
	}
	return s
}

var rec = ev.New("c01/sync-rounds", "rapid state histories: configuration (impact factors incl. nextafter(1), +Inf and, among the inadmissible ones, NaN, cutoff 0..MaxInt64, interval 2 ns..24 h, timeout 0..interval/2, drift rate 1e-12..1 or unknown, and one configuration in twelve with bounds of 2^61..2^63 ns and sources reporting the int64 extremes; ~1/3 deliberately inadmissible), 0..7 reference clocks, 0..7 peers, 1..8 rounds; per round and source an offset from an int64 mixture dense at the cutoff and both bounds and an outcome (in time, error, late, blocks until cancelled, exactly at the timeout). sync.Run is executed for real in a synctest bubble with a scripted clock and a recording discipline. Oracle: refusal iff inadmissible and before any actuation; exactly one correction then Sleep(interval) per round; |corr| <= factor*Drift(interval) per the statement; exact reference model (FTM, cutoff, clamps, midpoint) for rounds in which every source answered in time. One evaluation = one round (or one refused configuration). Non-trivial: a clamp engaged, the cutoff suppressed the peers, both kinds contributed, or a source failed/was late; distinct by hash of (configuration, round answers)")

func TestPropSyncLoop(t *testing.T) {
	vt.Check(t, 60000, 300000, func(t *rapid.T) {
		s := genScript(t)
		disarm := vt.Watchdog(t, 90*time.Second, s, "sync.Run did not reach the end of the scripted rounds")
		msg, vs, _ := run(s)
		disarm()
		if msg != "" {
			t.Fatalf("%s", msg)
		}
		if len(vs) == 0 {
			rec.Eval(false, 0, nil, "refused-configuration")
			return
		}
		cfgHash := ev.Hash(s.RBits, s.PBits, s.Cutoff, s.Interval, s.Timeout, s.Unknown, math.Float64bits(s.DriftRate), s.NRef, s.NPeer)
		for k, v := range vs {
			b, _ := json.Marshal(s.Rounds[k])
			k := k
			rec.Eval(v.nontrivial, ev.Hash(cfgHash, b), func() any {
				return map[string]any{"config": s.describe(), "round": k, "answers": s.Rounds[k], "labels": v.labels}
			}, v.labels...)
		}
	})
}

// TestReplay re-runs saved cases (corpus and --replay of a JSON case) without the library.
func TestReplay(t *testing.T) {
	files, _ := filepath.Glob(filepath.Join(vt.CorpusDir("C01"), "*.json"))
	if p := vt.ReplayCase(); p != "" {
		files = []string{p}
	}
	for _, p := range files {
		b, err := os.ReadFile(p)
		if err != nil {
			t.Fatal(err)
		}
		var w struct {
			Case script `json:"case"`
		}
		if err := json.Unmarshal(b, &w); err != nil {
			t.Fatalf("%s: %v", p, err)
		}
		s := &w.Case
		s.R, s.P = math.Float64frombits(s.RBits), math.Float64frombits(s.PBits)
		disarm := vt.Watchdog(t, 90*time.Second, s, "sync.Run did not reach the end of the scripted rounds")
		msg, _, _ := run(s)
		disarm()
		if msg != "" {
			vt.Violation(t, s, "%s", msg)
		}
	}
}
