package c07

import (
	"container/heap"
	"fmt"
	"testing"
	"time"

	"pgregory.net/rapid"

	"example.com/scion-time/core/server"
	"example.com/scion-time/core/timebase"
	"example.com/scion-time/net/ntp"

	"verif/internal/ev"
	"verif/internal/fakeclk"
	"verif/internal/vt"
)

var clk = fakeclk.New(time.Unix(1700000000, 0))

func TestMain(m *testing.M) {
	timebase.RegisterClock(clk)
	vt.Main(m)
}

// base is the instant the receive times of a case are counted from; drawn per case so that some histories start
// shortly before an NTP era boundary (7 February 2036, or the next one in 2172) and cross it.
var base = time.Unix(1700000000, 0)

const era1 = 2085978496 // Unix seconds of NTP era 1's start

// drawBase picks the case's base: 2023, or an era boundary minus lo..lo+span nanoseconds.
var beforeBoundary int64

func drawBase(t *rapid.T, lo, span int64) string {
	beforeBoundary = 0
	kind := rapid.SampledFrom([]string{"2023", "crosses-2036", "crosses-2036", "crosses-2172"}).Draw(t, "base")
	switch kind {
	case "2023":
		base = time.Unix(1700000000, 0)
	case "crosses-2036":
		beforeBoundary = lo + rapid.Int64Range(0, span).Draw(t, "before-boundary")
		base = time.Unix(era1, 0).Add(-time.Duration(beforeBoundary))
	default:
		beforeBoundary = lo + rapid.Int64Range(0, span).Draw(t, "before-boundary")
		base = time.Unix(era1+1<<32, 0).Add(-time.Duration(beforeBoundary))
	}
	return kind
}

func u64(a ntp.Time64) uint64 { return uint64(a.Seconds)<<32 | uint64(a.Fraction) }

// less orders two stored timestamps by the instants they stand for (the harness's own reading, not the store's
// comparison): every instant of a case lies within seconds of base, so the signed distance from base's own
// timestamp decides, whatever era the two fall into.
func less(a, b ntp.Time64) bool {
	b0 := uint64(uint32(base.Unix()+2208988800)) << 32
	return int64(u64(a)-b0) < int64(u64(b)-b0)
}

func req() ntp.Packet {
	var p ntp.Packet
	p.SetVersion(4)
	p.SetMode(ntp.ModeClient)
	p.TransmitTime = ntp.Time64{Seconds: 1, Fraction: 2}
	return p
}

// do sends one request of client c received at base+rx ns (clock reading shortly after).
func do(c string, rx int64, cite *ntp.Time64) (rxt, txt time.Time, resp ntp.Packet) {
	r := req()
	if cite != nil {
		r.OriginTime = *cite
		r.ReceiveTime = ntp.Time64{Seconds: 7, Fraction: 7}
	}
	rxt = base.Add(time.Duration(rx))
	clk.Set(rxt.Add(50))
	server.HandleRequestV(c, &r, &rxt, &txt, &resp)
	return
}

// ---------------------------------------------------------------- A: structural invariants

// walk checks the whole store; returns a violation message or "".
func walk(mostRecent map[string]ntp.Time64, ordered map[string]bool) string {
	nmap, nq := server.LenV()
	if nmap != nq || nmap > server.TssCapV {
		return fmt.Sprintf("client map has %d entries, priority queue %d (capacity %d)", nmap, nq, server.TssCapV)
	}
	msg := ""
	var qvals []ntp.Time64
	keys := map[string]bool{}
	server.VisitV(func(pos int, it server.ItemV, inMap bool) bool {
		if !inMap {
			msg = fmt.Sprintf("queue position %d holds client %s which the client map does not refer to", pos, it.Key)
			return false
		}
		if keys[it.Key] {
			msg = fmt.Sprintf("client %s is queued twice", it.Key)
			return false
		}
		keys[it.Key] = true
		if it.Qidx != pos {
			msg = fmt.Sprintf("client %s at queue position %d records position %d", it.Key, pos, it.Qidx)
			return false
		}
		if len(it.Pairs) < 1 || len(it.Pairs) > server.TssItemCapV {
			msg = fmt.Sprintf("client %s keeps %d exchanges (allowed 1..%d)", it.Key, len(it.Pairs), server.TssItemCapV)
			return false
		}
		var maxRx ntp.Time64
		for i, p := range it.Pairs {
			for _, q := range it.Pairs[:i] {
				if q.Rx == p.Rx {
					msg = fmt.Sprintf("client %s keeps receive timestamp %v twice", it.Key, p.Rx)
					return false
				}
			}
			if i == 0 || less(maxRx, p.Rx) {
				maxRx = p.Rx
			}
		}
		if less(it.Qval, maxRx) {
			msg = fmt.Sprintf("client %s is ranked by %v, older than its most recent stored exchange %v", it.Key, it.Qval, maxRx)
			return false
		}
		if ordered != nil && ordered[it.Key] {
			if it.Qval != maxRx {
				msg = fmt.Sprintf("client %s (requests in timestamp order, nothing removed) is ranked by %v, its most recent stored exchange is %v", it.Key, it.Qval, maxRx)
				return false
			}
			if mr, ok := mostRecent[it.Key]; ok && mr != maxRx {
				msg = fmt.Sprintf("client %s: most recent stored exchange %v, most recent request %v", it.Key, maxRx, mr)
				return false
			}
		}
		qvals = append(qvals, it.Qval)
		return true
	})
	if msg != "" {
		return msg
	}
	for i := 1; i < len(qvals); i++ {
		if parent := (i - 1) / 2; less(qvals[i], qvals[parent]) {
			return fmt.Sprintf("heap order violated at position %d: %v ranks before its parent %v", i, qvals[i], qvals[parent])
		}
	}
	return ""
}

type exch struct {
	c        string
	rxt, txt time.Time
	rx64     ntp.Time64
}

var recA = ev.New("c07/structure", "rapid state machine over handler + tx-timestamp update (verif hooks) with 3..200 client ids: requests with increasing, equal, decreasing and colliding receive times (per case 1 ns .. 500 s apart: tick of 1 ns, 1 us, 1 ms, 37 ms or 100 ms), interleaved citations, updates {kernel later, unreadable}; after every step map size == queue size <= 2^20, every few steps and at the end a full walk under the store mutex: 1..8 pairwise-distinct receive timestamps per client, recorded queue index == position, heap order of the ranking values, ranking value >= every stored receive timestamp, with equality (and equal to the most recent request) for clients whose requests arrived in timestamp order and lost nothing. One evaluation = one step. Non-trivial: sequence in which a client was re-ranked, an exchange was removed after a lost tx timestamp, or a client exceeded 8 exchanges; distinct by step-log hash")

func TestPropStructure(t *testing.T) {
	vt.Check(t, 2500, 25000, func(t *rapid.T) {
		server.ResetV()
		// the case's time scale: one tick is 1 ns (requests nanoseconds apart), 1 us, 1 ms, 37 ms or 100 ms (requests of
		// one client up to minutes apart: same second and half a second or more apart, different seconds, ...)
		scale := rapid.SampledFrom([]int64{1, 1, 1000, 1_000_000, 37_000_000, 100_000_000}).Draw(t, "tick-ns")
		era := drawBase(t, 1000*scale, 300_000*scale)
		nc := rapid.OneOf(rapid.IntRange(3, 12), rapid.IntRange(3, 200)).Draw(t, "nclients")
		clients := make([]string, nc)
		for i := range clients {
			clients[i] = fmt.Sprintf("c%d", i)
		}
		last := map[string]int64{}            // last rx offset per client
		mostRecent := map[string]ntp.Time64{} // rx64 of the most recent request
		ordered := map[string]bool{}          // requests in increasing rx order so far and nothing removed
		count := map[string]int{}
		var pending []exch
		var tick int64 = 1000 * scale
		var log []string
		labels := map[string]int{}
		steps := 0
		fail := func(format string, args ...any) {
			for _, l := range log[max(0, len(log)-25):] {
				t.Logf("history: %s", l)
			}
			t.Fatalf(format, args...)
		}
		t.Repeat(map[string]func(*rapid.T){
			"request": func(t *rapid.T) {
				c := rapid.SampledFrom(clients).Draw(t, "client")
				var rx int64
				kind := rapid.SampledFrom([]string{"later", "later", "later", "equal", "earlier", "much-earlier"}).Draw(t, "rxkind")
				tick += rapid.Int64Range(1, 5000).Draw(t, "tick") * scale
				prev, seen := last[c]
				switch {
				case kind == "later" || !seen:
					rx = tick
				case kind == "equal":
					rx = prev
				case kind == "earlier":
					rx = prev - rapid.Int64Range(1, 10).Draw(t, "back")*rapid.SampledFrom([]int64{1, scale}).Draw(t, "back-unit")
				default:
					rx = rapid.Int64Range(0, tick).Draw(t, "rx")
				}
				var cite *ntp.Time64
				if it, ok := server.LookupV(c); ok && rapid.Bool().Draw(t, "cite") {
					x := rapid.SampledFrom(it.Pairs).Draw(t, "cited").Rx
					cite = &x
				}
				_, had := server.LookupV(c)
				rxt, txt, resp := do(c, rx, cite)
				steps++
				if !seen {
					ordered[c] = true
				} else if !(rxt.Sub(base) > time.Duration(prev)) {
					ordered[c] = false
				}
				if had && seen && rxt.Sub(base) > time.Duration(prev) {
					labels["re-ranked"]++
				}
				last[c] = int64(rxt.Sub(base))
				mostRecent[c] = resp.ReceiveTime
				count[c]++
				if count[c] > server.TssItemCapV {
					labels["client-over-8-exchanges"]++
				}
				pending = append(pending, exch{c, rxt, txt, resp.ReceiveTime})
				log = append(log, fmt.Sprintf("request %s rx=%d kind=%s cite=%v", c, rx, kind, cite != nil))
			},
			"update": func(t *rapid.T) {
				if len(pending) == 0 {
					t.Skip("nothing pending")
				}
				i := len(pending) - 1
				if rapid.IntRange(0, 3).Draw(t, "delayed") == 0 {
					i = rapid.IntRange(0, len(pending)-1).Draw(t, "which")
				}
				e := pending[i]
				pending = append(pending[:i], pending[i+1:]...)
				k := e.txt
				lost := rapid.IntRange(0, 2).Draw(t, "lost") == 0
				if !lost {
					k = e.txt.Add(time.Duration(rapid.Int64Range(1, 900).Draw(t, "kd")))
				}
				it, ok := server.LookupV(e.c)
				onRecord := false
				if ok {
					for _, p := range it.Pairs {
						onRecord = onRecord || p.Rx == e.rx64
					}
				}
				server.UpdateTXTimestampV(e.c, e.rxt, &k)
				steps++
				if lost && onRecord {
					labels["lost-tx-removal"]++
					// the removed exchange may have been the most recent one: the ranking must still equal the most
					// recent *stored* exchange, which is no longer known to be the most recent request
					delete(mostRecent, e.c)
					if _, still := server.LookupV(e.c); !still {
						delete(last, e.c)
						count[e.c] = 0
					}
				}
				log = append(log, fmt.Sprintf("update %s rx=%v lost=%v onRecord=%v", e.c, e.rx64, lost, onRecord))
			},
			"": func(t *rapid.T) {
				nmap, nq := server.LenV()
				if nmap != nq || nmap > server.TssCapV || nmap > len(clients) {
					fail("client map has %d entries, queue %d, distinct clients %d", nmap, nq, len(clients))
				}
				if steps%7 == 0 {
					if msg := walk(mostRecent, ordered); msg != "" {
						fail("%s", msg)
					}
				}
			},
		})
		if msg := walk(mostRecent, ordered); msg != "" {
			fail("%s", msg)
		}
		var ls []string
		for l := range labels {
			ls = append(ls, l)
		}
		if era != "2023" && tick >= beforeBoundary {
			ls = append(ls, "history-crosses-era-boundary")
		}
		if scale >= 1_000_000 {
			ls = append(ls, "requests-milliseconds-to-minutes-apart")
		}
		recA.Eval(len(labels) > 0, ev.Hash(fmt.Sprint(log)), func() any { return log[:min(len(log), 12)] }, ls...)
		if steps > 1 {
			recA.Count(int64(steps - 1))
		}
	})
}

// ---------------------------------------------------------------- B: capacity and eviction with the real constants

type mItem struct {
	key string
	val int64
	idx int
}
type mHeap []*mItem

func (h mHeap) Len() int           { return len(h) }
func (h mHeap) Less(i, j int) bool { return h[i].val < h[j].val }
func (h mHeap) Swap(i, j int)      { h[i], h[j] = h[j], h[i]; h[i].idx = i; h[j].idx = j }
func (h *mHeap) Push(x any)        { it := x.(*mItem); it.idx = len(*h); *h = append(*h, it) }
func (h *mHeap) Pop() any          { o := *h; n := len(o); it := o[n-1]; *h = o[:n-1]; return it }

var recB = ev.New("c07/capacity", "the store is filled with 2^20 distinct client ids (increasing, decreasing or shuffled receive order; real constants), then rapid-generated steps around the boundary against a harness model (own min-heap of each client's most recent receive time): newcomer at least as recent as the current minimum => size stays 2^20, exactly the client on top of the real queue disappears and its model value is the model minimum, newcomer present; newcomer older than every kept client => basic reply, store unchanged, newcomer absent; touches of old clients (re-ranking); lost-tx removals free a slot so the next newcomer evicts nobody; floods of fresh ids. Full structural walk at the end. One evaluation = one step after the fill. Non-trivial: step that evicts, serves statelessly at capacity, re-ranks, or removes; distinct by (step kind, position) per fill")

func TestPropCapacity(t *testing.T) {
	vt.Check(t, 2, 6, func(t *rapid.T) {
		server.ResetV()
		const N = server.TssCapV
		// the boundary, if any, falls into the fill or into the steps after it
		era := drawBase(t, 1_000_000, int64(N)*10+300_000)
		order := rapid.SampledFrom([]string{"increasing", "decreasing", "shuffled"}).Draw(t, "fill-order")
		mult := rapid.Int64Range(1, 1<<20).Draw(t, "shuffle-mult")*2 + 1
		model := map[string]*mItem{}
		mh := &mHeap{}
		name := func(i int) string { return fmt.Sprintf("f%d", i) }
		for i := 0; i < N; i++ {
			var rx int64
			switch order {
			case "increasing":
				rx = int64(i) * 10
			case "decreasing":
				rx = int64(N-i) * 10
			default:
				rx = (int64(i) * mult % int64(N)) * 10
			}
			rx += 1_000_000
			do(name(i), rx, nil)
			it := &mItem{key: name(i), val: rx}
			model[it.key] = it
			heap.Push(mh, it)
		}
		if nmap, nq := server.LenV(); nmap != N || nq != N {
			t.Fatalf("after %d distinct clients the store holds %d/%d", N, nmap, nq)
		}
		top := func() (server.ItemV, bool) {
			var r server.ItemV
			ok := false
			server.VisitV(func(pos int, it server.ItemV, inMap bool) bool {
				r, ok = it, true
				r.Pairs = append([]server.PairV(nil), it.Pairs...)
				return false
			})
			return r, ok
		}
		fresh := 0
		var tick int64 = 1_000_000 + int64(N)*10 + 10
		nsteps := rapid.IntRange(2000, 6000).Draw(t, "nsteps")
		labels := map[string]int{}
		var log []string
		fail := func(format string, args ...any) {
			for _, l := range log[max(0, len(log)-20):] {
				t.Logf("history: %s", l)
			}
			t.Fatalf(format, args...)
		}
		free := 0 // slots freed by removals
		for s := 0; s < nsteps; s++ {
			kind := rapid.SampledFrom([]string{"newcomer-recent", "newcomer-recent", "newcomer-old", "newcomer-at-min", "touch", "touch", "remove", "flood"}).Draw(t, "step")
			reps := 1
			if kind == "flood" {
				reps = rapid.IntRange(2, 40).Draw(t, "flood")
				kind = "newcomer-recent"
			}
			for r := 0; r < reps; r++ {
				tick += rapid.Int64Range(1, 100).Draw(t, "tick")
				minv := (*mh)[0].val
				switch kind {
				case "newcomer-recent", "newcomer-old", "newcomer-at-min":
					fresh++
					c := fmt.Sprintf("n%d", fresh)
					rx := tick
					if kind == "newcomer-old" {
						rx = minv - rapid.Int64Range(1, 500000).Draw(t, "older")
					} else if kind == "newcomer-at-min" {
						rx = minv
					}
					tp, _ := top()
					nmap0, _ := server.LenV()
					_, _, resp := do(c, rx, nil)
					nmap1, nq1 := server.LenV()
					_, present := server.LookupV(c)
					if nmap1 != nq1 || nmap1 > N {
						fail("store size %d/%d exceeds capacity %d", nmap1, nq1, N)
					}
					log = append(log, fmt.Sprintf("%s %s rx=%d min=%d free=%d", kind, c, rx, minv, free))
					switch {
					case nmap0 < N: // a slot is free: nobody is evicted
						if !present || nmap1 != nmap0+1 {
							fail("store had a free slot (%d of %d) but newcomer %s present=%v size %d", nmap0, N, c, present, nmap1)
						}
						if _, still := server.LookupV(tp.Key); !still {
							fail("client %s was evicted although a slot was free", tp.Key)
						}
						free--
						it := &mItem{key: c, val: rx}
						model[c] = it
						heap.Push(mh, it)
						labels["newcomer-into-free-slot"]++
					case rx >= minv: // at least as recent as the least recently active client
						if !present || nmap1 != N {
							fail("newcomer %s (rx %d >= minimum %d) at capacity: present=%v size=%d", c, rx, minv, present, nmap1)
						}
						if _, still := server.LookupV(tp.Key); still {
							fail("newcomer admitted at capacity but the least recently active client %s is still there", tp.Key)
						}
						ev := model[tp.Key]
						if ev == nil || ev.val != minv {
							fail("evicted client %s has most recent activity %v, the least recent one is %d", tp.Key, ev, minv)
						}
						heap.Remove(mh, ev.idx)
						delete(model, tp.Key)
						it := &mItem{key: c, val: rx}
						model[c] = it
						heap.Push(mh, it)
						labels["eviction"]++
					default: // older than every kept client: served statelessly
						if present || nmap1 != N {
							fail("newcomer %s older (rx %d) than every kept client (minimum %d) was stored: present=%v size=%d", c, rx, minv, present, nmap1)
						}
						if _, still := server.LookupV(tp.Key); !still {
							fail("a newcomer older than every kept client evicted %s", tp.Key)
						}
						if resp.OriginTime != (ntp.Time64{Seconds: 1, Fraction: 2}) || resp.Mode() != ntp.ModeServer {
							fail("stateless reply is not a basic reply: %+v", resp)
						}
						labels["stateless-at-capacity"]++
					}
				case "touch":
					it := (*mh)[rapid.IntRange(0, min(len(*mh)-1, 2000)).Draw(t, "who")]
					rxt, _, _ := do(it.key, tick, nil)
					it.val = int64(rxt.Sub(base))
					heap.Fix(mh, it.idx)
					if _, ok := server.LookupV(it.key); !ok {
						fail("existing client %s lost its state by a new request", it.key)
					}
					log = append(log, fmt.Sprintf("touch %s rx=%d", it.key, tick))
					labels["re-rank"]++
				case "remove":
					it := (*mh)[rapid.IntRange(0, min(len(*mh)-1, 2000)).Draw(t, "who")]
					st, ok := server.LookupV(it.key)
					if !ok || len(st.Pairs) != 1 {
						continue // only single-exchange clients are removed as a whole
					}
					// a fresh exchange whose tx timestamp turns out unreadable
					p := st.Pairs[0]
					rxt := ntp.TimeFromTime64(p.Rx, base)
					txt := ntp.TimeFromTime64(p.Tx, base)
					_ = rxt
					// re-create the exact times: the fill used base+val and clock reading +50 ns
					rxt = base.Add(time.Duration(it.val))
					txt = rxt.Add(50)
					server.UpdateTXTimestampV(it.key, rxt, &txt)
					if _, still := server.LookupV(it.key); still {
						fail("client %s with one exchange whose tx timestamp was unreadable is still kept", it.key)
					}
					heap.Remove(mh, it.idx)
					delete(model, it.key)
					free++
					log = append(log, fmt.Sprintf("remove %s", it.key))
					labels["lost-tx-removal"]++
				}
			}
			recB.Eval(true, ev.Hash("step", order, s, kind), nil, kind)
		}
		if msg := walk(nil, nil); msg != "" {
			fail("%s", msg)
		}
		nmap, _ := server.LenV()
		if nmap != len(model) {
			fail("store holds %d clients, model %d", nmap, len(model))
		}
		recB.Label("base-" + era)
		recB.Sample(map[string]any{"base": base.UTC().Format(time.RFC3339Nano), "fill_order": order, "steps": nsteps, "labels": labels, "last_steps": log[max(0, len(log)-8):]})
		server.ResetV()
	})
}
