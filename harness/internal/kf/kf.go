// Package kf reads /verif/known_findings.txt (read-only at run time).
// Lines: "known: property=<ID> sig=<signature> <what fails>" and
// "fixed: property=<ID> <commit> <what failed>" (fixed entries suppress nothing).
package kf

import (
	"bufio"
	"fmt"
	"os"
	"strings"
	"sync"
)

type entry struct{ prop, sig, text string }

var (
	once    sync.Once
	entries []entry
	mu      sync.Mutex
	printed = map[string]bool{}
)

func load() {
	p := os.Getenv("VERIF_KNOWN")
	if p == "" {
		p = "/verif/known_findings.txt"
	}
	f, err := os.Open(p)
	if err != nil {
		return
	}
	defer f.Close()
	sc := bufio.NewScanner(f)
	for sc.Scan() {
		l := strings.TrimSpace(sc.Text())
		if !strings.HasPrefix(l, "known:") {
			continue
		}
		fs := strings.Fields(strings.TrimPrefix(l, "known:"))
		var e entry
		var rest []string
		for _, f := range fs {
			switch {
			case strings.HasPrefix(f, "property=") && e.prop == "":
				e.prop = strings.TrimPrefix(f, "property=")
			case strings.HasPrefix(f, "sig=") && e.sig == "":
				e.sig = strings.TrimPrefix(f, "sig=")
			default:
				rest = append(rest, f)
			}
		}
		e.text = strings.Join(rest, " ")
		if e.prop != "" && e.sig != "" {
			entries = append(entries, e)
		}
	}
}

// Known reports whether (prop, sig) is a listed known finding; the first time
// it is met in this process the KNOWN-FINDING line is printed.
func Known(prop, sig string) bool {
	once.Do(load)
	for _, e := range entries {
		if e.prop == prop && e.sig == sig {
			mu.Lock()
			if !printed[prop+"|"+sig] {
				printed[prop+"|"+sig] = true
				fmt.Printf("KNOWN-FINDING: property=%s sig=%s %s\n", prop, sig, e.text)
			}
			mu.Unlock()
			return true
		}
	}
	return false
}
