// Package netlab: loopback plumbing for the network-level checks — unique
// 127.a.b.c addresses per process, a scripted protocol-conformant NTP server
// model (written from RFC 5905 and the interleaved-mode draft, not the
// project's server), and a slog handler that captures the clients' records.
package netlab

import (
	"context"
	"fmt"
	"log/slog"
	"net"
	"net/netip"
	"os"
	"strconv"
	"sync"
	"time"

	"example.com/scion-time/net/ntp"
)

// Addr returns a loopback address unique to this process (and the index i).
func Addr(i int) netip.Addr {
	pid := os.Getpid()
	sh, _ := strconv.Atoi(os.Getenv("VERIF_SHARD"))
	return netip.AddrFrom4([4]byte{127, byte(50 + sh%100), byte(pid>>6) | 1, byte((pid&63)<<2 | i&3)})
}

// AddrN is like Addr for up to 16 addresses per process (a separate range from Addr).
func AddrN(i int) netip.Addr {
	pid := os.Getpid()
	sh, _ := strconv.Atoi(os.Getenv("VERIF_SHARD"))
	return netip.AddrFrom4([4]byte{127, byte(150 + sh%100), byte(pid>>4) | 1, byte((pid&15)<<4 | i&15)})
}

func UDPAddr(a netip.Addr, port int) *net.UDPAddr {
	return &net.UDPAddr{IP: a.AsSlice(), Port: port}
}

// Now reads CLOCK_REALTIME (the clock the kernel stamps packets with).
func Now() time.Time { return time.Now().Round(0) }

// ---------------------------------------------------------------- log capture

type Record struct {
	Level slog.Level
	Msg   string
	Attrs map[string]slog.Value
}

type Capture struct {
	mu   sync.Mutex
	recs []Record
}

func (c *Capture) Enabled(context.Context, slog.Level) bool { return true }
func (c *Capture) Handle(_ context.Context, r slog.Record) error {
	rec := Record{Level: r.Level, Msg: r.Message, Attrs: map[string]slog.Value{}}
	r.Attrs(func(a slog.Attr) bool {
		if a.Key != "data" { // LogValuer of whole packets: not needed, expensive
			rec.Attrs[a.Key] = a.Value
		}
		return true
	})
	c.mu.Lock()
	c.recs = append(c.recs, rec)
	c.mu.Unlock()
	return nil
}
func (c *Capture) WithAttrs([]slog.Attr) slog.Handler { return c }
func (c *Capture) WithGroup(string) slog.Handler      { return c }

func (c *Capture) Take() []Record {
	c.mu.Lock()
	defer c.mu.Unlock()
	r := c.recs
	c.recs = nil
	return r
}

func (c *Capture) Logger() *slog.Logger { return slog.New(c) }

// ---------------------------------------------------------------- NTP server model

// Exchange is what the model remembers about one request it read.
type Exchange struct {
	Seq         int
	From        netip.AddrPort
	Raw         []byte // request datagram
	Req         ntp.Packet
	R, S        time.Time     // harness instants: just after the read, just before the (first) write
	Theta       time.Duration // model clock = real time + Theta during this exchange
	Dropped     bool          // request ignored (as if lost on the way)
	Interleaved bool          // the genuine reply is an interleaved one
	Cited       *Exchange     // the exchange whose rx timestamp the request cited (interleaved)
	Rx64, Tx64  ntp.Time64    // timestamps of the genuine reply
	SentTx64    ntp.Time64    // the transmit time remembered for this exchange (what a later interleaved reply carries)
	Genuine     []byte        // the genuine reply datagram
	PrevGenuine []byte        // the genuine reply the model built for the request before this one (delivered or not): a datagram that may still be in flight
	Sent        [][]byte      // datagrams actually sent, in order
}

// Out is one datagram to send in reaction to a request.
type Out struct {
	Data []byte
	Via  *net.UDPConn // nil: the server's own socket (the queried address and port)
	Wait time.Duration
}

// Plan scripts the model's reaction to the next request.
type Plan struct {
	Theta       time.Duration
	DropRequest bool
	// Outs maps the genuine reply to what is actually sent (nil: send the genuine reply once).
	Outs func(ex *Exchange) []Out
	// Build, if set, replaces the payload construction after the NTP header was prepared
	// (NTS: append extension fields); it receives the 48-byte header and returns the datagram.
	Build func(ex *Exchange, hdr []byte) []byte
	// Delay before answering.
	Delay time.Duration
	// ForceBasic makes the model answer in basic mode even if it remembers the cited exchange
	// (a conformant server may always do so).
	ForceBasic bool
	// Snap makes the model's clock land on a chosen NTP fraction at one instant of the exchange (a server
	// whose clock happens to read a whole second, or one tick before or after it): the model's offset
	// is moved by less than a second so that the receive ("rx"), the transmit ("tx") or both timestamps
	// ("both": the server claims zero processing time) carry exactly the fraction SnapFrac. The
	// effective offset is recorded in Exchange.Theta.
	Snap     string
	SnapFrac uint32
}

// snap returns the NTP timestamp with fraction frac in the second that the model clock (t+theta) is in,
// and the offset theta' for which the model clock reads exactly that timestamp at t.
func snap(t time.Time, theta time.Duration, frac uint32) (ntp.Time64, time.Duration) {
	sec := t.Add(theta).Unix()
	ns := int64((uint64(frac)*1e9 + 1<<32 - 1) >> 32) // smallest nanosecond count not below the fraction
	if ns > 999999999 {
		ns = 999999999
	}
	return ntp.Time64{Seconds: uint32(sec + 2208988800), Fraction: frac}, time.Unix(sec, ns).Sub(t)
}

type Server struct {
	Conn  *net.UDPConn
	mu    sync.Mutex
	plans []Plan
	deflt Plan
	exs   []*Exchange
	byRx  map[string]map[ntp.Time64]*Exchange
	seq   int
	busy  bool
	done  chan struct{}
	// Depth bounds how many exchanges per client the model remembers (0: all). Real servers keep few:
	// with Depth 1 an interleaved request that cites anything but the latest exchange gets a basic reply.
	Depth int
	order map[string][]ntp.Time64
	lastGenuine []byte
}

// SetDepth sets the per-client memory depth for subsequent exchanges.
func (s *Server) SetDepth(d int) {
	s.mu.Lock()
	s.Depth = d
	s.mu.Unlock()
}

// WaitIdle returns once the model is blocked in its next read (everything it was going to send has been sent).
func (s *Server) WaitIdle() {
	for i := 0; i < 2000; i++ {
		s.mu.Lock()
		b := s.busy
		s.mu.Unlock()
		if !b {
			return
		}
		time.Sleep(100 * time.Microsecond)
	}
}

func NewServer(addr *net.UDPAddr) (*Server, error) {
	conn, err := net.ListenUDP("udp", addr)
	if err != nil {
		return nil, err
	}
	s := &Server{Conn: conn, byRx: map[string]map[ntp.Time64]*Exchange{}, done: make(chan struct{})}
	go s.loop()
	return s, nil
}

func (s *Server) Close() {
	s.Conn.Close()
	<-s.done
}

// Push appends plans for the next requests; requests beyond the queue use the default plan.
func (s *Server) Push(ps ...Plan) {
	s.mu.Lock()
	s.plans = append(s.plans, ps...)
	s.mu.Unlock()
}

func (s *Server) SetDefault(p Plan) {
	s.mu.Lock()
	s.deflt = p
	s.mu.Unlock()
}

// ClearPlans drops plans not consumed.
func (s *Server) ClearPlans() {
	s.mu.Lock()
	s.plans = nil
	s.mu.Unlock()
}

// Take returns (and forgets) the exchanges recorded since the last call.
func (s *Server) Take() []*Exchange {
	s.mu.Lock()
	defer s.mu.Unlock()
	r := s.exs
	s.exs = nil
	return r
}

// Forget clears the per-client memory (as a restarted server would).
func (s *Server) Forget() {
	s.mu.Lock()
	s.byRx = map[string]map[ntp.Time64]*Exchange{}
	s.order = nil
	s.mu.Unlock()
}

func (s *Server) loop() {
	defer close(s.done)
	buf := make([]byte, 4096)
	for {
		s.mu.Lock()
		s.busy = false
		s.mu.Unlock()
		n, from, err := s.Conn.ReadFromUDPAddrPort(buf)
		if err != nil {
			return
		}
		r := Now()
		raw := append([]byte(nil), buf[:n]...)
		s.mu.Lock()
		plan := s.deflt
		if len(s.plans) > 0 {
			plan, s.plans = s.plans[0], s.plans[1:]
		}
		s.seq++
		s.busy = true
		ex := &Exchange{Seq: s.seq, From: from, Raw: raw, R: r, Theta: plan.Theta, Dropped: plan.DropRequest}
		s.exs = append(s.exs, ex)
		s.mu.Unlock()
		if ntp.DecodePacket(&ex.Req, raw) != nil || plan.DropRequest {
			ex.Dropped = true
			continue
		}
		if plan.Delay > 0 {
			time.Sleep(plan.Delay)
		}
		client := from.Addr().Unmap().String()
		var resp ntp.Packet
		resp.SetVersion(4)
		resp.SetMode(ntp.ModeServer)
		resp.Stratum = 1
		resp.Poll = ex.Req.Poll
		resp.Precision = -25
		resp.ReferenceID = 0x4d4f444c // "MODL"
		theta := plan.Theta
		if plan.Snap == "rx" || plan.Snap == "both" {
			ex.Rx64, theta = snap(r, theta, plan.SnapFrac)
		}
		s.mu.Lock()
		cited := s.byRx[client][ex.Req.OriginTime]
		s.mu.Unlock()
		hdr := make([]byte, ntp.PacketLen)
		if cited != nil && ex.Req.ReceiveTime != ex.Req.TransmitTime && !plan.ForceBasic {
			ex.Interleaved, ex.Cited = true, cited
			resp.OriginTime = ex.Req.ReceiveTime
			resp.TransmitTime = cited.SentTx64
		} else {
			resp.OriginTime = ex.Req.TransmitTime
		}
		ex.S = Now()
		switch plan.Snap {
		case "rx":
			ex.SentTx64 = ntp.Time64FromTime(ex.S.Add(theta))
		case "both":
			ex.SentTx64 = ex.Rx64
		case "tx":
			ex.SentTx64, theta = snap(ex.S, theta, plan.SnapFrac)
			ex.Rx64 = ntp.Time64FromTime(r.Add(theta))
		default:
			ex.Rx64 = ntp.Time64FromTime(r.Add(theta))
			ex.SentTx64 = ntp.Time64FromTime(ex.S.Add(theta))
		}
		resp.ReceiveTime = ex.Rx64
		s.mu.Lock()
		ex.Theta = theta
		s.mu.Unlock()
		if !ex.Interleaved {
			resp.TransmitTime = ex.SentTx64
		}
		resp.ReferenceTime = ex.SentTx64
		ex.Tx64 = resp.TransmitTime
		ntp.EncodePacket(&hdr, &resp)
		ex.Genuine = hdr
		if plan.Build != nil {
			ex.Genuine = plan.Build(ex, hdr)
		}
		s.mu.Lock()
		if s.byRx[client] == nil {
			s.byRx[client] = map[ntp.Time64]*Exchange{}
		}
		s.byRx[client][ex.Rx64] = ex
		if s.order == nil {
			s.order = map[string][]ntp.Time64{}
		}
		s.order[client] = append(s.order[client], ex.Rx64)
		for s.Depth > 0 && len(s.order[client]) > s.Depth {
			delete(s.byRx[client], s.order[client][0])
			s.order[client] = s.order[client][1:]
		}
		s.mu.Unlock()
		s.mu.Lock()
		ex.PrevGenuine, s.lastGenuine = s.lastGenuine, ex.Genuine
		s.mu.Unlock()
		outs := []Out{{Data: ex.Genuine}}
		if plan.Outs != nil {
			outs = plan.Outs(ex)
		}
		for _, o := range outs {
			if o.Wait > 0 {
				time.Sleep(o.Wait)
			}
			c := s.Conn
			if o.Via != nil {
				c = o.Via
			}
			_, _ = c.WriteToUDPAddrPort(o.Data, from)
			s.mu.Lock()
			ex.Sent = append(ex.Sent, o.Data)
			s.mu.Unlock()
		}
	}
}

func (e *Exchange) String() string {
	return fmt.Sprintf("#%d theta=%v dropped=%v interleaved=%v sent=%d", e.Seq, e.Theta, e.Dropped, e.Interleaved, len(e.Sent))
}

// Variant builds the reply the model would give to this exchange if its clock were offset by theta
// (same receive/send instants R and S): used to script several distinguishable candidate replies.
func (e *Exchange) Variant(theta time.Duration) []byte {
	var resp ntp.Packet
	resp.SetVersion(4)
	resp.SetMode(ntp.ModeServer)
	resp.Stratum = 1
	resp.Poll = e.Req.Poll
	resp.Precision = -25
	resp.ReferenceID = 0x4d4f444c
	resp.ReceiveTime = ntp.Time64FromTime(e.R.Add(theta))
	if e.Interleaved {
		resp.OriginTime = e.Req.ReceiveTime
		resp.TransmitTime = e.Cited.SentTx64
	} else {
		resp.OriginTime = e.Req.TransmitTime
		resp.TransmitTime = ntp.Time64FromTime(e.S.Add(theta))
	}
	resp.ReferenceTime = resp.TransmitTime
	b := make([]byte, ntp.PacketLen)
	ntp.EncodePacket(&b, &resp)
	return b
}
