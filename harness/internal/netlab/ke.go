package netlab

import (
	"crypto/ecdsa"
	"crypto/elliptic"
	"crypto/rand"
	"crypto/tls"
	"crypto/x509"
	"crypto/x509/pkix"
	"encoding/binary"
	"io"
	"math/big"
	"net"
	"sync"
	"time"
)

// Rec is one NTS-KE record (RFC 8915 §4) in the harness's own encoding.
type Rec struct {
	Type     uint16
	Critical bool
	Body     []byte
}

const (
	RecEnd       = 0
	RecNextProto = 1
	RecError     = 2
	RecWarning   = 3
	RecAEAD      = 4
	RecCookie    = 5
	RecServer    = 6
	RecPort      = 7
)

func U16(v uint16) []byte { return []byte{byte(v >> 8), byte(v)} }

func EncodeRecs(rs []Rec) []byte {
	var b []byte
	for _, r := range rs {
		t := r.Type
		if r.Critical {
			t |= 0x8000
		}
		b = append(b, byte(t>>8), byte(t))
		b = append(b, byte(len(r.Body)>>8), byte(len(r.Body)))
		b = append(b, r.Body...)
	}
	return b
}

// ParseRecs parses as many complete records as b holds; rest is what remains.
func ParseRecs(b []byte) (rs []Rec, rest []byte) {
	for len(b) >= 4 {
		t := binary.BigEndian.Uint16(b)
		l := int(binary.BigEndian.Uint16(b[2:]))
		if len(b) < 4+l {
			break
		}
		rs = append(rs, Rec{Type: t &^ 0x8000, Critical: t&0x8000 != 0, Body: b[4 : 4+l]})
		b = b[4+l:]
	}
	return rs, b
}

// KEConn is one accepted key-exchange connection as seen by a script.
type KEConn struct {
	Conn *tls.Conn
	Seq  int
}

// ReadRequest reads the client's records up to and including the end-of-message record.
func (c *KEConn) ReadRequest() ([]Rec, error) {
	var buf []byte
	tmp := make([]byte, 1024)
	c.Conn.SetReadDeadline(time.Now().Add(2 * time.Second))
	for {
		rs, _ := ParseRecs(buf)
		for _, r := range rs {
			if r.Type == RecEnd {
				return rs, nil
			}
		}
		n, err := c.Conn.Read(tmp)
		buf = append(buf, tmp[:n]...)
		if err != nil {
			rs, _ := ParseRecs(buf)
			return rs, err
		}
	}
}

// Keys exports the RFC 8915 §5.1 keys from the server's side of the TLS session
// (written out independently of the project's ExportKeys).
func (c *KEConn) Keys() (c2s, s2c []byte, err error) {
	cs := c.Conn.ConnectionState()
	const label = "EXPORTER-network-time-security"
	// context: two-byte protocol id (0 = NTPv4), two-byte AEAD id (15), one byte 0x00 (C2S) / 0x01 (S2C)
	c2s, err = cs.ExportKeyingMaterial(label, []byte{0, 0, 0, 15, 0}, 32)
	if err != nil {
		return
	}
	s2c, err = cs.ExportKeyingMaterial(label, []byte{0, 0, 0, 15, 1}, 32)
	return
}

// WriteSegments writes b in the given segment sizes (the last size repeats); each segment is a separate TLS record.
func (c *KEConn) WriteSegments(b []byte, sizes []int) error {
	i := 0
	for len(b) > 0 {
		n := len(b)
		if len(sizes) > 0 {
			n = min(n, max(1, sizes[min(i, len(sizes)-1)]))
		}
		if _, err := c.Conn.Write(b[:n]); err != nil {
			return err
		}
		b = b[n:]
		i++
	}
	return nil
}

type KEServer struct {
	Addr   *net.TCPAddr
	ln     net.Listener
	cert   tls.Certificate
	mu     sync.Mutex
	alpn   []string
	handle func(*KEConn)
	nconn  int
	hsErr  int
	wg     sync.WaitGroup
}

// SelfSigned returns a fresh self-signed certificate for loopback servers of the harness.
func SelfSigned() (tls.Certificate, error) { return selfSigned() }

func selfSigned() (tls.Certificate, error) {
	key, err := ecdsa.GenerateKey(elliptic.P256(), rand.Reader)
	if err != nil {
		return tls.Certificate{}, err
	}
	tmpl := &x509.Certificate{
		SerialNumber: big.NewInt(1), Subject: pkix.Name{CommonName: "verif-ntske"},
		NotBefore: time.Now().Add(-time.Hour), NotAfter: time.Now().Add(24 * time.Hour),
		KeyUsage: x509.KeyUsageDigitalSignature, ExtKeyUsage: []x509.ExtKeyUsage{x509.ExtKeyUsageServerAuth},
		IPAddresses: []net.IP{net.IPv4(127, 0, 0, 1)},
	}
	der, err := x509.CreateCertificate(rand.Reader, tmpl, tmpl, &key.PublicKey, key)
	if err != nil {
		return tls.Certificate{}, err
	}
	return tls.Certificate{Certificate: [][]byte{der}, PrivateKey: key}, nil
}

// NewKEServer starts a TLS 1.3 listener; every accepted connection is handed to the current handler.
func NewKEServer(addr *net.TCPAddr) (*KEServer, error) {
	cert, err := selfSigned()
	if err != nil {
		return nil, err
	}
	ln, err := net.ListenTCP("tcp", addr)
	if err != nil {
		return nil, err
	}
	s := &KEServer{Addr: ln.Addr().(*net.TCPAddr), ln: ln, cert: cert, alpn: []string{"ntske/1"}}
	go s.loop()
	return s, nil
}

// Set installs the ALPN protocols offered and the connection handler for subsequent connections.
func (s *KEServer) Set(alpn []string, h func(*KEConn)) {
	s.mu.Lock()
	s.alpn, s.handle = alpn, h
	s.mu.Unlock()
}

// Conns returns the number of TCP connections accepted so far.
func (s *KEServer) Conns() int {
	s.mu.Lock()
	defer s.mu.Unlock()
	return s.nconn
}

// Wait blocks until all handlers started so far have returned.
func (s *KEServer) Wait() { s.wg.Wait() }

func (s *KEServer) loop() {
	for {
		raw, err := s.ln.Accept()
		if err != nil {
			return
		}
		s.mu.Lock()
		s.nconn++
		seq := s.nconn
		alpn, h := s.alpn, s.handle
		s.mu.Unlock()
		s.wg.Add(1)
		go func() {
			defer s.wg.Done()
			defer raw.Close()
			cfg := &tls.Config{Certificates: []tls.Certificate{s.cert}, MinVersion: tls.VersionTLS13, NextProtos: alpn}
			conn := tls.Server(raw, cfg)
			conn.SetDeadline(time.Now().Add(5 * time.Second))
			if err := conn.Handshake(); err != nil {
				s.mu.Lock()
				s.hsErr++
				s.mu.Unlock()
				return
			}
			if h != nil {
				h(&KEConn{Conn: conn, Seq: seq})
			}
			// drain politely so the peer sees a clean close rather than a reset
			conn.SetReadDeadline(time.Now().Add(20 * time.Millisecond))
			io.Copy(io.Discard, conn)
		}()
	}
}
