// Package gen holds rapid generators shared by the property checks.
package gen

import (
	"math"
	"time"

	"pgregory.net/rapid"
)

// Int64Mix draws from the whole int64 range with mass on corners.
func Int64Mix() *rapid.Generator[int64] {
	return rapid.OneOf(
		rapid.SampledFrom([]int64{0, 1, -1, 2, -2, math.MaxInt64, math.MinInt64, math.MaxInt64 - 1, math.MinInt64 + 1,
			1 << 62, -(1 << 62), 1<<62 - 1, -(1<<62 - 1), 1<<62 + 1, 1 << 32, -(1 << 32), 1e9, -1e9, 1e9 - 1, 1e9 + 1}),
		rapid.Int64(),
		rapid.Int64Range(-1000, 1000),
		rapid.Int64Range(-1e12, 1e12),
		rapid.Map(rapid.IntRange(0, 62), func(s int) int64 { return 1 << uint(s) }),
		rapid.Map(rapid.IntRange(0, 62), func(s int) int64 { return -(1 << uint(s)) }),
	)
}

// Below62 draws v with |v| < 2^62.
func Below62() *rapid.Generator[int64] {
	const lim = 1<<62 - 1
	return rapid.OneOf(
		rapid.Int64Range(-lim, lim),
		rapid.SampledFrom([]int64{0, 1, -1, lim, -lim, lim - 1, -lim + 1}),
		rapid.Int64Range(-1000, 1000),
		rapid.Int64Range(-int64(time.Hour), int64(time.Hour)),
	)
}

// Near returns values within +-w of c, clamped against overflow.
func Near(c int64, w int64) *rapid.Generator[int64] {
	lo, hi := c-w, c+w
	if lo > c {
		lo = math.MinInt64
	}
	if hi < c {
		hi = math.MaxInt64
	}
	return rapid.Int64Range(lo, hi)
}
