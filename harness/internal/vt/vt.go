// Package vt is the glue between the driver (/verif/check) and the test
// packages: tier/seed/shard from the environment, rapid flag set-up, replay
// file writing for non-rapid checks, inconclusive marker.
package vt

import (
	"encoding/json"
	"flag"
	"fmt"
	"os"
	"path/filepath"
	"strconv"
	"testing"
	"time"

	"pgregory.net/rapid"

	"verif/internal/ev"
)

func envInt(k string, def int) int {
	if s := os.Getenv(k); s != "" {
		if n, err := strconv.Atoi(s); err == nil {
			return n
		}
	}
	return def
}

// Thorough reports whether the thorough tier was requested.
func Thorough() bool { return os.Getenv("VERIF_TIER") == "thorough" }

// Seed is VERIF_SEED (0 remapped to 1).
func Seed() int {
	s := envInt("VERIF_SEED", 1)
	if s == 0 {
		s = 1
	}
	if s < 0 {
		s = -s
	}
	return s
}

// Shard, Shards: this process's index and the number of parallel processes.
func Shard() int  { return envInt("VERIF_SHARD", 0) }
func Shards() int { return max(1, envInt("VERIF_SHARDS", 1)) }

// N picks the case count for the tier (thorough count is per shard).
func N(quick, thorough int) int {
	if Thorough() {
		return thorough
	}
	return quick
}

// Check runs a rapid property with the tier's case count and a seed derived
// from VERIF_SEED, the shard and the test name. With -rapid.failfile given
// (replay) only the fail file is run.
func Check(t *testing.T, quick, thorough int, prop func(*rapid.T)) {
	t.Helper()
	n := N(quick, thorough)
	if s := os.Getenv("VERIF_SCALE"); s != "" { // development aid
		if f, err := strconv.ParseFloat(s, 64); err == nil {
			n = max(1, int(float64(n)*f))
		}
	}
	seed := uint64(Seed())*1_000_003 + uint64(Shard())*7919 + (ev.Hash(t.Name()) % 1000)
	if seed == 0 {
		seed = 1
	}
	must(flag.Set("rapid.checks", strconv.Itoa(n)))
	must(flag.Set("rapid.seed", strconv.FormatUint(seed, 10)))
	rapid.Check(t, prop)
}

func must(err error) {
	if err != nil {
		panic(err)
	}
}

// Violation writes a replay file for a non-rapid check and fails the test.
func Violation(t testing.TB, c any, format string, args ...any) {
	t.Helper()
	dir := os.Getenv("VERIF_REPLAY_DIR")
	if dir == "" {
		dir = os.TempDir()
	}
	b, _ := json.MarshalIndent(map[string]any{"test": t.Name(), "case": c, "message": fmt.Sprintf(format, args...)}, "", " ")
	p := filepath.Join(dir, fmt.Sprintf("%s-%016x.json", sanitize(t.Name()), ev.Hash(b)))
	_ = os.WriteFile(p, b, 0o644)
	fmt.Printf("REPLAY-FILE: %s\n", p)
	t.Fatalf(format, args...)
}

func sanitize(s string) string {
	b := []byte(s)
	for i, c := range b {
		if !(c >= 'a' && c <= 'z' || c >= 'A' && c <= 'Z' || c >= '0' && c <= '9' || c == '_' || c == '-') {
			b[i] = '_'
		}
	}
	return string(b)
}

// Inconclusive marks a harness-side problem (not a property violation).
func Inconclusive(t interface {
	Name() string
	SkipNow()
}, format string, args ...any) {
	fmt.Printf("VERIF-INCONCLUSIVE: %s: %s\n", t.Name(), fmt.Sprintf(format, args...))
	t.SkipNow()
}

// CorpusDir returns /verif/corpus/<id>.
func CorpusDir(id string) string {
	root := os.Getenv("VERIF_ROOT")
	if root == "" {
		root = "/verif"
	}
	return filepath.Join(root, "corpus", id)
}

// ReplayCase returns the path given with VERIF_REPLAY_JSON (driver --replay of a JSON case), if any.
func ReplayCase() string { return os.Getenv("VERIF_REPLAY_JSON") }

// Main is the TestMain body shared by all check packages.
func Main(m *testing.M) {
	code := m.Run()
	ev.Flush()
	os.Exit(code)
}

// Watchdog guards one case against a hang of the code under test (e.g. a busy
// loop that never lets virtual time advance). The bound is real time and must
// be orders of magnitude above the case's normal cost. On expiry the case is
// written as a replay file, the test is reported as failed and the process
// exits (the stuck goroutine cannot be stopped). Call the returned func to disarm.
func Watchdog(t interface{ Name() string }, d time.Duration, c any, what string) func() {
	name := t.Name()
	tm := time.AfterFunc(d, func() {
		dir := os.Getenv("VERIF_REPLAY_DIR")
		if dir == "" {
			dir = os.TempDir()
		}
		b, _ := json.MarshalIndent(map[string]any{"test": name, "case": c, "message": what}, "", " ")
		p := filepath.Join(dir, fmt.Sprintf("%s-%016x.json", sanitize(name), ev.Hash(b)))
		_ = os.WriteFile(p, b, 0o644)
		fmt.Printf("\nVERIF-VIOLATION-MARK: %s did not finish within %v of real time: %s\nREPLAY-FILE: %s\n--- FAIL: %s (hang)\n", name, d, what, p, name)
		ev.Flush()
		os.Exit(1)
	})
	return func() { tm.Stop() }
}
