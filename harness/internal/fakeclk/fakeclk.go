// Package fakeclk is a scriptable timebase.SystemClock for checks that need
// a registered process clock (timebase.RegisterClock can be called once).
package fakeclk

import (
	"math"
	"sync"
	"time"
)

type Call struct {
	Kind      string // "step" | "adjust"
	Offset    time.Duration
	Duration  time.Duration
	Frequency float64
}

type Clock struct {
	mu    sync.Mutex
	now   time.Time
	epoch uint64
	Calls []Call
	// StepBumpsEpoch mirrors driver/clocks.SystemClock (Step increments the epoch).
	StepBumpsEpoch bool
	NowFunc        func() time.Time // optional override
}

func New(start time.Time) *Clock { return &Clock{now: start, StepBumpsEpoch: true} }

func (c *Clock) Epoch() uint64 {
	c.mu.Lock()
	defer c.mu.Unlock()
	return c.epoch
}

func (c *Clock) SetEpoch(e uint64) {
	c.mu.Lock()
	c.epoch = e
	c.mu.Unlock()
}

func (c *Clock) BumpEpoch() {
	c.mu.Lock()
	c.epoch++
	c.mu.Unlock()
}

func (c *Clock) Now() time.Time {
	c.mu.Lock()
	defer c.mu.Unlock()
	if c.NowFunc != nil {
		return c.NowFunc()
	}
	return c.now
}

func (c *Clock) Set(t time.Time) {
	c.mu.Lock()
	c.now = t
	c.mu.Unlock()
}

func (c *Clock) Advance(d time.Duration) {
	c.mu.Lock()
	c.now = c.now.Add(d)
	c.mu.Unlock()
}

func (c *Clock) Drift(time.Duration) time.Duration { return math.MaxInt64 }

func (c *Clock) Step(offset time.Duration) {
	c.mu.Lock()
	c.Calls = append(c.Calls, Call{Kind: "step", Offset: offset})
	if c.StepBumpsEpoch {
		c.epoch++
	}
	c.mu.Unlock()
}

func (c *Clock) Adjust(offset, duration time.Duration, frequency float64) {
	c.mu.Lock()
	c.Calls = append(c.Calls, Call{Kind: "adjust", Offset: offset, Duration: duration, Frequency: frequency})
	c.mu.Unlock()
}

func (c *Clock) Sleep(time.Duration) {}

func (c *Clock) TakeCalls() []Call {
	c.mu.Lock()
	defer c.mu.Unlock()
	r := c.Calls
	c.Calls = nil
	return r
}
