// Package wire builds and parses SCION datagrams for the network-level checks
// (slayers types from scionproto, the same library the project uses).
package wire

import (
	"fmt"
	"net"
	"net/netip"

	"github.com/google/gopacket"
	"github.com/scionproto/scion/pkg/addr"
	"github.com/scionproto/scion/pkg/slayers"
	spathpkg "github.com/scionproto/scion/pkg/slayers/path"
	"github.com/scionproto/scion/pkg/slayers/path/empty"
	"github.com/scionproto/scion/pkg/slayers/path/epic"
	"github.com/scionproto/scion/pkg/slayers/path/onehop"
	"github.com/scionproto/scion/pkg/slayers/path/scion"
	"github.com/scionproto/scion/pkg/snet"
	snetpath "github.com/scionproto/scion/pkg/snet/path"
	"github.com/scionproto/scion/pkg/spao"
)

// PathSpec describes a dataplane path to build.
type PathSpec struct {
	Kind    string `json:"kind"` // "empty" | "scion" | "onehop"
	SegLens []int  `json:"seg_lens,omitempty"`
	CurrINF int    `json:"curr_inf"`
	CurrHF  int    `json:"curr_hf"`
	ConsDir []bool `json:"cons_dir,omitempty"`
	Seed    uint64 `json:"seed"`
}

func mix(x uint64) uint64 {
	x += 0x9e3779b97f4a7c15
	x = (x ^ (x >> 30)) * 0xbf58476d1ce4e5b9
	x = (x ^ (x >> 27)) * 0x94d049bb133111eb
	return x ^ (x >> 31)
}

// Decoded builds the decoded SCION path of a "scion" spec.
func (ps PathSpec) Decoded() *scion.Decoded {
	d := &scion.Decoded{}
	d.PathMeta.CurrINF = uint8(ps.CurrINF)
	d.PathMeta.CurrHF = uint8(ps.CurrHF)
	nh := 0
	for i, l := range ps.SegLens {
		d.PathMeta.SegLen[i] = uint8(l)
		nh += l
		inf := spathpkg.InfoField{SegID: uint16(mix(ps.Seed + uint64(i))), Timestamp: uint32(mix(ps.Seed+100+uint64(i))) | 1}
		if i < len(ps.ConsDir) {
			inf.ConsDir = ps.ConsDir[i]
		}
		d.InfoFields = append(d.InfoFields, inf)
	}
	d.NumINF, d.NumHops = len(ps.SegLens), nh
	for h := 0; h < nh; h++ {
		v := mix(ps.Seed + 1000 + uint64(h))
		hf := spathpkg.HopField{ExpTime: uint8(v), ConsIngress: uint16(v >> 8), ConsEgress: uint16(v >> 24)}
		for i := range hf.Mac {
			hf.Mac[i] = byte(v >> (8 * uint(i+1)))
		}
		d.HopFields = append(d.HopFields, hf)
	}
	return d
}

// SlayersPath returns the path object for the SCION layer.
func (ps PathSpec) SlayersPath() (spathpkg.Path, error) {
	switch ps.Kind {
	case "empty":
		return empty.Path{}, nil
	case "onehop":
		v := mix(ps.Seed)
		p := &onehop.Path{}
		p.Info = spathpkg.InfoField{ConsDir: true, SegID: uint16(v), Timestamp: uint32(v >> 16)}
		p.FirstHop = spathpkg.HopField{ExpTime: 63, ConsIngress: 0, ConsEgress: uint16(v>>8) | 1}
		p.SecondHop = spathpkg.HopField{ExpTime: 63, ConsIngress: uint16(v>>24) | 1}
		return p, nil
	case "scion":
		d := ps.Decoded()
		raw := make([]byte, d.Len())
		if err := d.SerializeTo(raw); err != nil {
			return nil, err
		}
		r := &scion.Raw{}
		if err := r.DecodeFromBytes(raw); err != nil {
			return nil, err
		}
		return r, nil
	case "epic": // EPIC-HP: a SCION path with a packet id and two hop validation fields in front (one-way: replies use the SCION path)
		inner := ps
		inner.Kind = "scion"
		sp, err := inner.SlayersPath()
		if err != nil {
			return nil, err
		}
		v := mix(ps.Seed + 17)
		return &epic.Path{
			PktID:     epic.PktID{Timestamp: uint32(v), Counter: uint32(v >> 32)},
			PHVF:      []byte{byte(v >> 8), byte(v >> 16), byte(v >> 24), byte(v >> 40)},
			LHVF:      []byte{byte(v >> 12), byte(v >> 20), byte(v >> 28), byte(v >> 44)},
			ScionPath: sp.(*scion.Raw),
		}, nil
	}
	return nil, fmt.Errorf("unknown path kind %q", ps.Kind)
}

// SnetPath returns an snet.Path for the clients (NextHop = the harness's border-router socket).
func (ps PathSpec) SnetPath(src, dst addr.IA, nextHop *net.UDPAddr, ifaces []snet.PathInterface) (snet.Path, error) {
	p := snetpath.Path{Src: src, Dst: dst, NextHop: nextHop, Meta: snet.PathMetadata{Interfaces: ifaces, MTU: 1400}}
	switch ps.Kind {
	case "empty":
		p.DataplanePath = snetpath.Empty{}
	case "scion":
		d := ps.Decoded()
		raw := make([]byte, d.Len())
		if err := d.SerializeTo(raw); err != nil {
			return nil, err
		}
		p.DataplanePath = snetpath.SCION{Raw: raw}
	default:
		return nil, fmt.Errorf("unsupported client path kind %q", ps.Kind)
	}
	return p, nil
}

// Pkt is a SCION packet to serialize.
type Pkt struct {
	SrcIA, DstIA     addr.IA
	Src, Dst         netip.Addr
	Path             spathpkg.Path
	TrafficClass     uint8
	FlowID           uint32                    // 0: 1
	E2E              []*slayers.EndToEndOption // nil: no end-to-end extension
	HBH              bool                      // add an (empty-ish) hop-by-hop extension
	SrcPort, DstPort uint16
	Payload          []byte
	SCMP             *SCMPSpec // non-nil: SCMP instead of UDP
}

type SCMPSpec struct {
	Type       slayers.SCMPType
	Identifier uint16
	Seq        uint16
	Data       []byte // echo data
}

var serOpts = gopacket.SerializeOptions{ComputeChecksums: true, FixLengths: true}

func (p *Pkt) scionLayer() (*slayers.SCION, error) {
	s := &slayers.SCION{}
	s.Version = 0
	s.TrafficClass = p.TrafficClass
	s.FlowID = 1
	if p.FlowID != 0 {
		s.FlowID = p.FlowID & 0xfffff
	}
	s.SrcIA, s.DstIA = p.SrcIA, p.DstIA
	// an IPv4-mapped IPv6 address stays what it is on the wire (a 16-byte host address); the library's setters
	// would turn it into the IPv4 address
	if p.Src.Is4In6() {
		s.SrcAddrType, s.RawSrcAddr = slayers.T16Ip, p.Src.AsSlice()
	} else if err := s.SetSrcAddr(addr.HostIP(p.Src)); err != nil {
		return nil, err
	}
	if p.Dst.Is4In6() {
		s.DstAddrType, s.RawDstAddr = slayers.T16Ip, p.Dst.AsSlice()
	} else if err := s.SetDstAddr(addr.HostIP(p.Dst)); err != nil {
		return nil, err
	}
	s.Path = p.Path
	s.PathType = p.Path.Type()
	return s, nil
}

// Serialize returns the packet bytes. If auth != nil the SPAO option (which must be among E2E) gets its MAC
// computed with key over the packet as it will be sent.
func (p *Pkt) Serialize(auth *slayers.EndToEndOption, key []byte) ([]byte, error) {
	s, err := p.scionLayer()
	if err != nil {
		return nil, err
	}
	buf := gopacket.NewSerializeBuffer()
	var l4 slayers.L4ProtocolType
	if p.SCMP != nil {
		l4 = slayers.L4SCMP
		sc := &slayers.SCMP{TypeCode: slayers.CreateSCMPTypeCode(p.SCMP.Type, 0)}
		sc.SetNetworkLayerForChecksum(s)
		var body gopacket.SerializableLayer
		switch p.SCMP.Type {
		case slayers.SCMPTypeTracerouteRequest, slayers.SCMPTypeTracerouteReply:
			body = &slayers.SCMPTraceroute{Identifier: p.SCMP.Identifier, Sequence: p.SCMP.Seq}
		default:
			body = &slayers.SCMPEcho{Identifier: p.SCMP.Identifier, SeqNumber: p.SCMP.Seq}
		}
		if err := gopacket.SerializeLayers(buf, serOpts, sc, body, gopacket.Payload(p.SCMP.Data)); err != nil {
			return nil, err
		}
	} else {
		l4 = slayers.L4UDP
		u := &slayers.UDP{SrcPort: p.SrcPort, DstPort: p.DstPort}
		u.SetNetworkLayerForChecksum(s)
		if err := gopacket.SerializeLayers(buf, serOpts, u, gopacket.Payload(p.Payload)); err != nil {
			return nil, err
		}
	}
	s.NextHdr = l4
	if p.E2E != nil {
		if auth != nil {
			mac, err := spao.ComputeAuthCMAC(spao.MACInput{
				Key: key, Header: slayers.PacketAuthOption{EndToEndOption: auth}, ScionLayer: s, PldType: l4, Pld: buf.Bytes(),
			}, make([]byte, spao.MACBufferSize), make([]byte, 16))
			if err != nil {
				return nil, err
			}
			copy(auth.OptData[12:], mac)
		}
		e := &slayers.EndToEndExtn{}
		e.NextHdr = l4
		e.Options = p.E2E
		if err := e.SerializeTo(buf, serOpts); err != nil {
			return nil, err
		}
		buf.PushLayer(e.LayerType())
		s.NextHdr = slayers.End2EndClass
	}
	if p.HBH {
		h := &slayers.HopByHopExtn{}
		h.NextHdr = s.NextHdr
		h.Options = []*slayers.HopByHopOption{{OptType: 200, OptData: []byte{1, 2, 3, 4}}}
		if err := h.SerializeTo(buf, serOpts); err != nil {
			return nil, err
		}
		buf.PushLayer(h.LayerType())
		s.NextHdr = slayers.HopByHopClass
	}
	if err := s.SerializeTo(buf, serOpts); err != nil {
		return nil, err
	}
	return append([]byte(nil), buf.Bytes()...), nil
}

// NewAuthOpt returns a packet-authenticator option with the given SPI/algorithm and a zero MAC
// (28 bytes of option data: 12 metadata + 16 MAC), aligned like the project's.
func NewAuthOpt(spi uint32, algo uint8) *slayers.EndToEndOption {
	o := &slayers.EndToEndOption{OptType: slayers.OptTypeAuthenticator, OptData: make([]byte, 28)}
	o.OptData[0], o.OptData[1], o.OptData[2], o.OptData[3] = byte(spi>>24), byte(spi>>16), byte(spi>>8), byte(spi)
	o.OptData[4] = algo
	o.OptAlign = [2]uint8{4, 2}
	return o
}

// Parsed is a decoded SCION datagram.
type Parsed struct {
	SCION   slayers.SCION
	HasE2E  bool
	E2E     slayers.EndToEndExtn
	IsUDP   bool
	UDP     slayers.UDP
	IsSCMP  bool
	SCMP    slayers.SCMP
	L4Bytes []byte // the L4 datagram as received (header + payload)
	Raw     []byte
}

func Parse(b []byte) (*Parsed, error) {
	p := &Parsed{Raw: append([]byte(nil), b...)}
	var hbh slayers.HopByHopExtnSkipper
	parser := gopacket.NewDecodingLayerParser(slayers.LayerTypeSCION, &p.SCION, &hbh, &p.E2E, &p.UDP, &p.SCMP)
	parser.IgnoreUnsupported = true
	decoded := make([]gopacket.LayerType, 0, 5)
	if err := parser.DecodeLayers(p.Raw, &decoded); err != nil {
		return nil, err
	}
	for _, l := range decoded {
		switch l {
		case slayers.LayerTypeEndToEndExtn:
			p.HasE2E = true
		case slayers.LayerTypeSCIONUDP:
			p.IsUDP = true
			p.L4Bytes = append(append([]byte(nil), p.UDP.Contents...), p.UDP.Payload...)
		case slayers.LayerTypeSCMP:
			p.IsSCMP = true
			p.L4Bytes = append(append([]byte(nil), p.SCMP.Contents...), p.SCMP.Payload...)
		}
	}
	if !p.IsUDP && !p.IsSCMP {
		return nil, fmt.Errorf("no L4 layer decoded (layers %v)", decoded)
	}
	return p, nil
}

// VerifySPAO recomputes the MAC of the packet's authenticator option with key; ok reports equality.
func (p *Parsed) VerifySPAO(key []byte) (present bool, spi uint32, algo uint8, ok bool, err error) {
	if !p.HasE2E {
		return false, 0, 0, false, nil
	}
	opt, ferr := p.E2E.FindOption(slayers.OptTypeAuthenticator)
	if ferr != nil {
		return false, 0, 0, false, nil
	}
	if len(opt.OptData) != 28 {
		return true, 0, 0, false, fmt.Errorf("authenticator option data of %d bytes", len(opt.OptData))
	}
	spi = uint32(opt.OptData[0])<<24 | uint32(opt.OptData[1])<<16 | uint32(opt.OptData[2])<<8 | uint32(opt.OptData[3])
	algo = opt.OptData[4]
	l4 := slayers.L4UDP
	if p.IsSCMP {
		l4 = slayers.L4SCMP
	}
	mac, err := spao.ComputeAuthCMAC(spao.MACInput{
		Key: key, Header: slayers.PacketAuthOption{EndToEndOption: opt}, ScionLayer: &p.SCION, PldType: l4, Pld: p.L4Bytes,
	}, make([]byte, spao.MACBufferSize), make([]byte, 16))
	if err != nil {
		return true, spi, algo, false, err
	}
	return true, spi, algo, string(mac) == string(opt.OptData[12:]), nil
}

func (p *Parsed) SrcAddr() (netip.Addr, bool) { return netip.AddrFromSlice(p.SCION.RawSrcAddr) }
func (p *Parsed) DstAddr() (netip.Addr, bool) { return netip.AddrFromSlice(p.SCION.RawDstAddr) }

// ReversePath computes, independently of the library's Reverse methods, the raw bytes and type of the path a reply must carry.
func ReversePath(p spathpkg.Path) ([]byte, spathpkg.Type, error) {
	switch p.Type() {
	case 0: // empty
		return nil, 0, nil
	case scion.PathType:
		raw := make([]byte, p.Len())
		if err := p.SerializeTo(raw); err != nil {
			return nil, 0, err
		}
		var d scion.Decoded
		if err := d.DecodeFromBytes(raw); err != nil {
			return nil, 0, err
		}
		r := scion.Decoded{}
		r.NumINF, r.NumHops = d.NumINF, d.NumHops
		for i := 0; i < d.NumINF; i++ {
			inf := d.InfoFields[d.NumINF-1-i]
			inf.ConsDir = !inf.ConsDir
			r.InfoFields = append(r.InfoFields, inf)
			r.PathMeta.SegLen[i] = d.PathMeta.SegLen[d.NumINF-1-i]
		}
		for i := 0; i < d.NumHops; i++ {
			r.HopFields = append(r.HopFields, d.HopFields[d.NumHops-1-i])
		}
		r.PathMeta.CurrINF = uint8(d.NumINF) - d.PathMeta.CurrINF - 1
		r.PathMeta.CurrHF = uint8(d.NumHops) - d.PathMeta.CurrHF - 1
		out := make([]byte, r.Len())
		if err := r.SerializeTo(out); err != nil {
			return nil, 0, err
		}
		return out, scion.PathType, nil
	case epic.PathType: // EPIC-HP protects one direction only: the reply travels over the reversed SCION path inside
		ep, ok := p.(*epic.Path)
		if !ok || ep.ScionPath == nil {
			return nil, 0, fmt.Errorf("unexpected EPIC path representation %T", p)
		}
		return ReversePath(ep.ScionPath)
	case 2: // one-hop: becomes the two-hop SCION path, seen from the receiver
		raw := make([]byte, p.Len())
		if err := p.SerializeTo(raw); err != nil {
			return nil, 0, err
		}
		var info spathpkg.InfoField
		var h1, h2 spathpkg.HopField
		info.DecodeFromBytes(raw[:8])
		h1.DecodeFromBytes(raw[8:20])
		h2.DecodeFromBytes(raw[20:32])
		r := scion.Decoded{}
		r.NumINF, r.NumHops = 1, 2
		r.PathMeta.SegLen[0] = 2
		r.InfoFields = []spathpkg.InfoField{{ConsDir: false, SegID: info.SegID, Timestamp: info.Timestamp}}
		r.HopFields = []spathpkg.HopField{h2, h1}
		out := make([]byte, r.Len())
		if err := r.SerializeTo(out); err != nil {
			return nil, 0, err
		}
		return out, scion.PathType, nil
	}
	return nil, 0, fmt.Errorf("path type %d", p.Type())
}
