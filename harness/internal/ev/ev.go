// Package ev records what a property check actually generated: number of
// evaluations, the set of distinct non-trivial cases (by FNV-64 hash of a
// canonical encoding), a histogram of labels and a few samples written out in
// full. One Recorder per test function; all recorders of a process are written
// to $VERIF_EV_DIR/<proc-tag>.json by Flush (called from TestMain).
package ev

import (
	"encoding/binary"
	"encoding/json"
	"fmt"
	"hash/fnv"
	"os"
	"path/filepath"
	"sort"
	"strconv"
	"sync"
)

const maxSamples = 6

type Recorder struct {
	mu         sync.Mutex
	Name       string
	Rule       string
	Exhaustive bool
	evals      int64
	nontrivial int64
	distinct   map[uint64]struct{}
	capDist    int
	capped     bool
	labels     map[string]int64
	samples    []any
	nsampleSeen int64
	known      map[string]int64 // known-finding signatures met (excluded by construction)
	notes      []string
}

var (
	regMu sync.Mutex
	reg   []*Recorder
)

func distinctCap() int {
	if s := os.Getenv("VERIF_EV_CAP"); s != "" {
		if n, err := strconv.Atoi(s); err == nil && n > 0 {
			return n
		}
	}
	return 1 << 20
}

// New registers a recorder. rule describes generation and the non-triviality rule.
func New(name, rule string) *Recorder {
	r := &Recorder{
		Name: name, Rule: rule,
		distinct: map[uint64]struct{}{},
		capDist:  distinctCap(),
		labels:   map[string]int64{},
		known:    map[string]int64{},
	}
	regMu.Lock()
	reg = append(reg, r)
	regMu.Unlock()
	return r
}

func Hash(parts ...any) uint64 {
	h := fnv.New64a()
	var b [8]byte
	for _, p := range parts {
		switch v := p.(type) {
		case []byte:
			binary.LittleEndian.PutUint64(b[:], uint64(len(v)))
			h.Write(b[:])
			h.Write(v)
		case string:
			binary.LittleEndian.PutUint64(b[:], uint64(len(v)))
			h.Write(b[:])
			h.Write([]byte(v))
		case int:
			binary.LittleEndian.PutUint64(b[:], uint64(v))
			h.Write(b[:])
		case int64:
			binary.LittleEndian.PutUint64(b[:], uint64(v))
			h.Write(b[:])
		case uint64:
			binary.LittleEndian.PutUint64(b[:], v)
			h.Write(b[:])
		case uint32:
			binary.LittleEndian.PutUint64(b[:], uint64(v))
			h.Write(b[:])
		case uint16:
			binary.LittleEndian.PutUint64(b[:], uint64(v))
			h.Write(b[:])
		case uint8:
			binary.LittleEndian.PutUint64(b[:], uint64(v))
			h.Write(b[:])
		case bool:
			if v {
				h.Write([]byte{1})
			} else {
				h.Write([]byte{0})
			}
		default:
			fmt.Fprintf(h, "%v|", v)
		}
	}
	return h.Sum64()
}

// Eval counts one evaluation of the property. If nontrivial, the case's hash
// enters the distinct set; sample (may be nil) is a func producing a JSON-able
// description, called only when the sample is kept.
func (r *Recorder) Eval(nontrivial bool, hash uint64, sample func() any, labels ...string) {
	r.mu.Lock()
	defer r.mu.Unlock()
	r.evals++
	for _, l := range labels {
		r.labels[l]++
	}
	if !nontrivial {
		return
	}
	r.nontrivial++
	if _, ok := r.distinct[hash]; ok {
		return
	}
	if len(r.distinct) >= r.capDist {
		r.capped = true
		return
	}
	r.distinct[hash] = struct{}{}
	if sample != nil {
		r.nsampleSeen++
		if len(r.samples) < maxSamples {
			r.samples = append(r.samples, sample())
		} else if hash%uint64(r.nsampleSeen) == 0 {
			// deterministic reservoir-like replacement driven by the case hash
			r.samples[3+int(hash>>32)%(maxSamples-3)] = sample()
		}
	}
}

// Count adds n evaluations without distinct tracking (bulk exhaustive loops).
func (r *Recorder) Count(n int64, labels ...string) {
	r.mu.Lock()
	r.evals += n
	for _, l := range labels {
		r.labels[l] += n
	}
	r.mu.Unlock()
}

// AddDistinct adds n distinct non-trivial cases counted by an enumeration that
// visits each case exactly once (no hash needed).
func (r *Recorder) AddDistinct(base uint64, n int64) {
	r.mu.Lock()
	defer r.mu.Unlock()
	r.nontrivial += n
	for i := int64(0); i < n && len(r.distinct) < r.capDist; i++ {
		r.distinct[Hash(r.Name, base, i)] = struct{}{}
	}
	if int64(len(r.distinct)) >= int64(r.capDist) {
		r.capped = true
	}
}

func (r *Recorder) Label(l string) {
	r.mu.Lock()
	r.labels[l]++
	r.mu.Unlock()
}

func (r *Recorder) Sample(s any) {
	r.mu.Lock()
	if len(r.samples) < maxSamples {
		r.samples = append(r.samples, s)
	}
	r.mu.Unlock()
}

func (r *Recorder) Note(s string) {
	r.mu.Lock()
	r.notes = append(r.notes, s)
	r.mu.Unlock()
}

// Known records that a listed known finding was met (and excluded from search).
func (r *Recorder) Known(sig string) {
	r.mu.Lock()
	r.known[sig]++
	r.mu.Unlock()
}

type procOut struct {
	Recorders []recOut `json:"recorders"`
}

type recOut struct {
	Name       string           `json:"name"`
	Rule       string           `json:"rule"`
	Exhaustive bool             `json:"exhaustive"`
	Evals      int64            `json:"evaluations"`
	Nontrivial int64            `json:"nontrivial"`
	Distinct   int              `json:"distinct"`
	Capped     bool             `json:"capped"`
	Labels     map[string]int64 `json:"labels"`
	Samples    []any            `json:"samples"`
	Known      map[string]int64 `json:"known,omitempty"`
	Notes      []string         `json:"notes,omitempty"`
	HashFile   string           `json:"hash_file"`
}

// Flush writes all recorders of this process. Called from TestMain after m.Run.
func Flush() {
	dir := os.Getenv("VERIF_EV_DIR")
	if dir == "" {
		return
	}
	tag := os.Getenv("VERIF_EV_TAG")
	if tag == "" {
		tag = strconv.Itoa(os.Getpid())
	}
	regMu.Lock()
	defer regMu.Unlock()
	var out procOut
	for i, r := range reg {
		r.mu.Lock()
		if r.evals == 0 {
			r.mu.Unlock()
			continue
		}
		hf := filepath.Join(dir, fmt.Sprintf("%s.%d.hashes", tag, i))
		hs := make([]uint64, 0, len(r.distinct))
		for h := range r.distinct {
			hs = append(hs, h)
		}
		sort.Slice(hs, func(a, b int) bool { return hs[a] < hs[b] })
		buf := make([]byte, 8*len(hs))
		for j, h := range hs {
			binary.LittleEndian.PutUint64(buf[8*j:], h)
		}
		_ = os.WriteFile(hf, buf, 0o644)
		out.Recorders = append(out.Recorders, recOut{
			Name: r.Name, Rule: r.Rule, Exhaustive: r.Exhaustive,
			Evals: r.evals, Nontrivial: r.nontrivial, Distinct: len(r.distinct),
			Capped: r.capped, Labels: r.labels, Samples: r.samples,
			Known: r.known, Notes: r.notes, HashFile: hf,
		})
		r.mu.Unlock()
	}
	b, err := json.Marshal(out)
	if err != nil {
		fmt.Fprintln(os.Stderr, "ev: marshal:", err)
		return
	}
	if err := os.WriteFile(filepath.Join(dir, tag+".json"), b, 0o644); err != nil {
		fmt.Fprintln(os.Stderr, "ev: write:", err)
	}
}
