package c13

import (
	"bytes"
	"context"
	"encoding/binary"
	"encoding/hex"
	"fmt"
	"io"
	"log/slog"
	"net"
	"net/netip"
	"os"
	"sync"
	"testing"
	"time"

	"github.com/prometheus/client_golang/prometheus"
	"github.com/scionproto/scion/pkg/addr"
	"github.com/scionproto/scion/pkg/slayers"
	spathpkg "github.com/scionproto/scion/pkg/slayers/path"
	"github.com/scionproto/scion/pkg/snet"
	"pgregory.net/rapid"

	"example.com/scion-time/core/client"
	"example.com/scion-time/core/server"
	"example.com/scion-time/core/timebase"
	"example.com/scion-time/driver/clocks"
	"example.com/scion-time/net/ntp"
	"example.com/scion-time/net/scion"
	"example.com/scion-time/net/udp"

	"verif/internal/ev"
	"verif/internal/netlab"
	"verif/internal/vt"
	"verif/internal/wire"
)

const (
	svcPort = 10123
	appPort = 40001
)

var (
	fwdSeq      uint64
	fwdExpected = map[uint64]bool{}
	fwdCount    = map[uint64]int{}
	srvIP       netip.Addr
	hop         *net.UDPConn // "previous hop" / border router socket of the harness
	app         *net.UDPConn // another end-host application (forwarding target) on the SCION destination host
	app30041    *net.UDPConn // end-host port on the destination host: nothing may ever be forwarded there
	zeroKey     = make([]byte, 16)
	seq         uint32
)

func TestMain(m *testing.M) {
	if !scion.UseMockKeys() {
		fmt.Println("VERIF-INCONCLUSIVE: USE_MOCK_KEYS=true must be set in the environment of this test binary")
		os.Exit(0)
	}
	log := slog.New(slog.NewTextHandler(io.Discard, nil))
	timebase.RegisterClock(clocks.NewSystemClock(log, clocks.UnknownDrift))
	prometheus.DefaultRegisterer = prometheus.NewRegistry()
	srvIP = netlab.Addr(0)
	server.StartSCIONServer(context.Background(), log, "", netlab.UDPAddr(srvIP, svcPort), 0, nil)
	var err error
	if hop, err = net.ListenUDP("udp", netlab.UDPAddr(netlab.Addr(1), 0)); err == nil {
		if app, err = net.ListenUDP("udp", netlab.UDPAddr(netlab.Addr(3), appPort)); err == nil {
			app30041, err = net.ListenUDP("udp", netlab.UDPAddr(netlab.Addr(3), scion.EndhostPort))
		}
	}
	if err != nil {
		fmt.Println("VERIF-INCONCLUSIVE: cannot bind harness sockets:", err)
		os.Exit(0)
	}
	vt.Main(m)
}

// ---------------------------------------------------------------- independent path reversal

func reversePath(p spathpkg.Path) ([]byte, spathpkg.Type, error) { return wire.ReversePath(p) }

// ---------------------------------------------------------------- probing

func drain(c *net.UDPConn) {
	buf := make([]byte, 16384)
	for {
		c.SetReadDeadline(time.Now().Add(time.Millisecond))
		if _, _, err := c.ReadFromUDP(buf); err != nil {
			return
		}
	}
}

func sentinelPkt(port int) ([]byte, ntp.Time64) {
	seq++
	var q ntp.Packet
	q.SetVersion(4)
	q.SetMode(ntp.ModeClient)
	q.TransmitTime = ntp.Time64{Seconds: 0xfeed0000 | seq>>16, Fraction: seq<<16 | 0xbeef}
	b := make([]byte, 48)
	ntp.EncodePacket(&b, &q)
	p := wire.Pkt{SrcIA: ia(1, 0xff0000000111), DstIA: ia(1, 0xff0000000112), Src: netlab.Addr(1), Dst: srvIP,
		Path: mustPath(wire.PathSpec{Kind: "empty"}), SrcPort: 5555, DstPort: svcPort, Payload: b}
	raw, err := p.Serialize(nil, nil)
	if err != nil {
		panic(err)
	}
	_ = port
	return raw, q.TransmitTime
}

func ia(isd uint16, as uint64) addr.IA { return addr.MustIAFrom(addr.ISD(isd), addr.AS(as)) }

func mustPath(ps wire.PathSpec) spathpkg.Path {
	p, err := ps.SlayersPath()
	if err != nil {
		panic(err)
	}
	return p
}

// probe sends raw to the listener port (service or end-host) from the hop socket, then a sentinel to the same
// port; returns the SCION datagrams that came back to the hop socket before the sentinel's reply.
func probe(raw []byte, toPort int) (replies [][]byte, lost bool) {
	drain(hop)
	dst := netlab.UDPAddr(srvIP, toPort)
	hop.WriteToUDP(raw, dst)
	buf := make([]byte, 16384)
	for attempt := 0; attempt < 6; attempt++ {
		s, stx := sentinelPkt(toPort)
		hop.WriteToUDP(s, dst)
		deadline := time.Now().Add(time.Duration(300*(attempt+1)) * time.Millisecond)
		for {
			hop.SetReadDeadline(deadline)
			n, _, err := hop.ReadFromUDP(buf)
			if err != nil {
				break
			}
			d := bytes.Clone(buf[:n])
			if p, err := wire.Parse(d); err == nil && p.IsUDP && len(p.UDP.Payload) >= 48 {
				org := ntp.Time64{Seconds: binary.BigEndian.Uint32(p.UDP.Payload[24:]), Fraction: binary.BigEndian.Uint32(p.UDP.Payload[28:])}
				if org == stx {
					return replies, false
				}
				if org.Seconds&0xffff0000 == 0xfeed0000 && org.Fraction&0xffff == 0xbeef {
					continue // reply to an earlier sentinel
				}
			}
			replies = append(replies, d)
		}
	}
	return replies, true
}

// ---------------------------------------------------------------- cases

type pcase struct {
	Payload string        `json:"payload"` // "ntp" | "echo" | "traceroute" | "udp-other-port" | "udp-to-30041"
	Arrival string        `json:"arrival"` // "service" | "endhost"
	SrcFam  string        `json:"src_family"`
	DstFam  string        `json:"dst_family"`
	SrcIA   uint64        `json:"src_ia"`
	DstIA   uint64        `json:"dst_ia"`
	Path    wire.PathSpec `json:"path"`
	SrcPort uint16        `json:"src_port"`
	BigE2E  int           `json:"big_e2e,omitempty"` // forwarded packets: number of 250-byte options of an unknown type in the end-to-end extension (4 of them come to 1012 of the 1024 bytes an extension can have)
	// Front: what the other authenticator option of the "second-*" variants carries: "" = another SPI and the time
	// service's algorithm, "same-spi-other-algo" = the time service's SPI with another algorithm,
	// "other-spi-other-algo" = neither
	Front   string        `json:"front,omitempty"`
	SPAO    string        `json:"spao"` // "none" | "valid" | "mac-bit" | "covered-byte" | "other-spi" | "other-algo" | "server-spi" | "meta-bit"
	Bit     int           `json:"bit"`  // which bit / byte to disturb
	HBH     bool          `json:"hbh"`
	EchoLen int           `json:"echo_len"`
	ID, Seq uint16
	Fill    uint64 `json:"fill"`
	TC      uint8  `json:"traffic_class"`
	Flow    uint32 `json:"flow_id"`
}

func hostAddr(fam string, v4 netip.Addr, fill uint64) netip.Addr {
	switch fam {
	case "v6":
		var b [16]byte
		b[0], b[1] = 0xfd, 0x00
		binary.BigEndian.PutUint64(b[8:], fill|1)
		return netip.AddrFrom16(b)
	case "v4-mapped":
		return netip.AddrFrom16(v4.As16())
	}
	return v4
}

type failer interface {
	Fatalf(format string, args ...any)
}

func checkCase(t failer, c pcase) (labels []string) {
	src := hostAddr(c.SrcFam, netlab.Addr(1), c.Fill)
	dst := hostAddr(c.DstFam, netlab.Addr(3), c.Fill+7) // forwarding target lives on Addr(3)
	if c.Payload == "ntp" || c.Payload == "echo" || c.Payload == "traceroute" {
		dst = hostAddr(c.DstFam, srvIP, c.Fill+7)
	}
	pth, err := c.Path.SlayersPath()
	if err != nil {
		t.Fatalf("harness: cannot build path %+v: %v", c.Path, err)
	}
	p := wire.Pkt{SrcIA: addr.IA(c.SrcIA), DstIA: addr.IA(c.DstIA), Src: src, Dst: dst, Path: pth, SrcPort: c.SrcPort, HBH: c.HBH, TrafficClass: c.TC, FlowID: c.Flow}
	var reqTx ntp.Time64
	body := make([]byte, c.EchoLen)
	for i := range body {
		body[i] = byte(c.Fill>>(8*uint(i%8))) ^ byte(i)
	}
	// UDP payloads for the forwarding branch carry a unique tag so that a copy delivered late (after this case's
	// collection window) is attributed to the probe it belongs to
	var tag uint64
	if len(c.Payload) > 3 && c.Payload[:3] == "udp" {
		if len(body) < 8 {
			body = append(body, make([]byte, 8-len(body))...)
		}
		fwdSeq++
		tag = fwdSeq
		binary.BigEndian.PutUint64(body, tag)
	}
	switch c.Payload {
	case "ntp":
		var q ntp.Packet
		q.SetVersion(4)
		q.SetMode(ntp.ModeClient)
		reqTx = ntp.Time64{Seconds: uint32(c.Fill>>32) | 1, Fraction: uint32(c.Fill)}
		q.TransmitTime = reqTx
		b := make([]byte, 48)
		ntp.EncodePacket(&b, &q)
		p.Payload, p.DstPort = b, svcPort
	case "echo":
		p.SCMP = &wire.SCMPSpec{Type: slayers.SCMPTypeEchoRequest, Identifier: c.ID, Seq: c.Seq, Data: body}
	case "traceroute":
		p.SCMP = &wire.SCMPSpec{Type: slayers.SCMPTypeTracerouteRequest, Identifier: c.ID, Seq: c.Seq}
	case "udp-other-port":
		p.Payload, p.DstPort = body, appPort
	case "udp-to-30041":
		p.Payload, p.DstPort = body, scion.EndhostPort
	}
	var authOpt *slayers.EndToEndOption
	spi, algo := scion.PacketAuthSPIClient, scion.PacketAuthAlgorithm
	switch c.SPAO {
	case "other-spi":
		spi ^= 1 << uint(c.Bit%20)
	case "server-spi":
		spi = scion.PacketAuthSPIServer
	case "other-algo":
		algo = uint8(1 + c.Bit%200)
	}
	if c.SPAO != "none" && p.SCMP == nil {
		authOpt = wire.NewAuthOpt(spi, algo)
		p.E2E = []*slayers.EndToEndOption{authOpt}
		if c.SPAO == "second-valid" || c.SPAO == "second-mac-bit" {
			// an authenticator option of somebody else's (another SPI, arbitrary MAC) in front of the time service's:
			// an extension may hold several, and other options are not part of the MAC input
			ospi, oalgo := spi^(1<<uint(c.Bit%20)), algo
			switch c.Front {
			case "same-spi-other-algo":
				ospi, oalgo = spi, uint8(1+c.Bit%200)
			case "other-spi-other-algo":
				oalgo = uint8(1 + c.Bit%200)
			}
			other := wire.NewAuthOpt(ospi, oalgo)
			if c.Front != "" {
				labels = append(labels, "front-option:"+c.Front)
			}
			for i := 12; i < len(other.OptData); i++ {
				other.OptData[i] = byte(c.Bit>>uint(i%5)) ^ byte(i)
			}
			p.E2E = []*slayers.EndToEndOption{other, authOpt}
		}
	}
	if c.BigE2E > 0 && authOpt == nil && p.SCMP == nil {
		for i := 0; i < c.BigE2E; i++ {
			p.E2E = append(p.E2E, &slayers.EndToEndOption{OptType: slayers.OptionType(200 + i), OptData: bytes.Repeat([]byte{byte(0x40 + i)}, 250)})
		}
		labels = append(labels, fmt.Sprintf("end-to-end-extension-with-%d-big-options", c.BigE2E))
	}
	raw, err := p.Serialize(authOpt, zeroKey)
	if err != nil {
		t.Fatalf("harness: cannot serialize %+v: %v", c, err)
	}
	// disturb after sealing
	expectAuthFail := false
	if authOpt != nil {
		pr, perr := wire.Parse(raw)
		if perr != nil {
			t.Fatalf("harness: own packet does not parse: %v", perr)
		}
		optOff := bytes.Index(raw, authOpt.OptData)
		switch c.SPAO {
		case "mac-bit", "second-mac-bit":
			raw[optOff+12+(c.Bit/8)%16] ^= 1 << (c.Bit % 8)
			expectAuthFail = true
		case "meta-bit": // timestamp / sequence number bytes of the authenticator metadata (covered by the MAC)
			raw[optOff+6+(c.Bit/8)%6] ^= 1 << (c.Bit % 8) // bytes 6..11: timestamp / sequence number (byte 5 is reserved and not covered)
			expectAuthFail = true
		case "covered-byte": // a payload byte (covered)
			l4 := len(raw) - len(pr.L4Bytes)
			raw[l4+8+(c.Bit/8)%(len(pr.L4Bytes)-8)] ^= 1 << (c.Bit % 8)
			expectAuthFail = true
			if c.Payload == "ntp" {
				// the NTP request must stay a valid request for the no-reply verdict to be about authentication
				var q ntp.Packet
				if ntp.DecodePacket(&q, raw[l4+8:]) == nil && ntp.ValidateRequest(&q, 0) != nil {
					return []string{"skipped-invalid-after-flip"}
				}
				reqTx = ntp.Time64{Seconds: binary.BigEndian.Uint32(raw[l4+8+40:]), Fraction: binary.BigEndian.Uint32(raw[l4+8+44:])}
			}
		case "l4-prefix":
			// a captured authentic packet with a forged UDP datagram (same ports and length, another NTP request)
			// inserted in front of the genuine one: the MAC still matches the genuine L4 bytes at the end of the
			// datagram, but not the L4 data a receiver parses and would act on
			if c.Payload == "ntp" {
				l4 := len(raw) - len(pr.L4Bytes)
				forged := bytes.Clone(raw[l4:])
				forged[6], forged[7] = 0, 0 // no UDP checksum
				forged[8+40] ^= 0x5a        // another transmit timestamp: a different request
				forged[8+47] ^= 0xa5
				reqTx = ntp.Time64{Seconds: binary.BigEndian.Uint32(forged[8+40:]), Fraction: binary.BigEndian.Uint32(forged[8+44:])}
				raw = append(append(bytes.Clone(raw[:l4]), forged...), raw[l4:]...)
				binary.BigEndian.PutUint16(raw[6:], binary.BigEndian.Uint16(raw[6:])+uint16(len(forged)))
				expectAuthFail = true
			}
		}
		if c.SPAO == "other-spi" || c.SPAO == "server-spi" || c.SPAO == "other-algo" {
			labels = append(labels, "foreign-authenticator")
		}
	}
	toPort := svcPort
	if c.Arrival == "endhost" {
		toPort = scion.EndhostPort
	}
	drain(app30041)
	replies, lost := probe(raw, toPort)
	if lost {
		t.Fatalf("after %s the following well-formed request on the same socket pair was not answered (6 attempts)", describe(c))
	}
	// forwarded copies (attributed by tag; a copy of an earlier probe may arrive late)
	wantFwdNow := tag != 0 && c.Arrival == "endhost" && c.Payload == "udp-other-port" && (dst == netlab.Addr(3) || c.DstFam == "v4-mapped")
	if tag != 0 {
		fwdExpected[tag] = wantFwdNow
	}
	var fwd [][]byte
	buf := make([]byte, 16384)
	wait := 3 * time.Millisecond
	if wantFwdNow {
		wait = 400 * time.Millisecond
	}
	deadline := time.Now().Add(wait)
	for {
		app.SetReadDeadline(deadline)
		n, _, err := app.ReadFromUDP(buf)
		if err != nil {
			break
		}
		d := bytes.Clone(buf[:n])
		var dtag uint64
		if f, err := wire.Parse(d); err == nil && f.IsUDP && len(f.UDP.Payload) >= 8 {
			dtag = binary.BigEndian.Uint64(f.UDP.Payload)
		}
		fwdCount[dtag]++
		if dtag == tag && tag != 0 {
			fwd = append(fwd, d)
			deadline = time.Now().Add(3 * time.Millisecond) // short grace period for a duplicate
			continue
		}
		if exp, known := fwdExpected[dtag]; !known || !exp || fwdCount[dtag] > 1 {
			t.Fatalf("%s: a datagram of an earlier probe (tag %d, forwarding expected=%v, copy #%d) reached the other application", describe(c), dtag, exp, fwdCount[dtag])
		}
	}
	app30041.SetReadDeadline(time.Now().Add(time.Millisecond))
	if n, _, err := app30041.ReadFromUDP(buf); err == nil {
		t.Fatalf("%s: %d bytes were forwarded to the end-host port 30041", describe(c), n)
	}
	req, _ := wire.Parse(raw)
	switch c.Payload {
	case "ntp":
		wantReply := !expectAuthFail
		if len(fwd) != 0 {
			t.Fatalf("%s: an NTP request was forwarded", describe(c))
		}
		if !wantReply {
			if len(replies) != 0 {
				t.Fatalf("%s: request whose packet authenticator does not verify was served (%d replies)", describe(c), len(replies))
			}
			return append(labels, "auth-rejected")
		}
		if len(replies) != 1 {
			t.Fatalf("%s: %d replies, expected 1", describe(c), len(replies))
		}
		r, err := wire.Parse(replies[0])
		if err != nil || !r.IsUDP {
			t.Fatalf("%s: reply does not parse as SCION/UDP: %v", describe(c), err)
		}
		checkAddressing(t, c, req, r)
		if r.UDP.SrcPort != req.UDP.DstPort || r.UDP.DstPort != req.UDP.SrcPort {
			t.Fatalf("%s: reply ports %d->%d, request %d->%d", describe(c), r.UDP.SrcPort, r.UDP.DstPort, req.UDP.SrcPort, req.UDP.DstPort)
		}
		if len(r.UDP.Payload) != 48 {
			t.Fatalf("%s: NTP reply payload of %d bytes", describe(c), len(r.UDP.Payload))
		}
		org := ntp.Time64{Seconds: binary.BigEndian.Uint32(r.UDP.Payload[24:]), Fraction: binary.BigEndian.Uint32(r.UDP.Payload[28:])}
		if org != reqTx || r.UDP.Payload[0]&7 != 4 {
			t.Fatalf("%s: NTP reply does not echo the request's transmit timestamp / is not server mode", describe(c))
		}
		present, rspi, ralgo, ok, verr := r.VerifySPAO(zeroKey)
		if c.SPAO == "valid" || c.SPAO == "second-valid" {
			if !present || verr != nil || rspi != scion.PacketAuthSPIServer || ralgo != scion.PacketAuthAlgorithm || !ok {
				t.Fatalf("%s: reply to an authenticated request: authenticator present=%v spi=%#x algo=%d verifies=%v err=%v", describe(c), present, rspi, ralgo, ok, verr)
			}
			labels = append(labels, "authenticated-exchange")
		} else if present && rspi == scion.PacketAuthSPIServer && !ok {
			t.Fatalf("%s: reply carries a server authenticator that does not verify", describe(c))
		}
	case "echo", "traceroute":
		if len(replies) != 1 || len(fwd) != 0 {
			t.Fatalf("%s: %d replies (expected 1), %d forwarded", describe(c), len(replies), len(fwd))
		}
		r, err := wire.Parse(replies[0])
		if err != nil || !r.IsSCMP {
			t.Fatalf("%s: reply does not parse as SCMP: %v", describe(c), err)
		}
		checkAddressing(t, c, req, r)
		wantType := slayers.SCMPTypeEchoReply
		if c.Payload == "traceroute" {
			wantType = slayers.SCMPTypeTracerouteReply
		}
		if r.SCMP.TypeCode.Type() != wantType || r.SCMP.TypeCode.Code() != 0 {
			t.Fatalf("%s: SCMP reply type %v", describe(c), r.SCMP.TypeCode)
		}
		if !bytes.Equal(r.SCMP.Payload, req.SCMP.Payload) {
			t.Fatalf("%s: SCMP reply payload (identifier, sequence number, data) differs: %x vs %x", describe(c), r.SCMP.Payload, req.SCMP.Payload)
		}
	case "udp-other-port", "udp-to-30041":
		if len(replies) != 0 {
			t.Fatalf("%s: %d datagrams came back to the previous hop for a packet addressed to another end-host port", describe(c), len(replies))
		}
		wantFwd := c.Arrival == "endhost" && c.Payload == "udp-other-port"
		if dst != netlab.Addr(3) && !(c.DstFam == "v4-mapped") {
			wantFwd = false // SCION destination host is not an address the harness listens on
			if c.Arrival == "endhost" && c.Payload == "udp-other-port" {
				return append(labels, "forward-to-unreachable-host")
			}
		}
		if !wantFwd {
			if len(fwd) != 0 {
				t.Fatalf("%s: packet was forwarded although it %s", describe(c), map[bool]string{true: "arrived on the service port", false: "is addressed to the end-host port"}[c.Arrival != "endhost"])
			}
			return append(labels, "not-forwarded")
		}
		if len(fwd) != 1 {
			var hs []string
			for _, f := range fwd {
				hs = append(hs, hex.EncodeToString(f))
			}
			t.Fatalf("%s: forwarded %d times, expected once: %v (sent %s)", describe(c), len(fwd), hs, hex.EncodeToString(raw))
		}
		f, err := wire.Parse(fwd[0])
		if err != nil || !f.IsUDP {
			t.Fatalf("%s: forwarded datagram does not parse: %v", describe(c), err)
		}
		if !bytes.Equal(f.UDP.Payload, body) || f.UDP.SrcPort != c.SrcPort || f.UDP.DstPort != appPort {
			t.Fatalf("%s: forwarded L4 datagram changed: ports %d->%d payload %x (sent %x)", describe(c), f.UDP.SrcPort, f.UDP.DstPort, f.UDP.Payload, body)
		}
		if f.SCION.SrcIA != req.SCION.SrcIA || f.SCION.DstIA != req.SCION.DstIA || !bytes.Equal(f.SCION.RawSrcAddr, req.SCION.RawSrcAddr) || !bytes.Equal(f.SCION.RawDstAddr, req.SCION.RawDstAddr) {
			t.Fatalf("%s: forwarded packet's SCION addresses changed", describe(c))
		}
		// the packet authenticator travels with the packet: the application behind the forwarder verifies it
		if authOpt != nil {
			var got []byte
			if f.HasE2E {
				if o, err := f.E2E.FindOption(slayers.OptTypeAuthenticator); err == nil {
					got = o.OptData
				}
			}
			if !bytes.Equal(got, authOpt.OptData) {
				t.Fatalf("%s: the forwarded packet's authenticator option is %x, the packet was sent with %x", describe(c), got, authOpt.OptData)
			}
			if _, _, _, ok, _ := f.VerifySPAO(zeroKey); !ok && c.SPAO == "valid" {
				t.Fatalf("%s: the authenticator of the forwarded packet does not verify any more", describe(c))
			}
			labels = append(labels, "forwarded-with-authenticator")
		}
		labels = append(labels, "forwarded")
	}
	return labels
}

func checkAddressing(t failer, c pcase, req, r *wire.Parsed) {
	if r.SCION.SrcIA != req.SCION.DstIA || r.SCION.DstIA != req.SCION.SrcIA {
		t.Fatalf("%s: reply ISD-AS %v->%v, request %v->%v", describe(c), r.SCION.SrcIA, r.SCION.DstIA, req.SCION.SrcIA, req.SCION.DstIA)
	}
	if !bytes.Equal(r.SCION.RawSrcAddr, req.SCION.RawDstAddr) || !bytes.Equal(r.SCION.RawDstAddr, req.SCION.RawSrcAddr) ||
		r.SCION.SrcAddrType != req.SCION.DstAddrType || r.SCION.DstAddrType != req.SCION.SrcAddrType {
		t.Fatalf("%s: reply hosts %x->%x, request %x->%x", describe(c), r.SCION.RawSrcAddr, r.SCION.RawDstAddr, req.SCION.RawSrcAddr, req.SCION.RawDstAddr)
	}
	want, wantType, err := reversePath(req.SCION.Path)
	if err != nil {
		t.Fatalf("harness: cannot reverse path: %v", err)
	}
	got := make([]byte, r.SCION.Path.Len())
	if err := r.SCION.Path.SerializeTo(got); err != nil {
		t.Fatalf("reply path does not serialize: %v", err)
	}
	if r.SCION.Path.Type() != wantType || !bytes.Equal(got, want) {
		t.Fatalf("%s: reply path (type %d) %x is not the reversed request path (type %d) %x", describe(c), r.SCION.Path.Type(), got, wantType, want)
	}
}

func describe(c pcase) string {
	return fmt.Sprintf("%s via %s port, src %s dst %s, path %s %v@%d/%d, spao %s", c.Payload, c.Arrival, c.SrcFam, c.DstFam, c.Path.Kind, c.Path.SegLens, c.Path.CurrINF, c.Path.CurrHF, c.SPAO)
}

func genPath(t *rapid.T) wire.PathSpec {
	ps := wire.PathSpec{Seed: rapid.Uint64().Draw(t, "pathseed")}
	ps.Kind = rapid.SampledFrom([]string{"empty", "scion", "scion", "scion", "onehop", "epic"}).Draw(t, "pathkind")
	if ps.Kind == "scion" || ps.Kind == "epic" {
		ns := rapid.IntRange(1, 3).Draw(t, "nsegs")
		total := 0
		for i := 0; i < ns; i++ {
			l := rapid.OneOf(rapid.IntRange(1, 16), rapid.IntRange(1, 3)).Draw(t, "seglen")
			ps.SegLens = append(ps.SegLens, l)
			ps.ConsDir = append(ps.ConsDir, rapid.Bool().Draw(t, "consdir"))
			total += l
		}
		ps.CurrHF = rapid.OneOf(rapid.IntRange(0, total-1), rapid.Just(total-1), rapid.Just(0)).Draw(t, "currhf")
		acc := 0
		for i, l := range ps.SegLens {
			if ps.CurrHF < acc+l {
				ps.CurrINF = i
				break
			}
			acc += l
		}
	}
	return ps
}

var recProbe = ev.New("c13/listener-probes", "rapid: SCION packets built with slayers and sent from a harness 'previous hop' socket to the real SCION listener (service port and end-host port 30041, USE_MOCK_KEYS=true): payload {NTP request, SCMP echo (0..1200 data bytes), SCMP traceroute, UDP to another end-host port, UDP to port 30041}; SCION host addresses IPv4 / IPv6 / IPv4-mapped IPv6 on either side, arbitrary ISD-AS; path {empty, SCION with 1..3 segments x 1..16 hops at every CurrINF/CurrHF position, one-hop, EPIC-HP (a SCION path behind a packet id and two hop validation fields; the reply has to use the reversed SCION path, as the one-way EPIC header cannot be reversed)}; arbitrary L4 source port; hop-by-hop extension present or not; packet authenticator {absent, valid MAC, flipped MAC bit, the same two behind another authenticator option in the same extension (another party's SPI, the time service's SPI with another algorithm, or neither), flipped covered payload byte, flipped authenticator metadata bit, other SPI, server-direction SPI, other algorithm}. Each probe is followed by a sentinel on the same socket pair. Oracle: time-service authenticator whose recomputed MAC differs => no reply; valid => reply with server-direction authenticator that verifies; every reply returns to the previous hop with ISD-AS/host/port exchanged, path equal to an independently computed reversal, NTP transmit timestamp / SCMP identifier, sequence number and data echoed; forwarding exactly when received on the end-host port for a port != 30041, once, payload and addresses unchanged (also when the end-to-end extension is nearly as long as an extension can be: 1..4 options of 250 bytes); nothing ever reaches port 30041 of the destination host. Non-trivial: non-empty path, authenticator present, or the forwarding branch; distinct by case hash")

func TestPropListenerProbes(t *testing.T) {
	vt.Check(t, 2500, 25000, func(t *rapid.T) {
		c := pcase{
			Payload: rapid.SampledFrom([]string{"ntp", "ntp", "ntp", "echo", "traceroute", "udp-other-port", "udp-other-port", "udp-to-30041"}).Draw(t, "payload"),
			Arrival: rapid.SampledFrom([]string{"service", "endhost"}).Draw(t, "arrival"),
			SrcFam:  rapid.SampledFrom([]string{"v4", "v4", "v6", "v4-mapped"}).Draw(t, "srcfam"),
			DstFam:  rapid.SampledFrom([]string{"v4", "v4", "v6", "v4-mapped"}).Draw(t, "dstfam"),
			SrcIA:   rapid.Uint64().Draw(t, "srcia"), DstIA: rapid.Uint64().Draw(t, "dstia"),
			Path:    genPath(t),
			SrcPort: rapid.Uint16Range(1, 65535).Draw(t, "srcport"),
			SPAO:    rapid.SampledFrom([]string{"none", "none", "valid", "valid", "mac-bit", "covered-byte", "meta-bit", "other-spi", "server-spi", "other-algo", "l4-prefix", "second-valid", "second-mac-bit", "second-mac-bit"}).Draw(t, "spao"),
			Bit:     rapid.IntRange(0, 1<<16).Draw(t, "bit"),
			HBH:     rapid.IntRange(0, 4).Draw(t, "hbh") == 3,
			EchoLen: rapid.OneOf(rapid.IntRange(0, 1200), rapid.IntRange(0, 16)).Draw(t, "echolen"),
			ID:      rapid.Uint16().Draw(t, "id"), Seq: rapid.Uint16().Draw(t, "seq"),
			Fill: rapid.Uint64().Draw(t, "fill"),
			TC:   rapid.OneOf(rapid.Just(uint8(0)), rapid.Uint8()).Draw(t, "tc"),
			Flow: rapid.OneOf(rapid.Just(uint32(1)), rapid.Uint32Range(0, 1<<20-1)).Draw(t, "flow"),
		}
		if c.SPAO == "second-valid" || c.SPAO == "second-mac-bit" {
			c.Front = rapid.SampledFrom([]string{"", "", "same-spi-other-algo", "same-spi-other-algo", "other-spi-other-algo"}).Draw(t, "front")
		}
		if c.Payload != "ntp" && c.Payload[:3] != "udp" {
			c.SPAO = "none"
		}
		if c.Payload[:3] == "udp" {
			if c.EchoLen < 1 {
				c.EchoLen = 1
			}
			c.BigE2E = rapid.SampledFrom([]int{0, 0, 0, 1, 3, 4, 4}).Draw(t, "big-e2e")
			if c.SPAO != "none" && c.SPAO != "valid" {
				c.SPAO = "none"
			}
		}
		ls := checkCase(t, c)
		nt := c.Path.Kind != "empty" || c.SPAO != "none" || c.Payload[:3] == "udp"
		rec.eval(nt, c, ls)
	})
}

type recT struct{}

var rec recT

func (recT) eval(nt bool, c pcase, ls []string) {
	recProbe.Eval(nt, ev.Hash(fmt.Sprintf("%+v", c)), func() any { return c }, append(ls, "payload:"+c.Payload, "path:"+c.Path.Kind)...)
}

// ---------------------------------------------------------------- end to end: real client <-> relay <-> real server

type relayT struct {
	down, up *net.UDPConn
	mu       sync.Mutex
	mutReq   func([]byte) []byte
	mutRsp   func([]byte) []byte
	seenReq  [][]byte
	seenRsp  [][]byte
}

func newRelay() (*relayT, error) {
	down, err := net.ListenUDP("udp", netlab.UDPAddr(netlab.Addr(2), 0))
	if err != nil {
		return nil, err
	}
	up, err := net.DialUDP("udp", netlab.UDPAddr(netlab.Addr(2), 0), netlab.UDPAddr(srvIP, svcPort))
	if err != nil {
		return nil, err
	}
	r := &relayT{down: down, up: up}
	go func() {
		buf := make([]byte, 16384)
		for {
			n, from, err := down.ReadFromUDP(buf)
			if err != nil {
				return
			}
			d := bytes.Clone(buf[:n])
			r.mu.Lock()
			r.seenReq = append(r.seenReq, d)
			mq, mr := r.mutReq, r.mutRsp
			r.mu.Unlock()
			if mq != nil {
				d = mq(bytes.Clone(d))
			}
			up.SetReadDeadline(time.Now().Add(time.Millisecond))
			for {
				if _, err := up.Read(buf); err != nil {
					break
				}
			}
			up.Write(d)
			up.SetReadDeadline(time.Now().Add(150 * time.Millisecond))
			n, err = up.Read(buf)
			if err != nil {
				continue
			}
			rsp := bytes.Clone(buf[:n])
			r.mu.Lock()
			r.seenRsp = append(r.seenRsp, rsp)
			r.mu.Unlock()
			if mr != nil {
				rsp = mr(bytes.Clone(rsp))
			}
			if rsp != nil {
				down.WriteToUDP(rsp, from)
			}
		}
	}()
	return r, nil
}

var (
	relayOnce sync.Once
	relay     *relayT
	relayErr  error
)

var recE2E = ev.New("c13/end-to-end", "rapid: a real SCIONClient (packet authentication on/off, mock keys) measures over a generated path (empty or 1..3 segments) through a harness relay acting as border router against the real SCION listener; the relay passes datagrams unchanged or flips one covered byte of the request / of the reply, or strips the reply's authenticator, or inserts a forged UDP datagram in front of the authentic reply's, or re-serializes the reply behind a hop-by-hop extension with one covered byte changed. Oracle: unchanged => success and, with authentication on, the request's authenticator verifies and the reply carries a server-direction authenticator that verifies (recomputed by the harness); a flipped covered byte of an authenticated request => no reply and client error; a flipped covered byte of an authenticated reply => client error, never an offset. One evaluation = one client call. Non-trivial: authentication on with a tampered datagram, or a non-empty path")

func TestPropEndToEnd(t *testing.T) {
	relayOnce.Do(func() { relay, relayErr = newRelay() })
	if relayErr != nil {
		vt.Inconclusive(t, "cannot start relay: %v", relayErr)
	}
	vt.Check(t, 300, 3000, func(t *rapid.T) {
		authOn := rapid.Bool().Draw(t, "client-auth")
		tamper := rapid.SampledFrom([]string{"none", "none", "request-byte", "reply-byte", "reply-byte", "reply-l4-prefix", "reply-hbh-flip", "reply-second-authenticator"}).Draw(t, "tamper")
		ps := genPath(t)
		if ps.Kind == "onehop" {
			ps.Kind = "empty"
		}
		if ps.Kind == "epic" { // the project's client does not build EPIC paths
			ps.Kind = "scion"
		}
		bit := rapid.IntRange(0, 1<<16).Draw(t, "bit")
		c := &client.SCIONClient{Log: slog.New(slog.NewTextHandler(io.Discard, nil))}
		c.DSCP = rapid.OneOf(rapid.Just(uint8(0)), rapid.Uint8Range(0, 63)).Draw(t, "dscp")
		if authOn {
			c.Auth.Enabled = true
			c.Auth.DRKeyFetcher = scion.NewFetcher(nil)
		}
		lIA, rIA := ia(1, 0xff0000000110), ia(2, 0xff0000000220)
		if ps.Kind == "empty" {
			rIA = lIA
		}
		sp, err := ps.SnetPath(lIA, rIA, relay.down.LocalAddr().(*net.UDPAddr), []snet.PathInterface{{ID: 1, IA: lIA}, {ID: 2, IA: rIA}})
		if err != nil {
			t.Fatalf("harness: %v", err)
		}
		flip := func(b []byte) []byte {
			// a byte of the NTP payload (always covered): poll/precision/root fields, never the timestamps' validity
			if len(b) < 48 {
				return b
			}
			b[len(b)-48+2+(bit/8)%14] ^= 1 << (bit % 8)
			return b
		}
		relay.mu.Lock()
		relay.seenReq, relay.seenRsp, relay.mutReq, relay.mutRsp = nil, nil, nil, nil
		if !authOn && (tamper == "reply-l4-prefix" || tamper == "reply-hbh-flip" || tamper == "reply-second-authenticator") {
			tamper = "none" // these are about what the authenticator covers
		}
		switch tamper {
		case "request-byte":
			relay.mutReq = flip
		case "reply-byte":
			relay.mutRsp = flip
		case "reply-l4-prefix":
			// the authentic reply with a forged UDP datagram (server timestamps 1000 s ahead) inserted in front of the genuine one
			relay.mutRsp = func(b []byte) []byte {
				p, err := wire.Parse(b)
				if err != nil || !p.IsUDP || len(p.UDP.Payload) < 48 {
					return b
				}
				l4 := len(b) - len(p.L4Bytes)
				forged := bytes.Clone(b[l4:])
				forged[6], forged[7] = 0, 0
				for _, o := range []int{8 + 32, 8 + 40} {
					binary.BigEndian.PutUint32(forged[o:], binary.BigEndian.Uint32(forged[o:])+1000)
				}
				out := append(append(bytes.Clone(b[:l4]), forged...), b[l4:]...)
				binary.BigEndian.PutUint16(out[6:], binary.BigEndian.Uint16(out[6:])+uint16(len(forged)))
				return out
			}
		case "reply-second-authenticator":
			// the reply re-serialized with another authenticator option (another party's SPI, or the time service's SPI with another algorithm) in front of the genuine one
			// in the same extension, and one covered payload byte changed
			relay.mutRsp = func(b []byte) []byte {
				p, err := wire.Parse(b)
				if err != nil || !p.IsUDP || !p.HasE2E || len(p.UDP.Payload) < 48 {
					return b
				}
				src, _ := p.SrcAddr()
				dst, _ := p.DstAddr()
				// (other SPI, or - every third time - the server's own SPI with another algorithm)
				ospi, oalgo := scion.PacketAuthSPIServer^(1<<uint(bit%16)), uint8(scion.PacketAuthAlgorithm)
				if bit%3 == 0 {
					ospi, oalgo = scion.PacketAuthSPIServer, uint8(1+bit%200)
				}
				other := wire.NewAuthOpt(ospi, oalgo)
				for i := 12; i < len(other.OptData); i++ {
					other.OptData[i] = byte(bit>>uint(i%7)) ^ byte(i)
				}
				out := wire.Pkt{SrcIA: p.SCION.SrcIA, DstIA: p.SCION.DstIA, Src: src, Dst: dst, Path: p.SCION.Path, SrcPort: p.UDP.SrcPort, DstPort: p.UDP.DstPort,
					Payload: flip(bytes.Clone(p.UDP.Payload)), E2E: append([]*slayers.EndToEndOption{other}, p.E2E.Options...), TrafficClass: p.SCION.TrafficClass, FlowID: p.SCION.FlowID}
				raw, err := out.Serialize(nil, nil)
				if err != nil {
					return b
				}
				return raw
			}
		case "reply-hbh-flip":
			// the reply re-serialized with a hop-by-hop extension in front of the end-to-end extension (authenticator
			// option and MAC as they were) and one covered payload byte changed
			relay.mutRsp = func(b []byte) []byte {
				p, err := wire.Parse(b)
				if err != nil || !p.IsUDP || !p.HasE2E || len(p.UDP.Payload) < 48 {
					return b
				}
				src, _ := p.SrcAddr()
				dst, _ := p.DstAddr()
				out := wire.Pkt{SrcIA: p.SCION.SrcIA, DstIA: p.SCION.DstIA, Src: src, Dst: dst, Path: p.SCION.Path, SrcPort: p.UDP.SrcPort, DstPort: p.UDP.DstPort,
					Payload: flip(bytes.Clone(p.UDP.Payload)), HBH: true, E2E: p.E2E.Options, TrafficClass: p.SCION.TrafficClass, FlowID: p.SCION.FlowID}
				raw, err := out.Serialize(nil, nil)
				if err != nil {
					return b
				}
				return raw
			}
		}
		relay.mu.Unlock()
		dl := 250 * time.Millisecond
		if tamper == "none" {
			dl = 2 * time.Second
		}
		ctx, cancel := context.WithTimeout(context.Background(), dl)
		local := udp.UDPAddr{IA: lIA, Host: netlab.UDPAddr(netlab.Addr(1), 0)}
		remote := udp.UDPAddr{IA: rIA, Host: netlab.UDPAddr(srvIP, svcPort)}
		_, off, merr := client.MeasureClockOffsetSCION(ctx, c.Log, []*client.SCIONClient{c}, local, remote, []snet.Path{sp})
		cancel()
		time.Sleep(2 * time.Millisecond)
		relay.mu.Lock()
		reqs, rsps := relay.seenReq, relay.seenRsp
		relay.mu.Unlock()
		if len(reqs) == 0 {
			t.Fatalf("the client sent nothing to the path's next hop (err %v)", merr)
		}
		rq, perr := wire.Parse(reqs[0])
		if perr != nil {
			t.Fatalf("client request does not parse: %v", perr)
		}
		present, spi, algo, ok, verr := rq.VerifySPAO(zeroKey)
		if authOn && (!present || spi != scion.PacketAuthSPIClient || algo != scion.PacketAuthAlgorithm || !ok || verr != nil) {
			t.Fatalf("client with authentication on sent a request whose authenticator is present=%v spi=%#x algo=%d verifies=%v err=%v", present, spi, algo, ok, verr)
		}
		if !authOn && present {
			t.Fatalf("client with authentication off sent an authenticator")
		}
		switch {
		case tamper == "none":
			if merr != nil {
				t.Fatalf("untampered exchange failed (auth=%v path=%+v): %v", authOn, ps, merr)
			}
			if off > time.Second || off < -time.Second {
				t.Fatalf("offset %v between two clocks of the same machine", off)
			}
			if len(rsps) == 0 {
				t.Fatalf("success without a reply seen by the relay")
			}
			rp, perr := wire.Parse(rsps[0])
			if perr != nil {
				t.Fatalf("server reply does not parse: %v", perr)
			}
			if authOn {
				p2, spi2, algo2, ok2, err2 := rp.VerifySPAO(zeroKey)
				if !p2 || spi2 != scion.PacketAuthSPIServer || algo2 != scion.PacketAuthAlgorithm || !ok2 || err2 != nil {
					t.Fatalf("reply to an authenticated request: authenticator present=%v spi=%#x algo=%d verifies=%v err=%v", p2, spi2, algo2, ok2, err2)
				}
			}
		case authOn && tamper == "request-byte":
			if len(rsps) != 0 {
				t.Fatalf("the listener answered a request whose covered byte was changed after authentication")
			}
			if merr == nil {
				t.Fatalf("client reported an offset although no reply was delivered")
			}
		case authOn && (tamper == "reply-byte" || tamper == "reply-l4-prefix" || tamper == "reply-hbh-flip" || tamper == "reply-second-authenticator"):
			if merr == nil {
				t.Fatalf("client accepted a reply whose covered byte was changed after the server authenticated it (offset %v)", off)
			}
		}
		nt := (authOn && tamper != "none") || ps.Kind != "empty"
		recE2E.Eval(nt, ev.Hash(authOn, tamper, fmt.Sprintf("%+v", ps), bit), func() any {
			return map[string]any{"client_auth": authOn, "tamper": tamper, "path": ps, "error": fmt.Sprint(merr), "request": hex.EncodeToString(reqs[0][:min(len(reqs[0]), 96)])}
		}, "auth="+fmt.Sprint(authOn), "tamper="+tamper, "path:"+ps.Kind)
	})
}
