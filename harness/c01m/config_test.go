package main

// The configuration layer in front of the synchronization loop (package main of the repository, laid over this
// package by the driver: timeservice.go cannot be imported). "Settings that would void the bound (a factor <= 1,
// peer factor not exceeding the reference factor by more than 1, non-positive interval, timeout above half the
// interval) are refused at start-up" - as the service starts up: svcConfig -> syncConfig -> sync.Run.

import (
	"context"
	"fmt"
	"io"
	"log/slog"
	"math"
	"os"
	"os/exec"
	"runtime"
	"strconv"
	"strings"
	"sync"
	"testing"
	"testing/synctest"
	"time"

	"github.com/prometheus/client_golang/prometheus"
	"pgregory.net/rapid"

	"example.com/scion-time/core/client"
	rsync "example.com/scion-time/core/sync"
	"example.com/scion-time/driver/clocks"

	"verif/internal/ev"
	"verif/internal/vt"
)

func TestMain(m *testing.M) { vt.Main(m) }

type cfgCase struct {
	R, P, Cutoff, Timeout, Interval float64
	Offset                          int64
}

type cfgWorld struct {
	mu     sync.Mutex
	events []string
	vals   []int64
}

func (w *cfgWorld) add(k string, v int64) {
	w.mu.Lock()
	w.events, w.vals = append(w.events, k), append(w.vals, v)
	w.mu.Unlock()
}

type cfgClk struct{ w *cfgWorld }

func (c *cfgClk) Epoch() uint64                        { return 0 }
func (c *cfgClk) Now() time.Time                       { return time.Now() }
func (c *cfgClk) Drift(d time.Duration) time.Duration  { return max(d/1000, 1) } // 1 ms/s
func (c *cfgClk) Step(time.Duration)                   {}
func (c *cfgClk) Adjust(_, _ time.Duration, _ float64) {}
func (c *cfgClk) Sleep(d time.Duration) {
	c.w.add("sleep", int64(d))
	runtime.Goexit() // one round is enough
}

type cfgAdj struct{ w *cfgWorld }

func (a cfgAdj) Do(off time.Duration) { a.w.add("do", int64(off)) }

type cfgSrc struct{ off int64 }

func (s cfgSrc) MeasureClockOffset(ctx context.Context) (time.Time, time.Duration, error) {
	return time.Now(), time.Duration(s.off), nil
}

var recCfg = ev.New("c01/config-layer", "rapid: service configurations (reference and peer impact factor, cutoff, timeout, interval as the TOML floats they are: unset (0), valid, and inadmissible values - factors <= 1 including negative ones, peer factor too close to the reference factor, zero/negative/NaN interval, timeout above half the interval or negative) mapped by the service's own syncConfig and handed to the real sync.Run (synctest bubble, scripted clock with a drift of 1 ms/s, one reference clock reporting a large offset, recording discipline). Oracle: a setting left unset takes its documented default; the effective settings are then either admissible - Run performs its round and the correction respects the bound of the *effective* settings - or they are not, and Run refuses at start-up before any actuation. In particular a configured value that is not admissible must not silently turn into a default. One evaluation = one configuration. Non-trivial: configuration with at least one explicitly configured inadmissible value; distinct by configuration")

func TestPropConfigLayer(t *testing.T) {
	fac := rapid.OneOf(rapid.Just(0.0), rapid.Float64Range(1.0001, 10), rapid.SampledFrom([]float64{0, 1.25, 2.5, 1, 0.5, -1.25, -2.5, -1e-9, math.NaN(), math.Inf(-1)}))
	vt.Check(t, 2000, 20000, func(t *rapid.T) {
		c := cfgCase{
			R:        fac.Draw(t, "reference_clock_impact"),
			P:        fac.Draw(t, "peer_clock_impact"),
			Cutoff:   rapid.SampledFrom([]float64{0, 50e-6, 1e-3, -1e-3}).Draw(t, "peer_clock_cutoff"),
			Interval: rapid.OneOf(rapid.Just(0.0), rapid.Float64Range(0.001, 16), rapid.SampledFrom([]float64{0, 1, 0.25, -0.25, -1, -1e-9, math.NaN()})).Draw(t, "sync_interval"),
			Offset:   rapid.SampledFrom([]int64{int64(time.Hour), -int64(time.Hour), int64(time.Second), 1000, math.MaxInt64, math.MinInt64}).Draw(t, "reported-offset"),
		}
		c.Timeout = rapid.OneOf(rapid.Just(0.0), rapid.Float64Range(0, 8), rapid.SampledFrom([]float64{0, 0.5, 0.1, -0.1, 100})).Draw(t, "sync_timeout")
		if c.R > 1 && rapid.Bool().Draw(t, "p-from-r") {
			c.P = c.R + rapid.SampledFrom([]float64{1.5, 1.0001, 1, 0.5}).Draw(t, "p-gap")
		}
		// the effective settings by the documented rule: unset (exactly 0) => default
		eff := c
		explicitBad := false
		def := func(v *float64, d float64) {
			if *v == 0 {
				*v = d
			}
		}
		def(&eff.R, 1.25)
		def(&eff.P, 2.5)
		def(&eff.Cutoff, 50e-6)
		def(&eff.Timeout, 0.5)
		def(&eff.Interval, 1.0)
		toD := func(s float64) float64 { return s * 1e9 } // seconds -> ns, as float (the conversion truncates)
		admissible := eff.R > 1 && eff.P > 1 && eff.P-1 > eff.R && toD(eff.Interval) >= 1 && toD(eff.Timeout) >= 0 && math.Trunc(toD(eff.Timeout)) <= math.Trunc(math.Trunc(toD(eff.Interval))/2)
		if math.IsNaN(eff.Interval) || math.IsNaN(eff.R) || math.IsNaN(eff.P) {
			admissible = false
		}
		for _, v := range []float64{c.R, c.P} {
			if v != 0 && !(v > 1) {
				explicitBad = true
			}
		}
		if c.Interval != 0 && !(c.Interval > 0) {
			explicitBad = true
		}
		// borderline conversions (sub-nanosecond values, timeouts within a nanosecond of half the interval) are not judged
		if (eff.Interval > 0 && toD(eff.Interval) < 2) || (toD(eff.Timeout) != toD(eff.Interval)/2 && math.Abs(toD(eff.Timeout)-toD(eff.Interval)/2) < 2) || (eff.Timeout != 0 && math.Abs(toD(eff.Timeout)) < 1) || math.Abs(eff.P-1-eff.R) < 1e-9 {
			recCfg.Label("borderline-not-judged")
			return
		}
		svc := svcConfig{ReferenceClockImpact: c.R, PeerClockImpact: c.P, PeerClockCutoff: c.Cutoff, SyncTimeout: c.Timeout, SyncInterval: c.Interval}
		w := &cfgWorld{}
		var panicked any
		var mu sync.Mutex
		func() {
			defer func() {
				if r := recover(); r != nil {
					mu.Lock()
					panicked = fmt.Sprintf("bubble: %v", r)
					mu.Unlock()
				}
			}()
			synctest.Run(func() {
				prometheus.DefaultRegisterer = prometheus.NewRegistry()
				done := make(chan struct{})
				go func() {
					defer close(done)
					defer func() {
						r := recover()
						mu.Lock()
						panicked = r
						mu.Unlock()
					}()
					cfg := syncConfig(svc)
					rsync.Run(slog.New(slog.NewTextHandler(io.Discard, nil)), cfg, &cfgClk{w}, cfgAdj{w}, []client.ReferenceClock{cfgSrc{c.Offset}}, nil)
				}()
				<-done
			})
		}()
		mu.Lock()
		pn := panicked
		mu.Unlock()
		w.mu.Lock()
		defer w.mu.Unlock()
		if !admissible {
			if pn == nil {
				t.Fatalf("configuration %+v (effective %+v) is not admissible but the service started and handed %v to the clock discipline", c, eff, w.vals)
			}
			if len(w.events) != 0 {
				t.Fatalf("configuration %+v refused only after %v", c, w.events)
			}
		} else {
			if pn != nil {
				t.Fatalf("admissible configuration %+v (effective %+v) was refused: %v", c, eff, pn)
			}
			if len(w.events) != 2 || w.events[0] != "do" || w.events[1] != "sleep" {
				t.Fatalf("admissible configuration %+v: events %v", c, w.events)
			}
			drift := math.Max(math.Trunc(math.Trunc(toD(eff.Interval))/1000), 1)
			if bound := eff.R * drift; math.Abs(float64(w.vals[0])) > bound*(1+1e-9)+1 {
				t.Fatalf("configuration %+v (effective %+v): correction %d exceeds %g", c, eff, w.vals[0], bound)
			}
			if got := float64(w.vals[1]); math.Abs(got-math.Trunc(toD(eff.Interval))) > 1 {
				t.Fatalf("configuration %+v: the loop sleeps %v, the effective interval is %v s", c, time.Duration(w.vals[1]), eff.Interval)
			}
		}
		var ls []string
		if explicitBad {
			ls = append(ls, "explicit-inadmissible-value")
		}
		if !admissible {
			ls = append(ls, "refused")
		}
		recCfg.Eval(explicitBad, ev.Hash(fmt.Sprint(c)), func() any { return fmt.Sprintf("%+v", c) }, ls...)
	})
}

// ---------------------------------------------------------------- configured drift

// The service turns `clock_drift` (seconds per second, a TOML float) into the drift the system clock reports, which
// in turn gives the bound. A value the service cannot represent must be refused (the service's refusal is a fatal
// log line and exit, so the conversion runs in a child process), not silently turned into "drift unknown", which
// makes the bound infinite.

var recDriftCfg = ev.New("c01/configured-drift", "rapid: clock_drift values from 1e-13 to 1 s/s (dense below, at and above 1e-9, the resolution of the internal representation) run through the service's own clockDrift and clocks.NewSystemClock in a child process. Oracle: the service either refuses the value at start-up (admissible only below 2e-9, where the value cannot be represented to within a factor of two) or the clock's drift allowance over 1000 s is finite and within 1000 ns + 1e-9 relative of value x 1000 s. One evaluation = one value. Non-trivial: value below 1e-8; distinct by value")

func TestPropConfiguredDrift(t *testing.T) {
	exe, err := os.Executable()
	if err != nil {
		vt.Inconclusive(t, "executable: %v", err)
	}
	vt.Check(t, 150, 1500, func(t *rapid.T) {
		v := rapid.OneOf(rapid.Float64Range(1e-13, 1e-8), rapid.Float64Range(1e-9, 1e-3), rapid.SampledFrom([]float64{5e-10, 9.99e-10, 1e-9, 1.5e-9, 1e-12, 1e-6, 250e-6, 1}), rapid.Float64Range(1e-10, 3e-9)).Draw(t, "clock_drift")
		cmd := exec.Command(exe, "-test.run", "^TestMain$")
		cmd.Env = append(os.Environ(), "VERIF_C01M_DRIFT="+strconv.FormatFloat(v, 'g', -1, 64))
		out, err := cmd.CombinedOutput()
		refused := err != nil
		label := "accepted"
		if refused {
			label = "refused"
			if v >= 2e-9 {
				t.Fatalf("clock_drift = %g was refused at start-up: %s", v, lastLine(out))
			}
		} else {
			var d1000 int64
			if _, err := fmt.Sscanf(lastLine(out), "DRIFT %d", &d1000); err != nil {
				t.Fatalf("harness: child output %q", out)
			}
			want := v * 1000 * 1e9
			if d1000 == math.MaxInt64 || math.Abs(float64(d1000)-want) > 1000+want*1e-9 {
				t.Fatalf("clock_drift = %g s/s was accepted, but the clock's drift allowance over 1000 s is %d ns (expected about %.0f ns): the per-round bound derived from it is not the configured one", v, d1000, want)
			}
		}
		recDriftCfg.Eval(v < 1e-8, ev.Hash(math.Float64bits(v)), func() any { return map[string]any{"clock_drift": v, "outcome": label} }, label)
	})
}

func lastLine(b []byte) string {
	ls := strings.Split(strings.TrimSpace(string(b)), "\n")
	return ls[len(ls)-1]
}

func init() {
	if s := os.Getenv("VERIF_C01M_DRIFT"); s != "" {
		v, _ := strconv.ParseFloat(s, 64)
		d := clockDrift(svcConfig{ClockDrift: v})
		clk := clocks.NewSystemClock(slog.New(slog.NewTextHandler(io.Discard, nil)), d)
		fmt.Printf("DRIFT %d\n", int64(clk.Drift(1000*time.Second)))
		os.Exit(0)
	}
}
