package c03

// SCION transport for the C03 state machine: a harness "border router + server"
// front unwraps the client's SCION packets, passes the NTP payload to the same
// NTP server model (so every fault plan applies) and wraps whatever the model
// sends back into SCION replies.

import (
	"context"
	"fmt"
	"io"
	"log/slog"
	"net"
	"strings"
	"sync"
	"testing"
	"time"

	"github.com/scionproto/scion/pkg/addr"
	"github.com/scionproto/scion/pkg/snet"
	"pgregory.net/rapid"

	"example.com/scion-time/core/client"
	"example.com/scion-time/net/udp"

	"verif/internal/ev"
	"verif/internal/netlab"
	"verif/internal/vt"
	"verif/internal/wire"
)

type scionFront struct {
	down *net.UDPConn // the path's next hop
	up   *net.UDPConn // towards the NTP server model
	mu   sync.Mutex
}

func newFront(model *net.UDPAddr, port int) (*scionFront, error) {
	down, err := net.ListenUDP("udp", netlab.UDPAddr(netlab.Addr(3), port))
	if err != nil {
		return nil, err
	}
	up, err := net.DialUDP("udp", netlab.UDPAddr(netlab.Addr(1), 0), model)
	if err != nil {
		return nil, err
	}
	f := &scionFront{down: down, up: up}
	go f.loop()
	return f, nil
}

func (f *scionFront) loop() {
	buf := make([]byte, 16384)
	for {
		n, from, err := f.down.ReadFromUDP(buf)
		if err != nil {
			return
		}
		p, err := wire.Parse(buf[:n])
		if err != nil || !p.IsUDP {
			continue
		}
		// stale answers of an earlier exchange are not forwarded into this one
		f.up.SetReadDeadline(time.Now().Add(50 * time.Microsecond))
		for {
			if _, err := f.up.Read(buf); err != nil {
				break
			}
		}
		f.up.Write(p.UDP.Payload)
		rev, err := p.SCION.Path.Reverse()
		if err != nil {
			continue
		}
		src, _ := p.SrcAddr()
		dst, _ := p.DstAddr()
		// relay every datagram the model sends for this request (duplicates, stale ones, delayed ones)
		deadline := time.Now().Add(60 * time.Millisecond)
		first := true
		for {
			f.up.SetReadDeadline(deadline)
			m, err := f.up.Read(buf)
			if err != nil {
				break
			}
			out := wire.Pkt{SrcIA: p.SCION.DstIA, DstIA: p.SCION.SrcIA, Src: dst, Dst: src, Path: rev, SrcPort: p.UDP.DstPort, DstPort: p.UDP.SrcPort, Payload: append([]byte(nil), buf[:m]...)}
			raw, err := out.Serialize(nil, nil)
			if err != nil {
				continue
			}
			f.down.WriteToUDP(raw, from)
			if first {
				first = false
				deadline = time.Now().Add(3 * time.Millisecond) // short grace period for a duplicate
			}
		}
	}
}

var (
	frontOnce sync.Once
	frontA    *scionFront
	frontErr  error
)

var recSC = ev.New("c03/scion-client", "as c03/ip-client for the real SCIONClient: MeasureClockOffsetSCION over a generated SCION path whose next hop is a harness front that unwraps the request, hands the NTP payload to the same server model (faults: none, drop request, drop response, duplicate reply, stale reply first, delayed reply; per-request clock offsets >= 2 s apart) and wraps the model's datagrams into SCION replies over the reversed path. Same oracle (envelope of the exchange the result must describe, logged offset, |off-theta| <= rtd/2 + 4 ns with kernel timestamps, interleaved state). One evaluation = one client call. Non-trivial: accepted interleaved reply or accepted reply after a faulty exchange")

func TestPropSCIONClient(t *testing.T) {
	frontOnce.Do(func() { frontA, frontErr = newFront(addrA, 13901) })
	if frontErr != nil {
		vt.Inconclusive(t, "cannot start SCION front: %v", frontErr)
	}
	lIA, rIA := addr.MustIAFrom(1, 0xff0000000110), addr.MustIAFrom(2, 0xff0000000220)
	vt.Check(t, 160, 1600, func(t *rapid.T) {
		capt := &netlab.Capture{}
		c := &client.SCIONClient{Log: capt.Logger(), InterleavedMode: rapid.IntRange(0, 3).Draw(t, "interleaved") > 0}
		ps := wire.PathSpec{Kind: rapid.SampledFrom([]string{"scion", "scion", "empty"}).Draw(t, "pathkind"), SegLens: []int{2, 2}, ConsDir: []bool{true, false}, Seed: 77}
		r := rIA
		if ps.Kind == "empty" {
			r = lIA
		}
		sp, err := ps.SnetPath(lIA, r, frontA.down.LocalAddr().(*net.UDPAddr), []snet.PathInterface{{ID: 1, IA: lIA}, {ID: 2, IA: r}})
		if err != nil {
			t.Fatalf("harness: %v", err)
		}
		local := udp.UDPAddr{IA: lIA, Host: netlab.UDPAddr(netlab.Addr(1), 0)}
		local.Host.Zone = rapid.SampledFrom([]string{"", "", "", "lo"}).Draw(t, "zone") // "lo": hardware timestamps only, i.e. none
		remote := udp.UDPAddr{IA: r, Host: netlab.UDPAddr(netlab.Addr(0), 10123)}
		srvA.Forget()
		srvA.ClearPlans()
		srvA.Take()
		srvA.SetDepth(rapid.SampledFrom([]int{1, 1, 2, 0}).Draw(t, "server-memory-depth"))
		type callInfoS struct {
			a, b     time.Time
			fallback bool
		}
		meta := map[*netlab.Exchange]*callInfoS{}
		var log []string
		labels := map[string]int{}
		faultSeen := false
		var stale []byte
		ncalls := rapid.IntRange(1, 8).Draw(t, "calls")
		for k := 0; k < ncalls; k++ {
			faults := rapid.SliceOfN(rapid.SampledFrom([]string{"none", "none", "none", "none", "none", "drop-request", "drop-response", "drop-response", "duplicate", "stale-first", "delayed", "force-basic", "snap-rx", "snap-tx", "snap-both", "stale-twice", "unsynchronized", "kiss-of-death"}), 3, 3).Draw(t, "faults")
			if rapid.IntRange(0, 5).Draw(t, "scenario") == 0 {
				faults = []string{"none", rapid.SampledFrom([]string{"drop-response", "drop-request", "stale-twice", "unsynchronized", "kiss-of-death"}).Draw(t, "failing"), rapid.SampledFrom([]string{"stale-first", "stale-twice"}).Draw(t, "late")}
				if rapid.Bool().Draw(t, "scenario-shift") {
					faults = []string{faults[1], faults[2], "none"}
				}
			}
			// an interleaved request answered in basic mode (a conformant server may always do that): constructed, since
			// it needs a client in interleaved mode, an earlier accepted exchange and the fault on the next one
			if c.InterleavedMode && rapid.IntRange(0, 4).Draw(t, "basic-reply-scenario") == 0 {
				faults = []string{"none", "force-basic", rapid.SampledFrom([]string{"none", "force-basic"}).Draw(t, "then")}
			}
			var plans []netlab.Plan
			for _, fl := range faults {
				p := netlab.Plan{Theta: nextTheta(t)}
				switch fl {
				case "drop-request":
					p.DropRequest = true
				case "drop-response":
					p.Outs = func(ex *netlab.Exchange) []netlab.Out { return nil }
				case "duplicate":
					p.Outs = func(ex *netlab.Exchange) []netlab.Out { return []netlab.Out{{Data: ex.Genuine}, {Data: ex.Genuine}} }
				case "stale-first":
					st := stale
					p.Outs = func(ex *netlab.Exchange) []netlab.Out {
						st := st
						if ex.PrevGenuine != nil {
							st = ex.PrevGenuine // the reply to the request just before this one, possibly of the same call
						}
						if st == nil {
							return []netlab.Out{{Data: ex.Genuine}}
						}
						return []netlab.Out{{Data: st}, {Data: ex.Genuine}}
					}
				case "stale-twice":
					st := stale
					p.Outs = func(ex *netlab.Exchange) []netlab.Out {
						st := st
						if ex.PrevGenuine != nil {
							st = ex.PrevGenuine
						}
						if st == nil {
							return []netlab.Out{{Data: ex.Genuine}}
						}
						return []netlab.Out{{Data: st}, {Data: st}, {Data: ex.Genuine}}
					}
				case "unsynchronized", "kiss-of-death":
					kind := fl
					p.Outs = func(ex *netlab.Exchange) []netlab.Out {
						d := append([]byte(nil), ex.Genuine...)
						if kind == "unsynchronized" {
							d[0] |= 0xc0
						} else {
							d[1] = 0
							copy(d[12:16], "RATE")
						}
						return []netlab.Out{{Data: d}}
					}
				case "delayed":
					p.Delay = time.Duration(rapid.Int64Range(1, 15).Draw(t, "delay-ms")) * time.Millisecond
				case "force-basic":
					p.ForceBasic = true
				case "snap-rx", "snap-tx", "snap-both":
					p.Snap = fl[5:]
					p.SnapFrac = rapid.OneOf(rapid.SampledFrom([]uint32{0, 0, 0, 1, 0xffffffff, 0x80000000, 0x7fffffff}), rapid.Uint32()).Draw(t, "snap-frac")
				}
				plans = append(plans, p)
			}
			srvA.ClearPlans()
			srvA.Push(plans...)
			srvA.SetDefault(netlab.Plan{Theta: nextTheta(t)})
			capt.Take()
			ci := &callInfoS{}
			ctx, cancel := context.WithTimeout(context.Background(), time.Duration(rapid.IntRange(60, 110).Draw(t, "deadline-ms"))*time.Millisecond)
			ci.a = netlab.Now()
			ts, off, merr := client.MeasureClockOffsetSCION(ctx, c.Log, []*client.SCIONClient{c}, local, remote, []snet.Path{sp})
			ci.b = netlab.Now()
			cancel()
			time.Sleep(4 * time.Millisecond)
			srvA.WaitIdle()
			var evaluated []netlab.Record
			for _, r := range capt.Take() {
				if strings.Contains(r.Msg, "failed to read packet tx timestamp") || strings.Contains(r.Msg, "failed to read packet rx timestamp") {
					labels["timestamp-fallback"]++
				}
				if r.Msg == "evaluated response" {
					evaluated = append(evaluated, r)
				}
			}
			exs := srvA.Take()
			clean := len(exs) > 0
			for i, ex := range exs {
				meta[ex] = ci
				if ex.Genuine != nil {
					stale = ex.Genuine
				}
				if i < len(faults) && faults[i] != "none" {
					labels["plan:"+faults[i]]++
				}
				if i < len(faults) && realFault(faults[i]) {
					clean = false
					faultSeen = true
				}
			}
			log = append(log, fmt.Sprintf("call faults=%v requests=%d err=%v off=%v", faults, len(exs), merr, off))
			for _, ex := range exs {
				cs := 0
				if ex.Cited != nil {
					cs = ex.Cited.Seq
				}
				log = append(log, fmt.Sprintf("   model #%d req(org=%v rx=%v tx=%v) -> rx=%v tx=%v interleaved=%v cited=#%d dropped=%v sent=%d", ex.Seq, ex.Req.OriginTime, ex.Req.ReceiveTime, ex.Req.TransmitTime, ex.Rx64, ex.Tx64, ex.Interleaved, cs, ex.Dropped, len(ex.Sent)))
			}
			if merr != nil {
				if clean {
					ok := false
					for i := 0; i < 3 && !ok; i++ {
						srvA.ClearPlans()
						ctx, cancel := context.WithTimeout(context.Background(), time.Second)
						_, _, e2 := client.MeasureClockOffsetSCION(ctx, c.Log, []*client.SCIONClient{c}, local, remote, []snet.Path{sp})
						cancel()
						time.Sleep(4 * time.Millisecond)
						for _, ex := range srvA.Take() {
							meta[ex] = &callInfoS{a: ci.a, b: netlab.Now(), fallback: true}
						}
						ok = e2 == nil
					}
					if !ok {
						t.Fatalf("fault-free SCION exchange with a conformant server fails repeatedly: %v (log %v)", merr, log)
					}
				}
				continue
			}
			var matched *netlab.Exchange
			var vias []*netlab.Exchange
			var why []string
			for _, ex := range exs {
				if ex.Dropped || !delivered(ex) {
					continue
				}
				j := ex
				if ex.Interleaved {
					j = ex.Cited
				}
				mj := meta[j]
				if mj == nil {
					continue
				}
				mid := j.R.Add(j.S.Sub(j.R) / 2)
				lo, hi := mid.Sub(mj.b)+j.Theta-4, mid.Sub(mj.a)+j.Theta+4
				if off >= lo && off <= hi {
					matched = j
					vias = append(vias, ex)
				} else {
					why = append(why, fmt.Sprintf("exchange %v (via %v): envelope [%v, %v]", j, ex, lo, hi))
				}
			}
			if matched == nil {
				t.Fatalf("reported offset %v is not within half the round-trip delay of the true offset of any exchange it could have been computed from: %v; log %v", off, why, log)
			}
			if len(evaluated) > 0 {
				last := evaluated[len(evaluated)-1]
				if lo, ok := last.Attrs["clock offset"]; ok && lo.Kind() == slog.KindDuration && lo.Duration() != off {
					t.Fatalf("returned offset %v differs from the evaluated one %v", off, lo.Duration())
				}
				if rtd, ok := last.Attrs["round trip delay"]; ok && rtd.Kind() == slog.KindDuration && !meta[matched].fallback && !ci.fallback {
					d := off - matched.Theta
					if d < 0 {
						d = -d
					}
					if d > rtd.Duration()/2+4 {
						t.Fatalf("|offset - true offset| = %v exceeds half the round-trip delay %v/2 (exchange %v; log %v)", d, rtd.Duration(), matched, log)
					}
					labels["tight-bound-checked"]++
				}
			}
			via, bad := resolveVia(vias, evaluated)
			if bad != "" {
				t.Fatalf("%s (log %v)", bad, log)
			}
			if via == nil {
				labels["reply-kind-ambiguous"]++
			} else if via.Interleaved {
				labels["accepted-interleaved"]++
				if !c.InInterleavedMode() {
					t.Fatalf("an interleaved reply was accepted but the client does not report interleaved mode")
				}
			} else if c.InInterleavedMode() {
				t.Fatalf("client reports interleaved mode after accepting a basic reply")
			}
			if faultSeen {
				labels["accepted-after-fault"]++
			}
			if ts.Before(ci.a.Add(-time.Microsecond)) || ts.After(ci.b.Add(time.Microsecond)) {
				t.Fatalf("returned timestamp %v outside the call window", ts)
			}
		}
		var ls []string
		for l := range labels {
			ls = append(ls, l)
		}
		recSC.Eval(labels["accepted-interleaved"] > 0 || labels["accepted-after-fault"] > 0, ev.Hash(fmt.Sprint(log), c.InterleavedMode, ps.Kind), func() any {
			return map[string]any{"interleaved_mode": c.InterleavedMode, "path": ps.Kind, "log": log[:min(len(log), 8)]}
		}, ls...)
		if ncalls > 1 {
			recSC.Count(int64(ncalls - 1))
		}
	})
}

var _ = io.Discard
