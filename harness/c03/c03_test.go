package c03

import (
	"context"
	"fmt"
	"io"
	"log/slog"
	"net"
	"os"
	"strings"
	"testing"
	"time"

	"pgregory.net/rapid"

	"example.com/scion-time/core/client"
	"example.com/scion-time/core/timebase"
	"example.com/scion-time/driver/clocks"

	"verif/internal/ev"
	"verif/internal/netlab"
	"verif/internal/vt"
)

var (
	srvA, srvB *netlab.Server
	addrA      *net.UDPAddr
	addrB      *net.UDPAddr
	laddr      *net.UDPAddr
	viaOther   *net.UDPConn // a socket on another address, for replies from the wrong source
	thetaSeq   int64
)

func TestMain(m *testing.M) {
	timebase.RegisterClock(clocks.NewSystemClock(slog.New(slog.NewTextHandler(io.Discard, nil)), clocks.UnknownDrift))
	addrA = netlab.UDPAddr(netlab.Addr(0), 12301)
	addrB = netlab.UDPAddr(netlab.Addr(0), 12302)
	laddr = netlab.UDPAddr(netlab.Addr(1), 0)
	var err error
	if srvA, err = netlab.NewServer(addrA); err != nil {
		fmt.Println("VERIF-INCONCLUSIVE: cannot bind model server:", err)
		os.Exit(0)
	}
	if srvB, err = netlab.NewServer(addrB); err != nil {
		fmt.Println("VERIF-INCONCLUSIVE: cannot bind model server:", err)
		os.Exit(0)
	}
	if viaOther, err = net.ListenUDP("udp", netlab.UDPAddr(netlab.Addr(2), 12301)); err != nil {
		fmt.Println("VERIF-INCONCLUSIVE: cannot bind:", err)
		os.Exit(0)
	}
	vt.Main(m)
}

// failingFaults end a request without an accepted reply in different ways (timeout, retries used up, refusal).
var failingFaults = []string{"drop-response", "drop-request", "stale-twice", "unsynchronized", "kiss-of-death", "wrong-source-first", "padded", "padded-twice"}

// realFault tells injected network faults from variations of a conformant server's behaviour.
func realFault(f string) bool {
	switch f {
	case "none", "delayed", "force-basic", "snap-rx", "snap-tx", "snap-both":
		return false
	}
	return true
}

// resolveVia picks, among the delivered model replies that describe the reported offset, the one the
// result was computed from. An exchange can be described both by its own basic reply and by the
// interleaved reply to the following request; then the client's record of the reply it evaluated last
// tells the two apart. That record must in any case name a kind of reply the model did deliver.
func resolveVia(vias []*netlab.Exchange, evaluated []netlab.Record) (*netlab.Exchange, string) {
	var basic, inter *netlab.Exchange
	for _, v := range vias {
		if v.Interleaved {
			inter = v
		} else {
			basic = v
		}
	}
	if len(evaluated) > 0 {
		if a, ok := evaluated[len(evaluated)-1].Attrs["interleaved"]; ok && a.Kind() == slog.KindBool {
			if a.Bool() {
				if inter == nil {
					return nil, "the client says the result is from an interleaved reply, but no interleaved reply the model delivered describes the reported offset"
				}
				return inter, ""
			}
			if basic == nil {
				return nil, "the client says the result is from a basic reply, but no basic reply the model delivered describes the reported offset"
			}
			return basic, ""
		}
	}
	if basic != nil && inter != nil {
		return nil, ""
	}
	if inter != nil {
		return inter, ""
	}
	return basic, ""
}

// nextTheta returns a model clock offset at least 2 s away from every one used before in this process
// (so an offset identifies the exchange it was computed from), with varying sign and magnitude.
func nextTheta(t *rapid.T) time.Duration {
	thetaSeq++
	base := time.Duration(thetaSeq) * 2 * time.Second
	switch rapid.IntRange(0, 5).Draw(t, "theta-kind") {
	case 0:
		return base
	case 1:
		return -base
	case 2:
		return base + 20*365*24*time.Hour // beyond the 2036 era boundary
	case 3:
		return -base - 5*365*24*time.Hour
	case 4:
		return base + time.Duration(rapid.Int64Range(0, int64(400*time.Millisecond)).Draw(t, "theta-frac"))
	default:
		// an odd number of seconds: never equal to another kind's value of a later sequence number (those are even)
		return base + 24*time.Hour + time.Second
	}
}

type callInfo struct {
	a, b     time.Time
	fallback bool // a timestamp fallback (timebase.Now instead of a kernel timestamp) was logged during the call
}

type exMeta struct {
	call  *callInfo
	fault string
}

var rec = ev.New("c03/ip-client", "rapid state machine on one real IPClient (interleaved mode on/off) against the harness's protocol-conformant NTP server model on loopback (real sockets, kernel timestamps): actions exchange(per-request fault in {none, drop request, drop response, duplicate reply, stale reply first, reply from another address first, delayed reply, reply with 4..100 bytes appended - once or twice -, unsynchronized / kiss-of-death reply, two stale replies first}), switch server, idle > 3 s (rare); the model's clock offset changes by >= 2 s (up to +-20 years) on every request. Oracle per successful call: the offset lies in the envelope [(r+s)/2 - B, (r+s)/2 - A] + theta_j of exactly the exchange j it must describe (current one for a basic reply, the cited previous one for an interleaved reply; A,B call instants, r,s model read/write instants), equals the client's logged offset, and |off - theta_j| <= rtd/2 + 4 ns when kernel timestamps were used; interleaved state agrees with the model; timestamp within the call; fault-free calls succeed. One evaluation = one client call. Non-trivial: sequence with an accepted interleaved reply or an accepted reply after a faulty exchange; distinct by action-log hash")

func TestPropIPClient(t *testing.T) {
	vt.Check(t, 220, 1500, func(t *rapid.T) {
		capt := &netlab.Capture{}
		c := &client.IPClient{Log: capt.Logger(), InterleavedMode: rapid.IntRange(0, 3).Draw(t, "interleaved") > 0}
		// a local address that names its interface makes the client ask for hardware timestamps only; the loopback
		// interface has none, so the client has to do without kernel transmit/receive timestamps
		la := &net.UDPAddr{IP: laddr.IP, Zone: rapid.SampledFrom([]string{"", "", "", "lo"}).Draw(t, "zone")}
		srvA.Forget()
		srvB.Forget()
		srvA.ClearPlans()
		srvB.ClearPlans()
		srvA.Take()
		srvB.Take()
		depth := rapid.SampledFrom([]int{1, 1, 2, 0}).Draw(t, "server-memory-depth")
		srvA.SetDepth(depth)
		srvB.SetDepth(depth)
		cur, curAddr := srvA, addrA
		meta := map[*netlab.Exchange]*exMeta{}
		var log []string
		labels := map[string]int{}
		ncalls := 0
		faultSeen := false
		var lastGenuine []byte

		call := func(t *rapid.T, faults []string) {
			var plans []netlab.Plan
			stale := lastGenuine // the most recent reply the model built (delivered or not): a delayed datagram
			for _, f := range faults {
				p := netlab.Plan{Theta: nextTheta(t)}
				switch f {
				case "drop-request":
					p.DropRequest = true
				case "drop-response":
					p.Outs = func(ex *netlab.Exchange) []netlab.Out { return nil }
				case "duplicate":
					p.Outs = func(ex *netlab.Exchange) []netlab.Out {
						return []netlab.Out{{Data: ex.Genuine}, {Data: ex.Genuine}}
					}
				case "stale-first":
					st := stale
					p.Outs = func(ex *netlab.Exchange) []netlab.Out {
						st := st
						if ex.PrevGenuine != nil {
							st = ex.PrevGenuine // the reply to the request just before this one, possibly of the same call
						}
						if st == nil {
							return []netlab.Out{{Data: ex.Genuine}}
						}
						return []netlab.Out{{Data: st}, {Data: ex.Genuine}}
					}
				case "stale-twice": // two delayed datagrams of an earlier exchange, then the genuine reply
					st := stale
					p.Outs = func(ex *netlab.Exchange) []netlab.Out {
						st := st
						if ex.PrevGenuine != nil {
							st = ex.PrevGenuine
						}
						if st == nil {
							return []netlab.Out{{Data: ex.Genuine}}
						}
						return []netlab.Out{{Data: st}, {Data: st}, {Data: ex.Genuine}}
					}
				case "unsynchronized", "kiss-of-death": // a conformant server that cannot serve time right now says so
					kind := f
					p.Outs = func(ex *netlab.Exchange) []netlab.Out {
						d := append([]byte(nil), ex.Genuine...)
						if kind == "unsynchronized" {
							d[0] |= 0xc0 // leap indicator 3
						} else {
							d[1] = 0 // stratum 0
							copy(d[12:16], "RATE")
						}
						return []netlab.Out{{Data: d}}
					}
				case "padded", "padded-twice":
					// a server that appends a 20-byte symmetric-key MAC (or an extension field) to its replies: a client
					// without NTS reads 48 bytes and learns that the datagram was longer; it may refuse such a reply, but
					// whatever it reports must not be a measurement that no delivered 48-byte reply describes
					twice := f == "padded-twice"
					trailer := rapid.SampledFrom([]int{4, 20, 24, 28, 100}).Draw(t, "trailer-len")
					p.Outs = func(ex *netlab.Exchange) []netlab.Out {
						d := append(append([]byte(nil), ex.Genuine...), make([]byte, trailer)...)
						if twice {
							return []netlab.Out{{Data: d}, {Data: d}}
						}
						return []netlab.Out{{Data: d}}
					}
				case "wrong-source-first":
					p.Outs = func(ex *netlab.Exchange) []netlab.Out {
						return []netlab.Out{{Data: ex.Genuine, Via: viaOther}, {Data: ex.Genuine}}
					}
				case "delayed":
					p.Delay = time.Duration(rapid.Int64Range(1, 20).Draw(t, "delay-ms")) * time.Millisecond
				case "force-basic":
					p.ForceBasic = true
				case "snap-rx", "snap-tx", "snap-both":
					p.Snap = f[5:]
					p.SnapFrac = rapid.OneOf(rapid.SampledFrom([]uint32{0, 0, 0, 1, 0xffffffff, 0x80000000, 0x7fffffff}), rapid.Uint32()).Draw(t, "snap-frac")
				}
				plans = append(plans, p)
			}
			cur.ClearPlans()
			cur.Push(plans...)
			cur.SetDefault(netlab.Plan{Theta: nextTheta(t)})
			capt.Take()
			ci := &callInfo{}
			ctx, cancel := context.WithTimeout(context.Background(), time.Duration(rapid.IntRange(40, 90).Draw(t, "deadline-ms"))*time.Millisecond)
			raddr := &net.UDPAddr{IP: append(net.IP(nil), curAddr.IP...), Port: curAddr.Port}
			ci.a = netlab.Now()
			ts, off, err := client.MeasureClockOffsetIP(ctx, c.Log, c, la, raddr)
			ci.b = netlab.Now()
			cancel()
			cur.WaitIdle()
			ncalls++
			recs := capt.Take()
			var evaluated []netlab.Record
			for _, r := range recs {
				if strings.Contains(r.Msg, "failed to read packet tx timestamp") || strings.Contains(r.Msg, "failed to read packet rx timestamp") {
					labels["timestamp-fallback"]++ // no kernel timestamp: the bound must hold all the same (fallback readings err on the safe side)
				}
				if r.Msg == "evaluated response" {
					evaluated = append(evaluated, r)
				}
			}
			exs := cur.Take()
			clean := len(exs) > 0
			for i, ex := range exs {
				f := "none"
				if i < len(faults) {
					f = faults[i]
				}
				meta[ex] = &exMeta{call: ci, fault: f}
				if f != "none" {
					labels["plan:"+f]++
				}
				if ex.Genuine != nil {
					lastGenuine = ex.Genuine
				}
				if realFault(f) {
					clean = false
				}
			}
			log = append(log, fmt.Sprintf("call faults=%v requests=%d err=%v off=%v", faults, len(exs), err, off))
			if err != nil {
				labels["call-failed"]++
				if clean {
					// no injected fault explains the failure: retry to rule out a scheduler stall
					ok := false
					for i := 0; i < 3 && !ok; i++ {
						cur.ClearPlans()
						ctx, cancel := context.WithTimeout(context.Background(), time.Second)
						_, _, e2 := client.MeasureClockOffsetIP(ctx, c.Log, c, laddr, &net.UDPAddr{IP: append(net.IP(nil), curAddr.IP...), Port: curAddr.Port})
						cancel()
						cur.WaitIdle()
						for _, ex := range cur.Take() {
							meta[ex] = &exMeta{call: &callInfo{a: ci.a, b: netlab.Now(), fallback: true}, fault: "none"}
						}
						ok = e2 == nil
					}
					if !ok {
						t.Fatalf("fault-free exchange with a conformant server fails repeatedly: %v (log %v)", err, log)
					}
					labels["spurious-failure-not-reproduced"]++
				}
				return
			}
			// which exchange must the result describe?
			var matched *netlab.Exchange
			var vias []*netlab.Exchange
			var why []string
			for _, ex := range exs {
				if ex.Dropped || !delivered(ex) {
					continue
				}
				j := ex
				if ex.Interleaved {
					j = ex.Cited
				}
				mj := meta[j]
				if mj == nil {
					why = append(why, fmt.Sprintf("%v cites an exchange unknown to the harness", ex))
					continue
				}
				mid := j.R.Add(j.S.Sub(j.R) / 2)
				lo := mid.Sub(mj.call.b) + j.Theta - 4
				hi := mid.Sub(mj.call.a) + j.Theta + 4
				if off >= lo && off <= hi {
					if matched != nil && matched != j {
						t.Fatalf("offset %v fits two exchanges (harness thetas too close)", off)
					}
					matched = j
					vias = append(vias, ex)
				} else {
					why = append(why, fmt.Sprintf("exchange %v (via %v): envelope [%v, %v]", j, ex, lo, hi))
				}
			}
			if matched == nil {
				t.Fatalf("reported offset %v is not within half the round-trip delay of the true offset of any exchange it could have been computed from: %v; log %v", off, why, log)
			}
			if len(evaluated) == 0 {
				t.Fatalf("no 'evaluated response' record for a successful call")
			}
			last := evaluated[len(evaluated)-1]
			if lo, ok := last.Attrs["clock offset"]; ok && lo.Kind() == slog.KindDuration {
				if lo.Duration() != off {
					t.Fatalf("returned offset %v differs from the evaluated one %v", off, lo.Duration())
				}
				if rtd, ok := last.Attrs["round trip delay"]; ok && rtd.Kind() == slog.KindDuration && !meta[matched].call.fallback && !ci.fallback {
					d := off - matched.Theta
					if d < 0 {
						d = -d
					}
					if d > rtd.Duration()/2+4 {
						t.Fatalf("|offset - true offset| = %v exceeds half the round-trip delay %v/2 (exchange %v)", d, rtd.Duration(), matched)
					}
					if rtd.Duration() < 0 {
						t.Fatalf("negative round-trip delay %v", rtd.Duration())
					}
					labels["tight-bound-checked"]++
				}
			}
			matchedVia, bad := resolveVia(vias, evaluated)
			if bad != "" {
				t.Fatalf("%s (log %v)", bad, log)
			}
			if matchedVia == nil {
				labels["reply-kind-ambiguous"]++
			} else if matchedVia.Interleaved {
				labels["accepted-interleaved"]++
				if !c.InInterleavedMode() {
					t.Fatalf("an interleaved reply was accepted but the client does not report interleaved mode")
				}
			} else if c.InInterleavedMode() {
				t.Fatalf("client reports interleaved mode after accepting a basic reply")
			}
			if faultSeen {
				labels["accepted-after-fault"]++
			}
			if ts.Before(ci.a.Add(-time.Microsecond)) || ts.After(ci.b.Add(time.Microsecond)) {
				t.Fatalf("returned timestamp %v outside the call window [%v, %v]", ts, ci.a, ci.b)
			}
		}

		faultGen := rapid.SampledFrom([]string{"none", "none", "none", "none", "none", "none", "none", "duplicate", "stale-first", "wrong-source-first", "delayed", "drop-request", "drop-response", "duplicate", "stale-first", "wrong-source-first", "delayed", "force-basic", "snap-rx", "snap-tx", "snap-both", "snap-rx", "stale-twice", "stale-twice", "unsynchronized", "kiss-of-death", "padded", "padded-twice"})
		t.Repeat(map[string]func(*rapid.T){
			"exchange": func(t *rapid.T) {
				fs := rapid.SliceOfN(faultGen, 3, 3).Draw(t, "faults")
				if rapid.IntRange(0, 5).Draw(t, "scenario") == 0 {
					// a request that ends without an accepted reply, followed at once by the late arrival of its reply
					fs = []string{"none", rapid.SampledFrom(failingFaults).Draw(t, "failing"), rapid.SampledFrom([]string{"stale-first", "stale-twice"}).Draw(t, "late")}
					if rapid.Bool().Draw(t, "scenario-shift") {
						fs = []string{fs[1], fs[2], "none"}
					}
				}
				call(t, fs)
				for _, f := range fs {
					if realFault(f) {
						faultSeen = true
					}
				}
			},
			"exchange-clean": func(t *rapid.T) { call(t, nil) },
			"switch-server": func(t *rapid.T) {
				if cur == srvA {
					cur, curAddr = srvB, addrB
				} else {
					cur, curAddr = srvA, addrA
				}
				log = append(log, "switch-server")
			},
			"idle": func(t *rapid.T) {
				if rapid.IntRange(0, 79).Draw(t, "really") != 37 {
					t.Skip("idle drawn rarely")
				}
				time.Sleep(3100 * time.Millisecond)
				log = append(log, "idle 3.1s")
				labels["idle>3s"]++
			},
		})
		var ls []string
		for l := range labels {
			ls = append(ls, l)
		}
		rec.Eval(labels["accepted-interleaved"] > 0 || labels["accepted-after-fault"] > 0, ev.Hash(fmt.Sprint(log), c.InterleavedMode), func() any {
			return map[string]any{"interleaved_mode": c.InterleavedMode, "log": log[:min(len(log), 10)]}
		}, ls...)
		if ncalls > 1 {
			rec.Count(int64(ncalls - 1))
		}
	})
}

func delivered(ex *netlab.Exchange) bool {
	for _, d := range ex.Sent {
		if string(d) == string(ex.Genuine) {
			return true
		}
	}
	return false
}
