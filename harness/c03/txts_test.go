package c03

// The half-round-trip bound rests on the client's transmit timestamp being the kernel's: if it cannot be read the
// clients fall back to a clock reading taken after the request has left, and on a fast path the reported offset is
// then no longer within half the (shrunken) reported round-trip delay. This supporting check asks the project's
// socket helpers for the kernel transmit timestamp of a datagram on both address families.

import (
	"net"
	"testing"
	"time"

	"pgregory.net/rapid"

	"example.com/scion-time/net/udp"

	"verif/internal/ev"
	"verif/internal/netlab"
	"verif/internal/vt"
)

var recTx = ev.New("c03/kernel-tx-timestamps", "rapid: datagrams of 1..1400 bytes sent from an IPv4 and from an IPv6 loopback socket prepared with the project's EnableTimestamping; ReadTXTimestamp must return the kernel's transmit timestamp, between the harness's clock readings around the send (+-1 ms). If IPv4 does not deliver timestamps either, the environment is at fault and the check is inconclusive. One evaluation = one datagram. Non-trivial: IPv6; distinct by (family, length, sequence)")

func TestPropKernelTxTimestamps(t *testing.T) {
	type fam struct {
		name   string
		local  *net.UDPAddr
		sinkIP net.IP
	}
	fams := []fam{{"ipv4", netlab.UDPAddr(netlab.Addr(1), 0), netlab.Addr(2).AsSlice()}, {"ipv6", &net.UDPAddr{IP: net.IPv6loopback}, net.IPv6loopback}}
	type sockpair struct {
		conn, sink *net.UDPConn
	}
	pairs := map[string]sockpair{}
	for _, f := range fams {
		sink, err := net.ListenUDP("udp", &net.UDPAddr{IP: f.sinkIP})
		if err != nil {
			if f.name == "ipv4" {
				vt.Inconclusive(t, "cannot bind: %v", err)
			}
			continue // no IPv6 loopback here
		}
		defer sink.Close()
		conn, err := net.ListenUDP("udp", f.local)
		if err != nil {
			continue
		}
		defer conn.Close()
		if err := udp.EnableTimestamping(conn, ""); err != nil {
			if f.name == "ipv4" {
				vt.Inconclusive(t, "kernel timestamping cannot be enabled: %v", err)
			}
			continue
		}
		pairs[f.name] = sockpair{conn, sink}
	}
	probe := func(name string, n int) (time.Time, error, time.Time, time.Time) {
		p := pairs[name]
		a := netlab.Now()
		p.conn.WriteToUDP(make([]byte, n), p.sink.LocalAddr().(*net.UDPAddr))
		b := netlab.Now()
		ts, _, err := udp.ReadTXTimestamp(p.conn)
		return ts, err, a, b
	}
	if _, err, _, _ := probe("ipv4", 48); err != nil {
		vt.Inconclusive(t, "no kernel transmit timestamps on IPv4 loopback in this environment: %v", err)
	}
	if _, ok := pairs["ipv6"]; !ok {
		recTx.Note("no IPv6 loopback in this environment: the IPv6 half of this sub-check did not run")
		t.Skip("no IPv6 loopback")
	}
	seq := 0
	vt.Check(t, 200, 2000, func(t *rapid.T) {
		name := rapid.SampledFrom([]string{"ipv4", "ipv6", "ipv6"}).Draw(t, "family")
		n := rapid.OneOf(rapid.Just(48), rapid.IntRange(1, 1400)).Draw(t, "len")
		ts, err, a, b := probe(name, n)
		if err != nil {
			// once more: the error queue is read without waiting
			ts, err, a, b = probe(name, n)
		}
		if err != nil {
			t.Fatalf("%s: the kernel transmit timestamp of a %d-byte datagram could not be read (%v), although IPv4 loopback delivers them: every measurement on this family would fall back to a late user-space transmit time", name, n, err)
		}
		if ts.Before(a.Add(-time.Millisecond)) || ts.After(b.Add(time.Millisecond)) {
			t.Fatalf("%s: transmit timestamp %v outside the send window [%v, %v]", name, ts, a, b)
		}
		seq++
		recTx.Eval(name == "ipv6", ev.Hash(name, n, seq), func() any { return map[string]any{"family": name, "len": n} })
	})
}
