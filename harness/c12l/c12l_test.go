package c12l

// The NTP listeners' use of the key provider, at the listener: "At every instant the key handed out for sealing new
// cookies is within its validity period and was generated no more than the renewal interval (24 h) before". A client
// that comes back with a cookie sealed under yesterday's key (still valid for two more days) must get its fresh
// cookies under today's key - otherwise its cookies all expire together. The real IP listener runs on its own
// provider, which the harness makes older between requests (verif hook Provider.AgeV): rotation is due when a key
// is more than 24 h old, expiry at 72 h.

import (
	"bytes"
	"context"
	"encoding/binary"
	"fmt"
	"io"
	"log/slog"
	"net"
	"os"
	"testing"
	"time"

	"github.com/miscreant/miscreant.go"
	"github.com/prometheus/client_golang/prometheus"
	"pgregory.net/rapid"

	"example.com/scion-time/core/server"
	"example.com/scion-time/core/timebase"
	"example.com/scion-time/driver/clocks"
	"example.com/scion-time/net/ntske"

	"verif/internal/ev"
	"verif/internal/netlab"
	"verif/internal/vt"
)

var (
	provider *ntske.Provider
	srvAddr  *net.UDPAddr
)

const (
	renewal  = 24 * time.Hour
	validity = 72 * time.Hour
)

func TestMain(m *testing.M) {
	log := slog.New(slog.NewTextHandler(io.Discard, nil))
	timebase.RegisterClock(clocks.NewSystemClock(log, clocks.UnknownDrift))
	prometheus.DefaultRegisterer = prometheus.NewRegistry()
	provider = ntske.NewProvider()
	srvAddr = netlab.UDPAddr(netlab.Addr(8), 12372)
	server.StartIPServer(context.Background(), log, srvAddr, 0, provider)
	if os.Getenv("VERIF_TIER") == "" {
		os.Setenv("VERIF_TIER", "quick")
	}
	vt.Main(m)
}

func extField(typ uint16, body []byte) []byte {
	l := 4 + (len(body)+3)&^3
	f := make([]byte, l)
	binary.BigEndian.PutUint16(f, typ)
	binary.BigEndian.PutUint16(f[2:], uint16(l))
	copy(f[4:], body)
	return f
}

type field struct {
	typ  uint16
	body []byte
	off  int
}

func walk(b []byte) ([]field, error) {
	var fs []field
	for pos := 48; pos < len(b); {
		if len(b)-pos < 4 {
			return fs, fmt.Errorf("%d trailing bytes", len(b)-pos)
		}
		typ, l := binary.BigEndian.Uint16(b[pos:]), int(binary.BigEndian.Uint16(b[pos+2:]))
		if l < 4 || l%4 != 0 || pos+l > len(b) {
			return fs, fmt.Errorf("extension field at %d: type %#x length %d", pos, typ, l)
		}
		fs = append(fs, field{typ, b[pos+4 : pos+l], pos})
		pos += l
	}
	return fs, nil
}

// request: an NTS request with one cookie and nph placeholders, sealed under c2s by the harness's own encoder.
func request(seq uint64, cookie, c2s []byte, nph int) (pkt, uid []byte) {
	pkt = make([]byte, 48)
	pkt[0] = 0x23
	binary.BigEndian.PutUint64(pkt[40:], 0xa000000000000000|seq)
	uid = bytes.Repeat([]byte{byte(seq), byte(seq >> 8)}, 16)
	pkt = append(pkt, extField(0x104, uid)...)
	pkt = append(pkt, extField(0x204, cookie)...)
	for i := 0; i < nph; i++ {
		pkt = append(pkt, extField(0x304, make([]byte, len(cookie)))...)
	}
	a, err := miscreant.NewAEAD("AES-CMAC-SIV", c2s, 16)
	if err != nil {
		panic(err)
	}
	nonce := bytes.Repeat([]byte{byte(seq), 0x5a}, 8)
	ct := a.Seal(nil, nonce, nil, pkt)
	body := make([]byte, 4, 4+16+len(ct))
	binary.BigEndian.PutUint16(body, 16)
	binary.BigEndian.PutUint16(body[2:], uint16(len(ct)))
	body = append(append(body, nonce...), ct...)
	return append(pkt, extField(0x404, body)...), uid
}

type pooled struct {
	cookie []byte
	keyGen time.Time // when the key it is sealed under was generated (as the provider sees it now)
	keyID  int
}

var seq uint64

var rec = ev.New("c12/listener-reply-cookies", "rapid: a harness NTS client (own encoder, keys of a cookie sealed as the key-exchange server seals them) sends 2..7 requests to the real IP listener, which runs on its own key provider; between requests the provider is made older by {0, 1 h, 23 h, 24 h + 1 s, 25 h, 30 h, 47 h} (verif hook), so that the client comes back with cookies under a key that is no longer the current one but still valid; it always presents its oldest still valid cookie. Oracle: every request with a valid cookie is answered; every fresh cookie in the reply names a valid key that was generated no more than 24 h before (1 s of real-time slack), and opens under it to the session's keys. One evaluation = one request. Non-trivial: request presenting a cookie whose key is more than 24 h old; distinct by (ages, position)")

func TestPropListenerReplyCookies(t *testing.T) {
	sock, err := net.ListenUDP("udp", netlab.UDPAddr(netlab.Addr(9), 0))
	if err != nil {
		vt.Inconclusive(t, "bind: %v", err)
	}
	defer sock.Close()
	buf := make([]byte, 4096)
	ages := []time.Duration{0, time.Hour, 23 * time.Hour, 24*time.Hour + time.Second, 25 * time.Hour, 30 * time.Hour, 47 * time.Hour}
	vt.Check(t, 60, 600, func(t *rapid.T) {
		c2s, s2c := bytes.Repeat([]byte{0xc2}, 32), bytes.Repeat([]byte{0x52}, 32)
		// the key exchange: cookies under the key that is current now
		k0 := provider.Current()
		sc := ntske.ServerCookie{Algo: ntske.AES_SIV_CMAC_256, C2S: c2s, S2C: s2c}
		var pool []pooled
		for i := 0; i < 2; i++ {
			e, err := sc.EncryptWithNonce(k0.Value, k0.ID)
			if err != nil {
				t.Fatalf("harness: %v", err)
			}
			pool = append(pool, pooled{e.Encode(), k0.Validity.NotBefore, k0.ID})
		}
		n := rapid.IntRange(2, 7).Draw(t, "requests")
		var hist []string
		for i := 0; i < n; i++ {
			d := rapid.SampledFrom(ages).Draw(t, "age-by")
			if d > 0 {
				provider.AgeV(d)
				for j := range pool {
					pool[j].keyGen = pool[j].keyGen.Add(-d)
				}
			}
			now := time.Now()
			// drop cookies whose key has expired; present the oldest remaining one
			var keep []pooled
			for _, p := range pool {
				if now.Sub(p.keyGen) < validity-time.Minute {
					keep = append(keep, p)
				}
			}
			pool = keep
			if len(pool) == 0 {
				hist = append(hist, fmt.Sprintf("+%v: all cookies expired", d))
				break
			}
			use := pool[0]
			pool = pool[1:]
			seq++
			req, uid := request(seq, use.cookie, c2s, rapid.IntRange(0, 2).Draw(t, "placeholders"))
			var rsp []byte
			for attempt := 0; attempt < 4 && rsp == nil; attempt++ {
				sock.WriteToUDP(req, srvAddr)
				sock.SetReadDeadline(time.Now().Add(300 * time.Millisecond))
				for {
					m, _, err := sock.ReadFromUDP(buf)
					if err != nil {
						break
					}
					if m >= 48 && bytes.Equal(buf[24:32], req[40:48]) {
						rsp = bytes.Clone(buf[:m])
						break
					}
				}
			}
			keyAge := now.Sub(use.keyGen)
			hist = append(hist, fmt.Sprintf("+%v: request with a cookie under key %d (generated %v ago)", d, use.keyID, keyAge.Round(time.Second)))
			if rsp == nil {
				t.Fatalf("a request with a cookie under a valid key (generated %v ago) was not answered (history %v)", keyAge, hist)
			}
			fs, werr := walk(rsp)
			if werr != nil {
				t.Fatalf("reply is not well-formed: %v", werr)
			}
			var pt []byte
			for _, f := range fs {
				if f.typ == 0x104 && !bytes.Equal(f.body, uid) {
					t.Fatalf("reply does not echo the identifier")
				}
				if f.typ == 0x404 && len(f.body) >= 4+16 {
					nl, cl := int(binary.BigEndian.Uint16(f.body)), int(binary.BigEndian.Uint16(f.body[2:]))
					a, _ := miscreant.NewAEAD("AES-CMAC-SIV", s2c, 16)
					if nl == 16 && 4+nl+cl <= len(f.body) {
						pt, err = a.Open(nil, f.body[4:4+nl], f.body[4+nl:4+nl+cl], rsp[:f.off])
					}
					if err != nil || pt == nil {
						t.Fatalf("reply does not verify under S2C: %v", err)
					}
				}
			}
			fresh := 0
			for pos := 0; pos+4 <= len(pt); {
				typ, l := binary.BigEndian.Uint16(pt[pos:]), int(binary.BigEndian.Uint16(pt[pos+2:]))
				if l < 4 || pos+l > len(pt) {
					t.Fatalf("encrypted part of the reply is not a sequence of extension fields")
				}
				if typ == 0x204 {
					var e ntske.EncryptedServerCookie
					if err := e.Decode(pt[pos+4 : pos+l]); err != nil {
						t.Fatalf("fresh cookie does not decode: %v", err)
					}
					k, ok := lookup(provider, e.ID)
					if !ok {
						t.Fatalf("fresh cookie names key %d, which is not valid (history %v)", e.ID, hist)
					}
					if age := time.Since(k.Validity.NotBefore); age > renewal+time.Second {
						t.Fatalf("the fresh cookies of a reply are sealed under key %d, generated %v ago; new cookies have to be sealed under a key no older than the renewal interval of %v (history %v)", k.ID, age.Round(time.Second), renewal, hist)
					}
					o, err := e.Decrypt(k.Value)
					if err != nil || !bytes.Equal(o.C2S, c2s) || !bytes.Equal(o.S2C, s2c) {
						t.Fatalf("fresh cookie does not open to the session's keys: %v", err)
					}
					pool = append(pool, pooled{bytes.Clone(pt[pos+4 : pos+l]), k.Validity.NotBefore, k.ID})
					fresh++
				}
				pos += l
			}
			if fresh == 0 {
				t.Fatalf("reply without a fresh cookie")
			}
			rec.Eval(keyAge > renewal, ev.Hash(fmt.Sprint(hist)), func() any { return hist })
		}
	})
}

// lookup finds the key a cookie's 16-bit identifier names the way the listeners do (Provider.Lookup where the tree
// has it, else Provider.Get of the identifier).
func lookup(p *ntske.Provider, id uint16) (ntske.Key, bool) {
	if l, has := any(p).(interface {
		Lookup(uint16) (ntske.Key, bool)
	}); has {
		return l.Lookup(id)
	}
	return p.Get(int(id))
}
