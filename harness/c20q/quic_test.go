package c20q

// C20 over the SCION/QUIC transport of the key exchange: histories of exchanges on one Fetcher against a scripted
// key-exchange server that listens with the project's own QUIC-over-SCION listener on loopback (same AS: empty path,
// no daemon). The TLS transport has its own, larger check (c20); this one looks at what the QUIC branch of the
// fetcher does differently.

import (
	"context"
	"crypto/tls"
	"fmt"
	"io"
	"log/slog"
	"net"
	"os"
	"sync"
	"testing"
	"time"

	"github.com/scionproto/scion/pkg/addr"
	"github.com/scionproto/scion/pkg/snet"
	snetpath "github.com/scionproto/scion/pkg/snet/path"
	"pgregory.net/rapid"

	"example.com/scion-time/core/client"
	"example.com/scion-time/core/timebase"
	"example.com/scion-time/driver/clocks"

	"example.com/scion-time/net/ntske"
	"example.com/scion-time/net/scion"
	"example.com/scion-time/net/udp"

	"verif/internal/ev"
	"verif/internal/netlab"
	"verif/internal/vt"
)

type kscript struct {
	Server   string `json:"server_record"` // "": none
	Port     int    `json:"port_record"`   // 0: none
	AEAD     int    `json:"aead"`          // -1: no AEAD record
	NCookies int    `json:"cookies"`
	End      bool   `json:"end_record"`
}

var (
	ia      = addr.MustIAFrom(1, 0xff0000000110)
	srvAddr = udp.UDPAddr{IA: ia, Host: &net.UDPAddr{IP: netlab.Addr(0).AsSlice(), Port: 14470}}
	mu      sync.Mutex
	cur     kscript
	nconn   int
	issued  [][]byte
	seq     byte
)

func stream(s kscript) ([]byte, [][]byte) {
	recs := []netlab.Rec{{Type: netlab.RecNextProto, Critical: true, Body: netlab.U16(0)}}
	if s.AEAD >= 0 {
		recs = append(recs, netlab.Rec{Type: netlab.RecAEAD, Critical: true, Body: netlab.U16(uint16(s.AEAD))})
	}
	if s.Server != "" {
		recs = append(recs, netlab.Rec{Type: netlab.RecServer, Body: []byte(s.Server)})
	}
	if s.Port != 0 {
		recs = append(recs, netlab.Rec{Type: netlab.RecPort, Body: netlab.U16(uint16(s.Port))})
	}
	var cks [][]byte
	for i := 0; i < s.NCookies; i++ {
		seq++
		ck := make([]byte, 124)
		ck[0], ck[1] = seq, byte(i)
		cks = append(cks, ck)
		recs = append(recs, netlab.Rec{Type: netlab.RecCookie, Body: ck})
	}
	if s.End {
		recs = append(recs, netlab.Rec{Type: netlab.RecEnd, Critical: true})
	}
	return netlab.EncodeRecs(recs), cks
}

func TestMain(m *testing.M) {
	timebase.RegisterClock(clocks.NewSystemClock(slog.New(slog.NewTextHandler(io.Discard, nil)), clocks.UnknownDrift))
	cert, err := netlab.SelfSigned()
	if err != nil {
		fmt.Println("VERIF-INCONCLUSIVE: certificate:", err)
		os.Exit(0)
	}
	ln, err := scion.ListenQUIC(context.Background(), srvAddr, &tls.Config{Certificates: []tls.Certificate{cert}, NextProtos: []string{"ntske/1"}, MinVersion: tls.VersionTLS13}, nil)
	if err != nil {
		fmt.Println("VERIF-INCONCLUSIVE: cannot listen for QUIC over SCION on loopback:", err)
		os.Exit(0)
	}
	go func() {
		for {
			conn, err := ln.Accept(context.Background())
			if err != nil {
				return
			}
			go func() {
				st, err := conn.AcceptStream(context.Background())
				if err != nil {
					return
				}
				buf := make([]byte, 4096)
				st.SetReadDeadline(time.Now().Add(time.Second))
				st.Read(buf) // the client's request (a few records)
				mu.Lock()
				nconn++
				b, cks := stream(cur)
				issued = cks
				mu.Unlock()
				st.Write(b)
				st.Close()
				time.Sleep(50 * time.Millisecond)
				conn.CloseWithError(0, "")
			}()
		}
	}()
	vt.Main(m)
}

var rec = ev.New("c20/quic-histories", "rapid: histories of 2..5 key exchanges on one ntske.Fetcher over QUIC/SCION (same AS, empty path) against a scripted server (the project's ListenQUIC): per exchange a server record or none, a port record or none, AEAD 15 / another / none, 0..3 cookies, end record or none; between exchanges the pool is used up. Oracle per exchange, evaluated on the records of that exchange only: success iff AEAD 15, >= 1 cookie and end record; then pool == cookies issued, algorithm 15, server = the one named or else the key-exchange host, port = the one named or else the standard SCION NTP port; exactly one connection per exchange; a failed exchange leaves nothing behind. One evaluation = one exchange. Non-trivial: exchange after an earlier one that named a server/port or selected an algorithm which this one does not; distinct by history")

func TestPropQUICHistories(t *testing.T) {
	vt.Check(t, 40, 400, func(t *rapid.T) {
		f := &ntske.Fetcher{Log: slog.New(slog.NewTextHandler(io.Discard, nil)),
			TLSConfig: tls.Config{NextProtos: []string{"ntske/1"}, InsecureSkipVerify: true, MinVersion: tls.VersionTLS13}}
		f.QUIC.Enabled = true
		f.QUIC.LocalAddr = udp.UDPAddr{IA: ia, Host: &net.UDPAddr{IP: netlab.Addr(1).AsSlice()}}
		f.QUIC.RemoteAddr = udp.UDPAddr{IA: ia, Host: &net.UDPAddr{IP: append(net.IP(nil), srvAddr.Host.IP...), Port: srvAddr.Host.Port}}
		n := rapid.IntRange(2, 5).Draw(t, "exchanges")
		var hist []string
		prevNamed := false
		for i := 0; i < n; i++ {
			s := kscript{
				Server:   rapid.SampledFrom([]string{"", "", netlab.Addr(2).String(), netlab.Addr(3).String()}).Draw(t, "server"),
				Port:     rapid.SampledFrom([]int{0, 0, 5555, 123}).Draw(t, "port"),
				AEAD:     rapid.SampledFrom([]int{15, 15, 15, 15, -1, 14}).Draw(t, "aead"),
				NCookies: rapid.SampledFrom([]int{1, 1, 2, 3, 0}).Draw(t, "cookies"),
				End:      rapid.IntRange(0, 7).Draw(t, "no-end") != 0,
			}
			mu.Lock()
			cur = s
			c0 := nconn
			mu.Unlock()
			ctx, cancel := context.WithTimeout(context.Background(), 3*time.Second)
			data, err := f.FetchData(ctx)
			cancel()
			time.Sleep(2 * time.Millisecond)
			mu.Lock()
			opened, cks := nconn-c0, issued
			mu.Unlock()
			hist = append(hist, fmt.Sprintf("%+v -> err=%v conns=%d", s, err, opened))
			if opened != 1 {
				t.Fatalf("empty pool: expected one key-exchange connection, saw %d (history %v)", opened, hist)
			}
			want := s.AEAD == 15 && s.NCookies > 0 && s.End
			if err == nil && !want {
				t.Fatalf("key exchange succeeded although this exchange's records do not satisfy the statement's conditions (history %v)", hist)
			}
			if err != nil && want {
				t.Fatalf("well-formed key exchange failed: %v (history %v)", err, hist)
			}
			nt := prevNamed && (s.Server == "" || s.Port == 0 || s.AEAD != 15)
			if err != nil {
				rec.Eval(nt, ev.Hash(fmt.Sprint(hist)), func() any { return hist }, "exchange-failed")
				continue
			}
			wantServer, wantPort := srvAddr.Host.IP.String(), 10123
			if s.Server != "" {
				wantServer = s.Server
			}
			if s.Port != 0 {
				wantPort = s.Port
			}
			if data.Server != wantServer || int(data.Port) != wantPort {
				t.Fatalf("NTP server to use is %s:%d, the exchange named %s:%d (history %v)", data.Server, data.Port, wantServer, wantPort, hist)
			}
			if data.Algo != 15 {
				t.Fatalf("algorithm %d after a successful exchange", data.Algo)
			}
			got := append([][]byte{}, data.Cookie...)
			if len(got) != len(cks) {
				t.Fatalf("pool holds %d cookies, %d were issued (history %v)", len(got), len(cks), hist)
			}
			// use up the pool (FetchData hands out the pool and removes one cookie per call)
			for k := 1; k < len(cks); k++ {
				mu.Lock()
				c1 := nconn
				mu.Unlock()
				if _, err := f.FetchData(context.Background()); err != nil {
					t.Fatalf("FetchData with cookies in the pool failed: %v", err)
				}
				mu.Lock()
				if nconn != c1 {
					mu.Unlock()
					t.Fatalf("a new exchange was performed although cookies were left")
				}
				mu.Unlock()
			}
			prevNamed = prevNamed || s.Server != "" || s.Port != 0 || s.AEAD == 15
			rec.Eval(nt, ev.Hash(fmt.Sprint(hist)), func() any { return hist }, "exchange-succeeded")
		}
	})
}

var recKE = ev.New("c20/scion-client-reexchange", "rapid: a real SCIONClient with NTS, configured as the service configures it (the key-exchange address of the fetcher and the measurement's remote address are the same value), exchanges keys over QUIC/SCION with the scripted server, which names an NTP server and port of its choice and issues 1..2 cookies; the NTP requests go unanswered. After the cookies are used up the next measurement must exchange keys again with the configured key-exchange server. Oracle: one connection at the scripted server per exchange needed; the configured addresses are unchanged. One evaluation = one measurement call. Non-trivial: a call that needs the second exchange")

func TestPropSCIONClientReexchange(t *testing.T) {
	vt.Check(t, 6, 40, func(t *rapid.T) {
		s := kscript{Server: rapid.SampledFrom([]string{netlab.Addr(2).String(), netlab.Addr(3).String()}).Draw(t, "server"),
			Port: rapid.SampledFrom([]int{5555, 10123}).Draw(t, "port"), AEAD: 15, NCookies: rapid.IntRange(1, 2).Draw(t, "cookies"), End: true}
		mu.Lock()
		cur = s
		c0 := nconn
		mu.Unlock()
		local := udp.UDPAddr{IA: ia, Host: &net.UDPAddr{IP: netlab.Addr(1).AsSlice()}}
		remote := udp.UDPAddr{IA: ia, Host: &net.UDPAddr{IP: append(net.IP(nil), srvAddr.Host.IP...), Port: srvAddr.Host.Port}}
		c := &client.SCIONClient{Log: slog.New(slog.NewTextHandler(io.Discard, nil))}
		c.Auth.NTSEnabled = true
		c.Auth.NTSKEFetcher.TLSConfig = tls.Config{NextProtos: []string{"ntske/1"}, InsecureSkipVerify: true, MinVersion: tls.VersionTLS13}
		c.Auth.NTSKEFetcher.Log = c.Log
		c.Auth.NTSKEFetcher.QUIC.Enabled = true
		c.Auth.NTSKEFetcher.QUIC.LocalAddr = local
		c.Auth.NTSKEFetcher.QUIC.RemoteAddr = remote
		sp := snetpath.Path{Src: ia, Dst: ia, DataplanePath: snetpath.Empty{}, NextHop: remote.Host}
		for call := 0; call < s.NCookies+1; call++ {
			ctx, cancel := context.WithTimeout(context.Background(), 150*time.Millisecond)
			client.MeasureClockOffsetSCION(ctx, c.Log, []*client.SCIONClient{c}, local, remote, []snet.Path{sp})
			cancel()
			time.Sleep(2 * time.Millisecond)
			mu.Lock()
			opened := nconn - c0
			mu.Unlock()
			want := 1
			if call == s.NCookies {
				want = 2 // the pool is empty: a complete new exchange, with the configured key-exchange server
			}
			if opened != want {
				t.Fatalf("measurement %d (cookies issued %d): the scripted key-exchange server has seen %d connections, expected %d; the fetcher's key-exchange address is now %v (configured %v)", call+1, s.NCookies, opened, want, c.Auth.NTSKEFetcher.QUIC.RemoteAddr.Host, srvAddr.Host)
			}
			recKE.Eval(call == s.NCookies, ev.Hash(s.Server, s.Port, s.NCookies, call), func() any { return map[string]any{"script": s, "call": call + 1} })
		}
	})
}
