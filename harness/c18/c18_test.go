package c18

import (
	"encoding/json"
	"io"
	"log/slog"
	"math"
	"math/big"
	"os"
	"path/filepath"
	"testing"
	"time"

	"pgregory.net/rapid"

	"example.com/scion-time/base/unixutil"
	"example.com/scion-time/driver/clocks"
	"example.com/scion-time/net/csptp"

	"verif/internal/ev"
	"verif/internal/gen"
	"verif/internal/vt"
)

func TestMain(m *testing.M) { vt.Main(m) }

type failer interface {
	Fatalf(format string, args ...any)
}

type exhFail struct {
	t testing.TB
	c any
}

func (e exhFail) Fatalf(format string, args ...any) { vt.Violation(e.t, e.c, format, args...) }

// ---------------------------------------------------------------- timeval

func checkTimeval(t failer, n int64) {
	tv := unixutil.TimevalFromNsec(n)
	if tv.Usec < 0 || tv.Usec >= 1e9 {
		t.Fatalf("TimevalFromNsec(%d): sub-second part %d not in [0,1e9)", n, tv.Usec)
	}
	s := new(big.Int).Mul(big.NewInt(tv.Sec), big.NewInt(1e9))
	s.Add(s, big.NewInt(tv.Usec))
	if s.Cmp(big.NewInt(n)) != 0 {
		t.Fatalf("TimevalFromNsec(%d) = {%d, %d}: sec*1e9+sub = %v", n, tv.Sec, tv.Usec, s)
	}
}

var recTv = ev.New("c18/timeval", "rapid: int64 nanosecond counts (corners, +-k*1e9+-{0,1}, powers of two, uniform); oracle: 0 <= sub < 1e9 and sec*1e9+sub == n in big-integer arithmetic. Non-trivial: negative n with non-zero remainder; distinct by n")

func TestPropTimeval(t *testing.T) {
	vt.Check(t, 400000, 6000000, func(t *rapid.T) {
		n := rapid.OneOf(gen.Int64Mix(),
			rapid.Map(rapid.Int64Range(-9223372036, 9223372036), func(k int64) int64 { return k * 1e9 }),
			rapid.Custom(func(t *rapid.T) int64 {
				k := rapid.Int64Range(-9223372035, 9223372035).Draw(t, "k")
				return k*1e9 + rapid.Int64Range(-2, 2).Draw(t, "d")
			})).Draw(t, "n")
		checkTimeval(t, n)
		recTv.Eval(n < 0 && n%1e9 != 0, ev.Hash(n), func() any { return n })
	})
}

// ---------------------------------------------------------------- scaled ppm

const maxScaled = 32768000 // +-500 ppm in 2^-16 ppm units (kernel MAXFREQ_SCALED)

func checkScaled(t failer, s int64) {
	f := unixutil.FreqFromScaledPPM(s)
	s2 := unixutil.ScaledPPMFromFreq(f)
	if d := s2 - s; d > 1 || d < -1 {
		t.Fatalf("ScaledPPMFromFreq(FreqFromScaledPPM(%d)) = %d", s, s2)
	}
	want := new(big.Float).Quo(big.NewFloat(float64(s)), big.NewFloat(65536e6))
	wf, _ := want.Float64()
	if math.Abs(f-wf) > math.Abs(wf)*1e-15 {
		t.Fatalf("FreqFromScaledPPM(%d) = %g, want %g", s, f, wf)
	}
}

var (
	recSc  = ev.New("c18/scaledppm-sweep", "enumeration of scaled-ppm values |s| <= 32768000 (thorough: all 65536001 values sharded, exhaustive; quick: every 257th from VERIF_SEED mod 257): |ScaledPPMFromFreq(FreqFromScaledPPM(s)) - s| <= 1 and FreqFromScaledPPM monotone. Non-trivial: s != 0")
	recFrq = ev.New("c18/freq", "rapid: frequencies |f| <= 500e-6 (and tiny/edge values): |Freq(Scaled(f)) - f| <= 2^-16 ppm, Scaled monotone in f. Non-trivial: f not representable exactly (f*65536e6 not integral)")
)

func TestExhaustiveScaledPPM(t *testing.T) {
	lo, hi, stride := int64(-maxScaled)+int64(vt.Seed()%257), int64(maxScaled), int64(257)
	if vt.Thorough() {
		per := (2*int64(maxScaled) + 1 + int64(vt.Shards()) - 1) / int64(vt.Shards())
		lo, stride = -maxScaled+per*int64(vt.Shard()), 1
		hi = min(int64(maxScaled), lo+per-1)
		recSc.Exhaustive = true
	}
	prev := math.Inf(-1)
	var n int64
	for s := lo; s <= hi; s += stride {
		checkScaled(exhFail{t, map[string]any{"scaled": s}}, s)
		f := unixutil.FreqFromScaledPPM(s)
		if f <= prev {
			vt.Violation(t, map[string]any{"scaled": s}, "FreqFromScaledPPM not strictly monotone at %d", s)
		}
		prev = f
		n++
	}
	recSc.Count(n)
	recSc.AddDistinct(uint64(lo), min(n, 1<<16))
	recSc.Sample(map[string]any{"from": lo, "to": hi, "stride": stride, "count": n})
}

func TestPropFreq(t *testing.T) {
	vt.Check(t, 200000, 2000000, func(t *rapid.T) {
		fg := rapid.OneOf(rapid.Float64Range(-500e-6, 500e-6), rapid.Float64Range(-1e-9, 1e-9),
			rapid.SampledFrom([]float64{0, 500e-6, -500e-6, 1.0 / 65536e6, -1.0 / 65536e6, 1e-6, -1e-6}))
		f := fg.Draw(t, "f")
		s := unixutil.ScaledPPMFromFreq(f)
		f2 := unixutil.FreqFromScaledPPM(s)
		if math.Abs(f2-f) > 1.0/65536e6*(1+1e-9) {
			t.Fatalf("Freq(Scaled(%g)) = %g (scaled %d): differs by more than one unit 2^-16 ppm", f, f2, s)
		}
		g := fg.Draw(t, "g")
		if f <= g && s > unixutil.ScaledPPMFromFreq(g) {
			t.Fatalf("ScaledPPMFromFreq not monotone: %g -> %d, %g -> %d", f, s, g, unixutil.ScaledPPMFromFreq(g))
		}
		x := f * 65536e6
		recFrq.Eval(x != math.Trunc(x), ev.Hash(math.Float64bits(f)), func() any { return f })
	})
}

// ---------------------------------------------------------------- drift

var recDrift = ev.New("c18/drift", "rapid: configured drift (1 ns .. 1 s per second, and unknown), interval d in [0, 40 days] and, for a third of the draws, anywhere up to the largest duration (the allowance of a 1 s/s drift over it is the largest duration itself): Drift(d) = d*rate within 1 ns + 1e-12 relative, monotone in d, additive within 2 ns, unknown drift -> MaxInt64. Non-trivial: d >= 1 s and drift known; distinct by (drift, d)")

func TestPropDrift(t *testing.T) {
	log := slog.New(slog.NewTextHandler(io.Discard, nil))
	vt.Check(t, 100000, 1000000, func(t *rapid.T) {
		drift := rapid.OneOf(rapid.Int64Range(1, int64(time.Second)), rapid.Int64Range(1, 1000000),
			rapid.SampledFrom([]int64{0, 1, 1000, 250000, 1000000, int64(time.Second)})).Draw(t, "drift")
		dg := rapid.OneOf(rapid.Int64Range(0, int64(40*24*time.Hour)), rapid.Int64Range(0, int64(100*time.Second)),
			rapid.SampledFrom([]int64{0, 1, int64(time.Second), int64(time.Second) - 1, int64(time.Second) + 1, int64(time.Hour)}),
			rapid.Int64Range(0, math.MaxInt64), rapid.SampledFrom([]int64{math.MaxInt64, math.MaxInt64 - 1, math.MaxInt64 - 512, 1 << 62}))
		d1, d2 := dg.Draw(t, "d1"), dg.Draw(t, "d2")
		c := clocks.NewSystemClock(log, time.Duration(drift))
		r1, r2 := int64(c.Drift(time.Duration(d1))), int64(c.Drift(time.Duration(d2)))
		if drift == clocks.UnknownDrift {
			if r1 != math.MaxInt64 {
				t.Fatalf("unknown drift: Drift(%d) = %d, want MaxInt64", d1, r1)
			}
			recDrift.Eval(false, 0, nil, "unknown")
			return
		}
		rate := new(big.Rat).SetFrac64(drift, int64(time.Second))
		for _, p := range [][2]int64{{d1, r1}, {d2, r2}} {
			want := new(big.Rat).Mul(rate, new(big.Rat).SetInt64(p[0]))
			wf, _ := want.Float64()
			if math.Abs(float64(p[1])-wf) > 1+wf*1e-12 {
				t.Fatalf("drift %dns/s: Drift(%d) = %d, want %.3f", drift, p[0], p[1], wf)
			}
		}
		if d1 <= d2 && r1 > r2 {
			t.Fatalf("Drift not monotone: drift %d: Drift(%d)=%d > Drift(%d)=%d", drift, d1, r1, d2, r2)
		}
		if d1 <= int64(40*24*time.Hour) && d2 <= int64(40*24*time.Hour) && d1+d2 <= int64(40*24*time.Hour) {
			r12 := int64(c.Drift(time.Duration(d1 + d2)))
			if x := r12 - r1 - r2; x > 2 || x < -2 {
				t.Fatalf("Drift not additive: drift %d: Drift(%d)=%d, Drift(%d)=%d, Drift(sum)=%d", drift, d1, r1, d2, r2, r12)
			}
		}
		recDrift.Eval(d1 >= int64(time.Second), ev.Hash(drift, d1), func() any { return map[string]int64{"drift_ns_per_s": drift, "interval_ns": d1, "allowance_ns": r1} })
	})
}

// ---------------------------------------------------------------- CSPTP timestamps / intervals

var (
	recTs = ev.New("c18/csptp-timestamp", "rapid: seconds in [0, 2^48) (boundary dense: 0, 2^32-1, 2^32, 2^40, 2^48-1) x nanoseconds in [0,1e9): TimeFromTimestamp(TimestampFromTime(t)) == t and the inverse on valid timestamps; out-of-range seconds panic. Non-trivial: seconds >= 2^32; distinct by (sec, ns)")
	recTi = ev.New("c18/csptp-timeinterval", "rapid: all int64 correction fields: DurationFromTimeInterval(i) == floor(i / 2^16) (big-integer floor). Non-trivial: negative i with non-zero low 16 bits")
	recFo = ev.New("c18/csptp-offset-formulas", "rapid: true offset theta, symmetric delay d >= 0, corrections c1,c3, UTC correction u, instants t0,t2 (magnitudes up to 2^60 ns so nothing overflows int64 / time.Sub): with t1=t0+d+theta+c1, t3=t2+d-theta+c3: ClockOffset == theta, MeanPathDelay == d, C2SDelay == d+theta-u, S2CDelay == d-theta+u exactly. Non-trivial: theta != 0 and d != 0 with magnitudes differing by >= 10^3; distinct by all inputs")
)

func TestPropCSPTPTimestamp(t *testing.T) {
	const max48 = int64(1)<<48 - 1
	vt.Check(t, 200000, 2000000, func(t *rapid.T) {
		sec := rapid.OneOf(rapid.Int64Range(0, max48), rapid.Int64Range(0, 1<<33),
			rapid.SampledFrom([]int64{0, 1, 1<<32 - 1, 1 << 32, 1<<32 + 1, 1 << 40, 1<<40 - 1, max48, max48 - 1, 255, 256, 65535, 65536})).Draw(t, "sec")
		ns := rapid.OneOf(rapid.Int64Range(0, 999999999), rapid.SampledFrom([]int64{0, 1, 999999999, 255, 256, 65536, 1 << 24})).Draw(t, "ns")
		tt := time.Unix(sec, ns)
		ts := csptp.TimestampFromTime(tt)
		back := csptp.TimeFromTimestamp(ts)
		if !back.Equal(tt) || back.Unix() != sec || int64(back.Nanosecond()) != ns {
			t.Fatalf("timestamp round trip: %d.%09d -> %+v -> %d.%09d", sec, ns, ts, back.Unix(), back.Nanosecond())
		}
		var want csptp.Timestamp
		for i := 0; i < 6; i++ {
			want.Seconds[i] = uint8(uint64(sec) >> (40 - 8*uint(i)))
		}
		want.Nanoseconds = uint32(ns)
		if ts != want {
			t.Fatalf("TimestampFromTime(%d.%09d) = %+v, want %+v", sec, ns, ts, want)
		}
		if csptp.TimestampFromTime(csptp.TimeFromTimestamp(want)) != want {
			t.Fatalf("TimestampFromTime(TimeFromTimestamp(%+v)) differs", want)
		}
		recTs.Eval(sec >= 1<<32, ev.Hash(sec, ns), func() any { return map[string]int64{"sec": sec, "ns": ns} })
	})
}

func TestCSPTPTimestampOutOfRangePanics(t *testing.T) {
	for _, sec := range []int64{-1, -1 << 40, 1 << 48, 1<<48 + 1, 1 << 60} {
		func() {
			defer func() {
				if recover() == nil {
					vt.Violation(t, map[string]any{"sec": sec}, "TimestampFromTime(%d s) outside the 48-bit range did not panic", sec)
				}
			}()
			csptp.TimestampFromTime(time.Unix(sec, 0))
		}()
	}
}

func TestPropTimeInterval(t *testing.T) {
	vt.Check(t, 200000, 2000000, func(t *rapid.T) {
		i := rapid.OneOf(gen.Int64Mix(), rapid.Int64Range(-1<<20, 1<<20)).Draw(t, "i")
		got := int64(csptp.DurationFromTimeInterval(i))
		q, m := new(big.Int).DivMod(big.NewInt(i), big.NewInt(1<<16), new(big.Int)) // Euclidean: m >= 0 => q = floor
		_ = m
		if q.Int64() != got {
			t.Fatalf("DurationFromTimeInterval(%d) = %d, want floor = %v", i, got, q)
		}
		recTi.Eval(i < 0 && i&0xffff != 0, ev.Hash(i), func() any { return i })
	})
}

type fcase struct {
	T0, T2, Theta, D, C1, C3, U int64
}

func checkFormulas(t failer, c fcase) {
	t0 := time.Unix(0, 0).Add(time.Duration(c.T0))
	t2 := time.Unix(0, 0).Add(time.Duration(c.T2))
	t1 := t0.Add(time.Duration(c.D + c.Theta + c.C1))
	t3 := t2.Add(time.Duration(c.D - c.Theta + c.C3))
	c1, c3, u := time.Duration(c.C1), time.Duration(c.C3), time.Duration(c.U)
	if got := int64(csptp.ClockOffset(t0, t1, t2, t3, c1, c3)); got != c.Theta {
		t.Fatalf("ClockOffset = %d, want theta = %d (%+v)", got, c.Theta, c)
	}
	if got := int64(csptp.MeanPathDelay(t0, t1, t2, t3, c1, c3)); got != c.D {
		t.Fatalf("MeanPathDelay = %d, want d = %d (%+v)", got, c.D, c)
	}
	if got := int64(csptp.C2SDelay(t0, t1, c1, u)); got != c.D+c.Theta-c.U {
		t.Fatalf("C2SDelay = %d, want %d (%+v)", got, c.D+c.Theta-c.U, c)
	}
	if got := int64(csptp.S2CDelay(t2, t3, c3, u)); got != c.D-c.Theta+c.U {
		t.Fatalf("S2CDelay = %d, want %d (%+v)", got, c.D-c.Theta+c.U, c)
	}
}

func magGen(lim int64, signed bool) *rapid.Generator[int64] {
	lo := int64(0)
	if signed {
		lo = -lim
	}
	small := int64(0)
	if signed {
		small = -1000
	}
	return rapid.OneOf(rapid.Int64Range(lo, lim), rapid.Int64Range(small, 1000), rapid.Int64Range(small*1e6, 1e9),
		rapid.SampledFrom([]int64{0, 1, lim, lim - 1, 37e9}))
}

func TestPropCSPTPFormulas(t *testing.T) {
	const lim = int64(1) << 60
	vt.Check(t, 200000, 2000000, func(t *rapid.T) {
		c := fcase{
			T0:    rapid.Int64Range(0, 1<<62).Draw(t, "t0"),
			Theta: magGen(lim, true).Draw(t, "theta"),
			D:     magGen(lim, false).Draw(t, "d"),
			C1:    magGen(lim, true).Draw(t, "c1"),
			C3:    magGen(lim, true).Draw(t, "c3"),
			U:     magGen(lim, true).Draw(t, "u"),
		}
		c.T2 = rapid.OneOf(rapid.Int64Range(0, 1<<62), rapid.Just(c.T0)).Draw(t, "t2")
		checkFormulas(t, c)
		a, b := math.Abs(float64(c.Theta)), math.Abs(float64(c.D))
		nt := c.Theta != 0 && c.D != 0 && (a >= 1000*b || b >= 1000*a)
		recFo.Eval(nt, ev.Hash(c.T0, c.T2, c.Theta, c.D, c.C1, c.C3, c.U), func() any { return c })
	})
}

func TestReplay(t *testing.T) {
	files, _ := filepath.Glob(filepath.Join(vt.CorpusDir("C18"), "*.json"))
	if p := vt.ReplayCase(); p != "" {
		files = []string{p}
	}
	for _, p := range files {
		b, err := os.ReadFile(p)
		if err != nil {
			t.Fatal(err)
		}
		var w struct {
			Case map[string]json.Number `json:"case"`
		}
		if err := json.Unmarshal(b, &w); err != nil {
			t.Fatalf("%s: %v", p, err)
		}
		if v, ok := w.Case["scaled"]; ok {
			s, _ := v.Int64()
			checkScaled(exhFail{t, w.Case}, s)
		}
		if v, ok := w.Case["nsec"]; ok {
			n, _ := v.Int64()
			checkTimeval(exhFail{t, w.Case}, n)
		}
	}
}
