package c15

import (
	"bytes"
	"context"
	crand "crypto/rand"
	"encoding/binary"
	"fmt"
	"io"
	"log/slog"
	"math"
	"net"
	"os"
	"slices"
	"sort"
	"sync"
	"testing"
	"time"

	"github.com/scionproto/scion/pkg/addr"
	"github.com/scionproto/scion/pkg/snet"
	"pgregory.net/rapid"

	"example.com/scion-time/base/crypto"
	"example.com/scion-time/core/client"
	"example.com/scion-time/core/timebase"
	"example.com/scion-time/driver/clocks"
	"example.com/scion-time/net/ntp"
	"example.com/scion-time/net/udp"

	"verif/internal/ev"
	"verif/internal/netlab"
	"verif/internal/vt"
	"verif/internal/wire"
)

const nHops = 10

var hops []*hopT

func TestMain(m *testing.M) {
	timebase.RegisterClock(clocks.NewSystemClock(slog.New(slog.NewTextHandler(io.Discard, nil)), clocks.UnknownDrift))
	for i := 0; i < nHops; i++ {
		h, err := newHop(i)
		if err != nil {
			fmt.Println("VERIF-INCONCLUSIVE: cannot bind next-hop sockets:", err)
			os.Exit(0)
		}
		hops = append(hops, h)
	}
	vt.Main(m)
}

// ---------------------------------------------------------------- scripted randomness

type wordReader struct {
	words []uint64
	pos   int
	reads int
}

func (r *wordReader) Read(p []byte) (int, error) {
	for i := 0; i < len(p); i += 8 {
		var w uint64
		if r.pos < len(r.words) {
			w = r.words[r.pos]
		} else {
			w = 0xffffffffffffffff - uint64(r.pos) // accepted by any bound
		}
		r.pos++
		var b [8]byte
		binary.LittleEndian.PutUint64(b[:], w)
		copy(p[i:], b[:])
	}
	r.reads++
	return len(p), nil
}

func withReader(r io.Reader, f func()) {
	old := crand.Reader
	crand.Reader = r
	defer func() { crand.Reader = old }()
	f()
}

// ---------------------------------------------------------------- layer 1: RandIntn / Sample

var (
	recRand = ev.New("c15/randintn", "rapid: bounds n in 1..2^31-1 (and > 2^31 for the 64-bit path; boundary-dense) with crypto/rand.Reader replaced by a reader serving rapid-drawn words including the boundary words 0, t-1, t, t+1, n-1, n, 2^32-1 (t = 2^32 mod n): the result equals the last consumed word mod n and is < n; every word consumed before the last one (i.e. rejected) is <= t, so at most n of the 2^32 words can ever be rejected; a cancelled context ends a rejection loop with an error. Non-trivial: at least one word was rejected; distinct by (n, words)")
	recSamp = ev.New("c15/sample-validity", "rapid: k, n in 0..200 with scripted words: Sample returns min(k,n) and replaying its pick(dst,src) calls on an identity array yields pairwise distinct sources < n. Non-trivial: 0 < k < n; distinct by (k,n,words)")
	recUni  = ev.New("c15/sample-uniformity-exhaustive", "enumeration for all 0 <= k <= n <= 7: the reader is scripted so that the i-th draw returns each j in 0..i in turn; over the complete product of draws (n!/k! tuples, equally likely under uniform draws) every k-subset is selected exactly (n-k)! times. Non-trivial: 0 < k < n")
)

func TestPropRandIntn(t *testing.T) {
	vt.Check(t, 100000, 1000000, func(t *rapid.T) {
		big := rapid.IntRange(0, 9).Draw(t, "64bit") == 7
		var n int
		if big {
			n = int(rapid.Int64Range(math.MaxInt32+1, math.MaxInt64).Draw(t, "n"))
		} else {
			n = rapid.OneOf(rapid.IntRange(1, math.MaxInt32), rapid.IntRange(1, 100),
				rapid.SampledFrom([]int{1, 2, 3, 5, 6, 7, 1 << 16, 1<<16 + 1, 1 << 30, 1<<30 + 1, 1<<31 - 1, 1<<31 - 2, 3 << 29})).Draw(t, "n")
		}
		var tt uint64
		if big {
			tt = (-uint64(n)) % uint64(n)
		} else {
			tt = uint64(uint32(-n) % uint32(n))
		}
		wg := rapid.OneOf(rapid.Uint64(), rapid.Uint64Range(0, uint64(n)),
			rapid.SampledFrom([]uint64{0, tt, tt + 1, tt - 1, uint64(n) - 1, uint64(n), 1<<32 - 1, 1 << 32, math.MaxUint64}))
		words := rapid.SliceOfN(wg, 1, 6).Draw(t, "words")
		r := &wordReader{words: words}
		var got int
		var err error
		disarm := vt.Watchdog(t, 20*time.Second, map[string]any{"n": n, "words": words}, "RandIntn does not return although acceptable words are supplied")
		withReader(r, func() { got, err = crypto.RandIntn(context.Background(), n) })
		disarm()
		if err != nil {
			t.Fatalf("RandIntn(%d) failed: %v", n, err)
		}
		if got < 0 || got >= n {
			t.Fatalf("RandIntn(%d) = %d", n, got)
		}
		consumed := r.pos
		if n == 1 {
			if got != 0 {
				t.Fatalf("RandIntn(1) = %d", got)
			}
			recRand.Eval(false, 0, nil)
			return
		}
		word := func(i int) uint64 {
			w := uint64(0xffffffffffffffff) - uint64(i)
			if i < len(words) {
				w = words[i]
			}
			if !big {
				w &= 0xffffffff
			}
			return w
		}
		if consumed < 1 {
			t.Fatalf("RandIntn(%d) consumed no randomness", n)
		}
		last := word(consumed - 1)
		if uint64(got) != last%uint64(n) {
			t.Fatalf("RandIntn(%d) = %d, last consumed word %d mod n = %d", n, got, last, last%uint64(n))
		}
		for i := 0; i < consumed-1; i++ {
			if w := word(i); w > tt {
				t.Fatalf("RandIntn(%d) rejected word %d although only words <= 2^k mod n = %d may be rejected", n, w, tt)
			}
		}
		recRand.Eval(consumed > 1, ev.Hash(n, fmt.Sprint(words)), func() any { return map[string]any{"n": n, "words": words, "result": got, "consumed": consumed} })
	})
}

func TestRandIntnCancelled(t *testing.T) {
	ctx, cancel := context.WithCancel(context.Background())
	cancel()
	r := &wordReader{words: []uint64{0, 0, 0, 0, 0, 0, 0, 0}}
	var err error
	done := make(chan struct{})
	go func() {
		defer close(done)
		withReader(r, func() { _, err = crypto.RandIntn(ctx, 1000) })
	}()
	select {
	case <-done:
	case <-time.After(10 * time.Second):
		vt.Violation(t, map[string]any{"n": 1000}, "RandIntn with only rejected words and a cancelled context does not return")
	}
	if err == nil && r.pos <= 8 {
		vt.Violation(t, map[string]any{"n": 1000}, "RandIntn returned without error although every word it saw had to be rejected")
	}
}

func replaySample(k, n int, words []uint64) (res int, srcs []int, err error) {
	arr := make([]int, max(n, 1))
	for i := range arr {
		arr[i] = i
	}
	r := &wordReader{words: words}
	withReader(r, func() {
		res, err = crypto.Sample(context.Background(), k, n, func(dst, src int) { arr[dst] = arr[src] })
	})
	return res, arr[:min(res, len(arr))], err
}

func TestPropSample(t *testing.T) {
	vt.Check(t, 30000, 300000, func(t *rapid.T) {
		n := rapid.OneOf(rapid.IntRange(0, 200), rapid.IntRange(0, 12)).Draw(t, "n")
		k := rapid.OneOf(rapid.IntRange(0, 200), rapid.IntRange(0, 12)).Draw(t, "k")
		words := rapid.SliceOfN(rapid.OneOf(rapid.Uint64(), rapid.Uint64Range(0, 300)), 0, 220).Draw(t, "words")
		res, srcs, err := replaySample(k, n, words)
		if err != nil {
			t.Fatalf("Sample(%d,%d): %v", k, n, err)
		}
		if res != min(k, n) {
			t.Fatalf("Sample(%d,%d) = %d, want %d", k, n, res, min(k, n))
		}
		seen := map[int]bool{}
		for _, s := range srcs {
			if s < 0 || s >= n || seen[s] {
				t.Fatalf("Sample(%d,%d) selected sources %v (duplicate or out of range)", k, n, srcs)
			}
			seen[s] = true
		}
		recSamp.Eval(k > 0 && k < n, ev.Hash(k, n, fmt.Sprint(words)), func() any { return map[string]any{"k": k, "n": n, "selected": srcs} })
	})
}

func TestExhaustiveSampleUniformity(t *testing.T) {
	recUni.Exhaustive = true
	var evals int64
	for n := 0; n <= 7; n++ {
		for k := 0; k <= n; k++ {
			counts := map[string]int{}
			// draws happen for i = k..n-1 with bound i+1 (a bound of 1 draws nothing)
			var bounds []int
			for i := k; i < n; i++ {
				if i+1 >= 2 {
					bounds = append(bounds, i+1)
				}
			}
			idx := make([]int, len(bounds))
			total := 0
			for {
				words := make([]uint64, len(bounds))
				for d, b := range bounds {
					words[d] = uint64(idx[d] + b*1000) // accepted (> 2^32 mod b), residue idx[d]
				}
				res, srcs, err := replaySample(k, n, words)
				if err != nil || res != k {
					vt.Violation(t, map[string]any{"k": k, "n": n, "draws": idx}, "Sample(%d,%d) = %d, %v", k, n, res, err)
				}
				s := slices.Clone(srcs)
				sort.Ints(s)
				counts[fmt.Sprint(s)]++
				total++
				evals++
				d := 0
				for d < len(idx) {
					idx[d]++
					if idx[d] < bounds[d] {
						break
					}
					idx[d] = 0
					d++
				}
				if d == len(idx) {
					break
				}
			}
			fact := func(x int) int {
				r := 1
				for i := 2; i <= x; i++ {
					r *= i
				}
				return r
			}
			wantSubsets := fact(n) / (fact(k) * fact(n-k))
			if len(counts) != wantSubsets {
				vt.Violation(t, map[string]any{"k": k, "n": n}, "Sample(%d,%d): %d distinct subsets selected over all draw tuples, want C(n,k) = %d", k, n, len(counts), wantSubsets)
			}
			for s, c := range counts {
				if c != total/wantSubsets {
					vt.Violation(t, map[string]any{"k": k, "n": n, "subset": s}, "Sample(%d,%d): subset %s selected %d times of %d equally likely draw tuples, uniform would be %d", k, n, s, c, total, total/wantSubsets)
				}
			}
			if k > 0 && k < n {
				recUni.AddDistinct(uint64(n*10+k), int64(len(counts)))
			}
		}
	}
	recUni.Count(evals)
	recUni.Sample(map[string]any{"k_n_pairs": 36, "draw_tuples": evals})
}

// ---------------------------------------------------------------- layer 2: multipath round on loopback

type exRec struct {
	hop        int
	round      int
	rx64, tx64 ntp.Time64
	origin     ntp.Time64
	interleavedForm bool // the request has the form of an interleaved request (origin != 0)
	cited      *exRec
	servedInterleaved bool
	theta      time.Duration
}

type hopT struct {
	idx   int
	conn  *net.UDPConn
	mu    sync.Mutex
	theta time.Duration
	drop  bool
	refuse bool // answer at once, but as an unsynchronized server (leap indicator 3): the client gets an immediate error
	// refuseFollowUps: the first request of a round is answered properly (basic mode), every further one of the
	// same round is refused - a server that rate-limits the rapid follow-ups of a client seeking interleaved mode
	refuseFollowUps bool
	round           int
	recs  []*exRec
	byRx  map[ntp.Time64]*exRec
}

func newHop(i int) (*hopT, error) {
	c, err := net.ListenUDP("udp", netlab.UDPAddr(netlab.Addr(2), 13000+i))
	if err != nil {
		return nil, err
	}
	h := &hopT{idx: i, conn: c, byRx: map[ntp.Time64]*exRec{}}
	go h.loop()
	return h, nil
}

// loop plays border router and time server in one: answers every SCION/UDP NTP request with the model's reply.
func (h *hopT) loop() {
	buf := make([]byte, 16384)
	for {
		n, from, err := h.conn.ReadFromUDP(buf)
		if err != nil {
			return
		}
		r := netlab.Now()
		p, err := wire.Parse(buf[:n])
		if err != nil || !p.IsUDP || len(p.UDP.Payload) < 48 {
			continue
		}
		var q ntp.Packet
		ntp.DecodePacket(&q, p.UDP.Payload)
		h.mu.Lock()
		theta, drop, refuse, round := h.theta, h.drop, h.refuse, h.round
		e := &exRec{hop: h.idx, round: round, origin: q.OriginTime, interleavedForm: q.OriginTime != (ntp.Time64{}), theta: theta}
		e.rx64 = ntp.Time64FromTime(r.Add(theta))
		e.cited = h.byRx[q.OriginTime]
		h.recs = append(h.recs, e)
		if h.refuseFollowUps && len(h.recs) > 1 {
			refuse, e.cited = true, nil
		}
		h.mu.Unlock()
		if drop {
			continue
		}
		var resp ntp.Packet
		resp.SetVersion(4)
		resp.SetMode(ntp.ModeServer)
		resp.Stratum = 1
		resp.ReceiveTime = e.rx64
		s := netlab.Now()
		e.tx64 = ntp.Time64FromTime(s.Add(theta))
		if e.cited != nil && q.ReceiveTime != q.TransmitTime {
			e.servedInterleaved = true
			resp.OriginTime = q.ReceiveTime
			resp.TransmitTime = e.cited.tx64
		} else {
			resp.OriginTime = q.TransmitTime
			resp.TransmitTime = e.tx64
		}
		if !refuse {
			h.mu.Lock()
			h.byRx[e.rx64] = e
			h.mu.Unlock()
		}
		b := make([]byte, 48)
		ntp.EncodePacket(&b, &resp)
		if refuse {
			b[0] |= 0xc0
		}
		rev, err := p.SCION.Path.Reverse()
		if err != nil {
			continue
		}
		src, _ := p.SrcAddr()
		dst, _ := p.DstAddr()
		out := wire.Pkt{SrcIA: p.SCION.DstIA, DstIA: p.SCION.SrcIA, Src: dst, Dst: src, Path: rev, SrcPort: p.UDP.DstPort, DstPort: p.UDP.SrcPort, Payload: b}
		raw, err := out.Serialize(nil, nil)
		if err != nil {
			continue
		}
		h.conn.WriteToUDP(raw, from)
	}
}

type countingFilter struct {
	resets int
}

func (f *countingFilter) Do(t0, t1, t2, t3 time.Time) time.Duration { return ntp.ClockOffset(t0, t1, t2, t3) }
func (f *countingFilter) Reset()                                    { f.resets++ }

func ia(isd uint16, as uint64) addr.IA { return addr.MustIAFrom(addr.ISD(isd), addr.AS(as)) }

var thetaSeq int64

func ftm(vs []time.Duration) time.Duration {
	s := slices.Clone(vs)
	slices.Sort(s)
	f := (len(s) - 1) / 3
	return s[f] + (s[len(s)-1-f]-s[f])/2
}

// fingerprints: the sorted path fingerprints of a list.
func fingerprints(ps []snet.Path) []string {
	var fs []string
	for _, p := range ps {
		fs = append(fs, fmt.Sprintf("%x", string(snet.Fingerprint(p)))[:12])
	}
	slices.Sort(fs)
	return fs
}

var recRound = ev.New("c15/multipath-rounds", "rapid state machine over rounds of the real MeasureClockOffsetSCION on loopback: 1..5 real SCIONClients (interleaved mode on/off, counting filters), 0..8 offered paths per round (subset / superset / permutation of the previous round's, withdrawals) whose next hops are distinct harness sockets that answer as SCION time servers with per-path clock offsets >= 2 s apart; per-path faults: no answer, an immediate refusal (reply with leap indicator 3, so that a failed measurement completes before the successful ones), or a proper answer to the first request of the round and refusals of the follow-ups (the path still contributes its value); crypto/rand scripted with rapid-drawn words. Oracle per round: the offered list holds the same paths after the call (callers offer it again); no path => error and no request, and every client that was in interleaved mode is reset with its filter; otherwise the number of next hops that saw a request equals min(clients, paths) and no hop serves two clients; a client in interleaved mode whose previous path is still offered sends an interleaved-form request to exactly that path's next hop, a client whose previous path was withdrawn sends a basic request and its filter was reset; the returned offset is the fault-tolerant midpoint of the offsets of the paths that answered (450 ms tolerance; per-path offsets are >= 2 s apart) and an error is returned when none answered. One evaluation = one round. Non-trivial: round with >= 1 sticky client and >= 1 withdrawn path, or more clients than paths > 0, or no path offered to >= 1 client in interleaved mode; distinct by round-log hash")

func TestPropMultipathRounds(t *testing.T) {
	vt.Check(t, 300, 1500, func(t *rapid.T) {
		m := rapid.IntRange(1, 5).Draw(t, "clients")
		var cs []*client.SCIONClient
		var fs []*countingFilter
		for i := 0; i < m; i++ {
			f := &countingFilter{}
			c := &client.SCIONClient{Log: slog.New(slog.NewTextHandler(io.Discard, nil)), InterleavedMode: rapid.IntRange(0, 3).Draw(t, "interleaved") > 0, Filter: f}
			cs, fs = append(cs, c), append(fs, f)
		}
		lIA, rIA := ia(1, 0xff0000000110), ia(2, 0xff0000000220)
		local := udp.UDPAddr{IA: lIA, Host: netlab.UDPAddr(netlab.Addr(1), 0)}
		remote := udp.UDPAddr{IA: rIA, Host: netlab.UDPAddr(netlab.Addr(3), 10123)}
		mkPath := func(i int) snet.Path {
			ps := wire.PathSpec{Kind: "scion", SegLens: []int{2, 1 + i%2}, ConsDir: []bool{true, false}, Seed: uint64(1000 + i)}
			p, err := ps.SnetPath(lIA, rIA, hops[i].conn.LocalAddr().(*net.UDPAddr), []snet.PathInterface{{ID: 1, IA: lIA}, {ID: 100 + 0, IA: ia(3, uint64(0xff0000000300+i))}, {ID: 2, IA: rIA}})
			if err != nil {
				panic(err)
			}
			return p
		}
		fpToHop := map[string]int{}
		for i := 0; i < nHops; i++ {
			fpToHop[snet.Fingerprint(mkPath(i)).String()] = i
		}
		offered := []int{}
		var log []string
		nontrivial := false
		nrounds := rapid.IntRange(1, 7).Draw(t, "rounds")
		for round := 0; round < nrounds; round++ {
			// next path set
			switch rapid.SampledFrom([]string{"fresh", "fresh", "keep", "keep", "withdraw-some", "withdraw-some", "add-some", "none"}).Draw(t, "pathset") {
			case "fresh":
				np := rapid.SampledFrom([]int{1, 2, 3, 4, 5, 6, 7, 8, 2, 3, 4}).Draw(t, "npaths")
				offered = slices.Clone(rapid.Permutation([]int{0, 1, 2, 3, 4, 5, 6, 7, 8, 9}).Draw(t, "paths")[:np])
			case "withdraw-some":
				if len(offered) > 0 {
					k := rapid.SampledFrom([]int{len(offered) - 1, len(offered) - 1, len(offered) / 2, 1, 0}).Draw(t, "nkeep")
					k = max(0, min(k, len(offered)-1))
					offered = slices.Clone(rapid.Permutation(offered).Draw(t, "perm")[:k])
				}
			case "add-some":
				for _, x := range rapid.SliceOfNDistinct(rapid.IntRange(0, nHops-1), 0, 3, func(x int) int { return x }).Draw(t, "add") {
					if !slices.Contains(offered, x) {
						offered = append(offered, x)
					}
				}
			case "none":
				if rapid.IntRange(0, 1).Draw(t, "really-none") == 1 {
					offered = nil
				}
			}
			offered = rapid.Permutation(offered).Draw(t, "order")
			// per-hop configuration
			dropSet := map[int]bool{}
			refuseSet := map[int]bool{}
			followSet := map[int]bool{}
			thetas := map[int]time.Duration{}
			for _, hidx := range offered {
				thetaSeq++
				th := time.Duration(thetaSeq) * 2 * time.Second
				if thetaSeq%2 == 0 {
					th = -th
				}
				thetas[hidx] = th
				dropSet[hidx] = rapid.IntRange(0, 7).Draw(t, "drop") == 5
				if !dropSet[hidx] && rapid.IntRange(0, 5).Draw(t, "refuse") == 3 {
					refuseSet[hidx] = true
				}
				if !dropSet[hidx] && !refuseSet[hidx] && rapid.IntRange(0, 5).Draw(t, "refuse-follow-ups") == 2 {
					followSet[hidx] = true
				}
			}
			for i, h := range hops {
				h.mu.Lock()
				h.theta, h.drop, h.refuse, h.refuseFollowUps, h.round, h.recs = thetas[i], dropSet[i], refuseSet[i], followSet[i], round, nil
				h.mu.Unlock()
			}
			// a path whose server refuses contributes no value, exactly like a path that does not answer - but the
			// client learns it at once, before the other paths' results are in
			noValue := map[int]bool{}
			for k, v := range dropSet {
				noValue[k] = v
			}
			for k := range refuseSet {
				noValue[k] = true
			}
			// expectations from the clients' public state
			type exp struct {
				sticky bool
				hop    int
				resets int
				wasInterleaved bool
			}
			exps := make([]exp, m)
			nSticky := 0
			usedSticky := map[int]bool{}
			for i, c := range cs {
				exps[i].resets = fs[i].resets
				exps[i].wasInterleaved = c.InInterleavedMode()
				if fp := c.InterleavedModePath(); fp != "" {
					if hidx, ok := fpToHop[fp]; ok && slices.Contains(offered, hidx) && !usedSticky[hidx] {
						exps[i].sticky, exps[i].hop = true, hidx
						usedSticky[hidx] = true
						nSticky++
					}
				}
			}
			var ps []snet.Path
			for _, hidx := range offered {
				ps = append(ps, mkPath(hidx))
			}
			words := rapid.SliceOfN(rapid.Uint64(), 0, 12).Draw(t, "random-words")
			anyDrop := false
			for _, d := range dropSet {
				anyDrop = anyDrop || d
			}
			dl := 2 * time.Second // nothing is dropped: only a failing round waits this long
			if anyDrop {
				dl = 120 * time.Millisecond
			}
			ctx, cancel := context.WithTimeout(context.Background(), dl)
			var off time.Duration
			var err error
			fpsBefore := fingerprints(ps)
			withReader(&wordReader{words: words}, func() {
				_, off, err = client.MeasureClockOffsetSCION(ctx, cs[0].Log, cs, local, remote, ps)
			})
			cancel()
			// the caller's list: callers offer the same slice again in the next round (benchmark/client_scion.go fetches
			// its list once for 10 000 rounds), so it has to come back holding the same paths, in whatever order
			if fpsAfter := fingerprints(ps); !slices.Equal(fpsBefore, fpsAfter) {
				t.Fatalf("round %d: the path list the caller offered holds other paths after the call: before %v, after %v (history %v)", round, fpsBefore, fpsAfter, log)
			}
			time.Sleep(3 * time.Millisecond)
			// what the hops saw
			used := map[int][]*exRec{}
			for i, h := range hops {
				h.mu.Lock()
				if len(h.recs) > 0 {
					used[i] = h.recs
				}
				h.mu.Unlock()
			}
			log = append(log, fmt.Sprintf("round %d: offered %v drop %v refuse %v -> hops used %d err=%v off=%v", round, offered, keys(dropSet), keys(refuseSet), len(used), err, off))
			if len(offered) == 0 {
				if err == nil || len(used) != 0 {
					t.Fatalf("no path offered: err=%v, %d next hops saw requests", err, len(used))
				}
				// every client's previous path is "no longer offered": interleaved clients are reset with their filters
				nReset := 0
				for i, c := range cs {
					if !exps[i].wasInterleaved {
						continue
					}
					nReset++
					if c.InInterleavedMode() || fs[i].resets == exps[i].resets {
						t.Fatalf("round %d offered no path: client %d was in interleaved mode before it; afterwards in interleaved mode = %v, filter resets %d -> %d (its path is not offered any more: client and filter are to be reset; log %v)", round, i, c.InInterleavedMode(), exps[i].resets, fs[i].resets, log)
					}
				}
				if nReset > 0 {
					recRound.Eval(true, ev.Hash("no-path", round, nReset, fmt.Sprint(log)), nil, "no-path", "no-path-with-interleaved-client")
				} else {
					recRound.Eval(false, 0, nil, "no-path")
				}
				continue
			}
			want := min(m, len(offered))
			if len(used) != want {
				t.Fatalf("%d clients, %d offered paths: %d next hops saw requests, expected %d (log %v)", m, len(offered), len(used), want, log)
			}
			for hidx, recs := range used {
				if !slices.Contains(offered, hidx) {
					t.Fatalf("a request was sent over path %d which was not offered this round (%v)", hidx, offered)
				}
				// all requests at one hop in one round come from one client: at most 3 attempts
				if len(recs) > 3 {
					t.Fatalf("next hop %d saw %d requests in one round (two clients on one path?)", hidx, len(recs))
				}
				first := recs[0]
				if first.interleavedForm {
					// the request continues an earlier exchange: that exchange must have used this very path
					if first.cited == nil || first.cited.hop != hidx {
						t.Fatalf("a client in interleaved mode changed its path: request citing an exchange over path %v arrived at path %d", citedHop(first), hidx)
					}
				}
			}
			for i := range cs {
				e := exps[i]
				if e.sticky {
					recs := used[e.hop]
					if len(recs) == 0 || !recs[0].interleavedForm {
						t.Fatalf("client %d was in interleaved mode over path %d which is still offered, but that path saw %d requests / a basic first request (log %v)", i, e.hop, len(recs), log)
					}
				} else if e.wasInterleaved {
					if fs[i].resets == e.resets {
						t.Fatalf("client %d lost its interleaved-mode path but its filter was not reset", i)
					}
				}
			}
			// interleaved-form first requests must be exactly the sticky ones
			nIl := 0
			for _, recs := range used {
				if recs[0].interleavedForm {
					nIl++
				}
			}
			if nIl != nSticky {
				t.Fatalf("%d paths saw an interleaved-form first request, %d clients were in interleaved mode over a still-offered path", nIl, nSticky)
			}
			// the offset: FTM over the paths that answered
			var answered []time.Duration
			for hidx, recs := range used {
				if noValue[hidx] {
					continue
				}
				// the value a client reports describes the last accepted sub-exchange: current theta for a basic
				// reply, the cited exchange's theta for an interleaved one
				last := recs[len(recs)-1]
				if followSet[hidx] {
					last = recs[0] // only the first request of the round was answered
				}
				th := thetas[hidx]
				if last.servedInterleaved {
					th = thetaOf(last.cited, thetas, hidx)
				}
				answered = append(answered, th)
			}
			if len(answered) == 0 {
				if err == nil {
					t.Fatalf("no path answered but the round reported offset %v without an error", off)
				}
			} else {
				if err != nil && anyDrop {
					// with a short deadline (a path is dropped) a stalled healthy exchange is indistinguishable from loss
					recRound.Label("failed-round-with-short-deadline")
					continue
				}
				if err != nil {
					t.Fatalf("%d paths answered but the round failed: %v", len(answered), err)
				}
				// interleaved sub-exchanges make the exact per-path value depend on earlier rounds' offsets;
				// accept the FTM over any admissible per-path value (current or previous offset of that path)
				if !offsetAdmissible(off, used, noValue, thetas, anyDrop) {
					t.Fatalf("reported offset %v is not the fault-tolerant midpoint of the answering paths' offsets %v (log %v)", off, answered, log)
				}
			}
			withdrawn := false
			for i := range cs {
				if exps[i].wasInterleaved && !exps[i].sticky {
					withdrawn = true
				}
			}
			if (nSticky > 0 && withdrawn) || (m > len(offered) && len(offered) > 0) {
				nontrivial = true
			}
		}
		recRound.Eval(nontrivial, ev.Hash(fmt.Sprint(log), m), func() any { return log[:min(len(log), 8)] })
		if nrounds > 1 {
			recRound.Count(int64(nrounds - 1))
		}
	})
}

var prevTheta = map[*exRec]time.Duration{}

func thetaOf(e *exRec, thetas map[int]time.Duration, hidx int) time.Duration {
	if e == nil {
		return thetas[hidx]
	}
	if th, ok := prevTheta[e]; ok {
		return th
	}
	return thetas[hidx]
}

// offsetAdmissible: off equals FTM over one admissible value per answering path, where the admissible values of
// a path are the model offsets of the exchanges its client's accepted replies can describe (this round's or the
// cited earlier exchange's). With <= 5 paths the combinations are enumerated.
func offsetAdmissible(off time.Duration, used map[int][]*exRec, dropSet map[int]bool, thetas map[int]time.Duration, allowSubsets bool) bool {
	var options [][]time.Duration
	for hidx, recs := range used {
		if dropSet[hidx] {
			continue
		}
		opts := []time.Duration{thetas[hidx]}
		for _, r := range recs {
			if r.servedInterleaved && r.cited != nil {
				th := r.cited.theta
				opts = append(opts, th)
			}
		}
		options = append(options, opts)
	}
	var rec func(i int, cur []time.Duration) bool
	rec = func(i int, cur []time.Duration) bool {
		if i == len(options) {
			if len(cur) == 0 {
				return false
			}
			want := ftm(cur)
			d := off - want
			if d < 0 {
				d = -d
			}
			return d < 450*time.Millisecond // per-path offsets are >= 2 s apart (midpoints >= 1 s); under load a round trip takes a while
		}
		for _, o := range options[i] {
			if rec(i+1, append(slices.Clone(cur), o)) {
				return true
			}
		}
		// under a short deadline a healthy path may have timed out: its value is then missing
		return allowSubsets && rec(i+1, cur)
	}
	return rec(0, nil)
}

func citedHop(e *exRec) any {
	if e.cited == nil {
		return "unknown"
	}
	return e.cited.hop
}

func keys(m map[int]bool) []int {
	var k []int
	for x, v := range m {
		if v {
			k = append(k, x)
		}
	}
	sort.Ints(k)
	return k
}

var _ = bytes.Equal
