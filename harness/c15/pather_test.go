package c15

// The service obtains the path list of every round from net/scion.Pather (which asks the SCION daemon every 15 s)
// and hands it to MeasureClockOffsetSCION, which uses the slice as scratch space. Rounds must not influence each
// other through that list: every round sees the paths the daemon offered, and probes pairwise distinct ones.

import (
	"context"
	"fmt"
	"io"
	"log/slog"
	"net"
	"sync"
	"testing"
	"time"

	"github.com/scionproto/scion/pkg/addr"
	sdpb "github.com/scionproto/scion/pkg/proto/daemon"
	"github.com/scionproto/scion/pkg/snet"
	"google.golang.org/grpc"
	"google.golang.org/protobuf/types/known/timestamppb"
	"pgregory.net/rapid"

	"example.com/scion-time/core/client"
	"example.com/scion-time/net/scion"
	"example.com/scion-time/net/udp"

	"verif/internal/ev"
	"verif/internal/netlab"
	"verif/internal/vt"
	"verif/internal/wire"
)

type pathDaemon struct {
	sdpb.UnimplementedDaemonServiceServer
	mu      sync.Mutex
	localIA addr.IA
	paths   []*sdpb.Path
}

func (d *pathDaemon) AS(context.Context, *sdpb.ASRequest) (*sdpb.ASResponse, error) {
	d.mu.Lock()
	defer d.mu.Unlock()
	return &sdpb.ASResponse{IsdAs: uint64(d.localIA), Mtu: 1400}, nil
}

func (d *pathDaemon) Paths(context.Context, *sdpb.PathsRequest) (*sdpb.PathsResponse, error) {
	d.mu.Lock()
	defer d.mu.Unlock()
	return &sdpb.PathsResponse{Paths: d.paths}, nil
}

var (
	pdOnce sync.Once
	pd     *pathDaemon
	pdAddr string
	pdErr  error
)

var recPather = ev.New("c15/pather-rounds", "rapid: a harness SCION daemon (gRPC) offers 1..10 paths (next hops = the harness time servers); a real net/scion.Pather is started on it (for one destination entry, or two entries naming the same AS, as the service does for two servers in one AS) and 2..6 rounds of the real MeasureClockOffsetSCION (1..7 clients, some in interleaved mode) each take their path list from Pather.Paths, as the service does; crypto/rand scripted. Oracle per round: the list handed out has the daemon's paths (same fingerprints, each once); min(clients, paths) next hops see requests, none from two clients. One evaluation = one round. Non-trivial: round >= 2 with more paths than clients or with an interleaved client; distinct by (paths, clients, round, words)")

func TestPropPatherRounds(t *testing.T) {
	pdOnce.Do(func() {
		ln, err := net.Listen("tcp", net.JoinHostPort(netlab.Addr(2).String(), "0"))
		if err != nil {
			pdErr = err
			return
		}
		pd = &pathDaemon{}
		gs := grpc.NewServer()
		sdpb.RegisterDaemonServiceServer(gs, pd)
		go gs.Serve(ln)
		pdAddr = ln.Addr().String()
	})
	if pdErr != nil {
		vt.Inconclusive(t, "cannot start the harness daemon: %v", pdErr)
	}
	lIA, rIA := ia(1, 0xff0000000110), ia(2, 0xff0000000220)
	vt.Check(t, 40, 400, func(t *rapid.T) {
		np := rapid.SampledFrom([]int{1, 2, 3, 5, 8, 9, 10, 10}).Draw(t, "npaths")
		m := rapid.SampledFrom([]int{1, 2, 3, 5, 7, 7}).Draw(t, "clients")
		var offered []*sdpb.Path
		want := map[string]int{}
		for i := 0; i < np; i++ {
			ps := wire.PathSpec{Kind: "scion", SegLens: []int{2, 1 + i%2}, ConsDir: []bool{true, false}, Seed: uint64(1000 + i)}
			dp, err := ps.SlayersPath()
			if err != nil {
				t.Fatalf("harness: %v", err)
			}
			raw := make([]byte, dp.Len())
			if err := dp.SerializeTo(raw); err != nil {
				t.Fatalf("harness: %v", err)
			}
			ifs := []snet.PathInterface{{ID: 1, IA: lIA}, {ID: 100, IA: ia(3, uint64(0xff0000000300+i))}, {ID: 2, IA: rIA}}
			p := &sdpb.Path{Raw: raw, Mtu: 1400, Expiration: timestamppb.New(time.Now().Add(time.Hour)),
				Interface: &sdpb.Interface{Address: &sdpb.Underlay{Address: hops[i].conn.LocalAddr().String()}}}
			for _, pi := range ifs {
				p.Interfaces = append(p.Interfaces, &sdpb.PathInterface{IsdAs: uint64(pi.IA), Id: uint64(pi.ID)})
			}
			offered = append(offered, p)
			sp, _ := ps.SnetPath(lIA, rIA, hops[i].conn.LocalAddr().(*net.UDPAddr), ifs)
			want[snet.Fingerprint(sp).String()] = i
		}
		pd.mu.Lock()
		pd.localIA, pd.paths = lIA, offered
		pd.mu.Unlock()
		// the service passes one destination entry per configured server or peer: two of them may be in the same AS
		dsts := []addr.IA{rIA}
		if rapid.IntRange(0, 2).Draw(t, "two-servers-in-one-as") == 0 {
			dsts = []addr.IA{rIA, rIA}
		}
		pather := scion.StartPather(context.Background(), slog.New(slog.NewTextHandler(io.Discard, nil)), pdAddr, dsts)
		var cs []*client.SCIONClient
		for i := 0; i < m; i++ {
			cs = append(cs, &client.SCIONClient{Log: slog.New(slog.NewTextHandler(io.Discard, nil)), InterleavedMode: rapid.IntRange(0, 2).Draw(t, "interleaved") == 0})
		}
		local := udp.UDPAddr{IA: lIA, Host: netlab.UDPAddr(netlab.Addr(1), 0)}
		remote := udp.UDPAddr{IA: rIA, Host: netlab.UDPAddr(netlab.Addr(3), 10123)}
		nrounds := rapid.IntRange(2, 6).Draw(t, "rounds")
		for round := 0; round < nrounds; round++ {
			for i, h := range hops {
				h.mu.Lock()
				thetaSeq++
				h.theta, h.drop, h.refuse, h.refuseFollowUps, h.round, h.recs = time.Duration(thetaSeq)*2*time.Second, false, false, false, 1000+round, nil
				h.mu.Unlock()
				_ = i
			}
			ps := pather.Paths(rIA)
			seen := map[string]int{}
			for _, p := range ps {
				seen[snet.Fingerprint(p).String()]++
			}
			if len(ps) != np || len(seen) != np {
				t.Fatalf("round %d: the daemon offers %d distinct paths, Pather.Paths returned %d paths with %d distinct fingerprints (an earlier round changed the list)", round, np, len(ps), len(seen))
			}
			for fp := range seen {
				if _, ok := want[fp]; !ok {
					t.Fatalf("round %d: Pather.Paths returned a path the daemon did not offer", round)
				}
			}
			words := rapid.SliceOfN(rapid.Uint64(), 0, 12).Draw(t, "random-words")
			ctx, cancel := context.WithTimeout(context.Background(), 2*time.Second)
			var err error
			withReader(&wordReader{words: words}, func() {
				_, _, err = client.MeasureClockOffsetSCION(ctx, cs[0].Log, cs, local, remote, ps)
			})
			cancel()
			time.Sleep(3 * time.Millisecond)
			used := 0
			for i, h := range hops {
				h.mu.Lock()
				n := len(h.recs)
				h.mu.Unlock()
				if n == 0 {
					continue
				}
				used++
				if i >= np {
					t.Fatalf("round %d: a request arrived at next hop %d, which is on no offered path", round, i)
				}
				if n > 3 {
					t.Fatalf("round %d: next hop %d saw %d requests in one round (two clients on one path)", round, i, n)
				}
			}
			if used != min(m, np) {
				t.Fatalf("round %d: %d clients, %d offered paths: %d next hops saw requests, expected %d (err %v)", round, m, np, used, min(m, np), err)
			}
			il := 0
			for _, c := range cs {
				if c.InInterleavedMode() {
					il++
				}
			}
			recPather.Eval(round >= 1 && (np > m || il > 0), ev.Hash(np, m, round, fmt.Sprint(words)), func() any {
				return map[string]any{"paths": np, "clients": m, "round": round, "clients_in_interleaved_mode": il}
			})
		}
	})
}

var recIntra = ev.New("c15/intra-as-rounds", "rapid: 2..6 rounds of the real MeasureClockOffsetSCION with 1..3 clients (interleaved mode on) towards a server in the local AS: the only path offered, every round, is the empty path (whose fingerprint is the empty string). Oracle: a client that is in interleaved mode before a round and whose (empty) path is offered again keeps it: its filter is not reset and its first request of the round has the interleaved form. One evaluation = one round. Non-trivial: round >= 2; distinct by (clients, round, gap)")

func TestPropIntraASRounds(t *testing.T) {
	lIA := ia(1, 0xff0000000110)
	vt.Check(t, 60, 600, func(t *rapid.T) {
		m := rapid.IntRange(1, 3).Draw(t, "clients")
		var cs []*client.SCIONClient
		var fs []*countingFilter
		for i := 0; i < m; i++ {
			f := &countingFilter{}
			cs, fs = append(cs, &client.SCIONClient{Log: slog.New(slog.NewTextHandler(io.Discard, nil)), InterleavedMode: true, Filter: f}), append(fs, f)
		}
		local := udp.UDPAddr{IA: lIA, Host: netlab.UDPAddr(netlab.Addr(1), 0)}
		remote := udp.UDPAddr{IA: lIA, Host: netlab.UDPAddr(netlab.Addr(3), 10123)}
		nrounds := rapid.IntRange(2, 6).Draw(t, "rounds")
		for round := 0; round < nrounds; round++ {
			for _, h := range hops {
				h.mu.Lock()
				thetaSeq++
				h.theta, h.drop, h.refuse, h.refuseFollowUps, h.round, h.recs = time.Duration(thetaSeq)*2*time.Second, false, false, false, 2000+round, nil
				h.mu.Unlock()
			}
			sp, err := (wire.PathSpec{Kind: "empty"}).SnetPath(lIA, lIA, hops[0].conn.LocalAddr().(*net.UDPAddr), nil)
			if err != nil {
				t.Fatalf("harness: %v", err)
			}
			// which client holds the path, and is in interleaved mode, before the round
			holder := -1
			for i, c := range cs {
				if c.InInterleavedMode() {
					holder = i
				}
			}
			resets := make([]int, m)
			for i := range fs {
				resets[i] = fs[i].resets
			}
			ctx, cancel := context.WithTimeout(context.Background(), 2*time.Second)
			_, _, merr := client.MeasureClockOffsetSCION(ctx, cs[0].Log, cs, local, remote, []snet.Path{sp})
			cancel()
			time.Sleep(3 * time.Millisecond)
			if merr != nil {
				t.Fatalf("round %d over the empty path failed: %v", round, merr)
			}
			hops[0].mu.Lock()
			recs := append([]*exRec(nil), hops[0].recs...)
			hops[0].mu.Unlock()
			if len(recs) == 0 {
				t.Fatalf("round %d: no request reached the server", round)
			}
			if holder >= 0 {
				if fs[holder].resets != resets[holder] {
					t.Fatalf("round %d: client %d was in interleaved mode over the (empty) path that is offered again, but it was reset together with its filter", round, holder)
				}
				if !recs[0].interleavedForm {
					t.Fatalf("round %d: client %d was in interleaved mode over the path offered again, but the round's first request is a basic one", round, holder)
				}
			}
			time.Sleep(time.Duration(rapid.IntRange(0, 3).Draw(t, "gap-ms")) * time.Millisecond)
			recIntra.Eval(round >= 1, ev.Hash(m, round, holder), func() any { return map[string]any{"clients": m, "round": round, "holder": holder} })
		}
	})
}

// No SCION daemon configured: the service then has no Pather at all for its SCION reference clocks and peers in
// other ASes (timeservice.go keeps a nil *scion.Pather and asks it for paths every round). "The round reports an
// error when no path is available": asking that Pather must yield no paths, and the round an error - not a panic.
var recNoPather = ev.New("c15/no-pather-rounds", "rapid: rounds of the real MeasureClockOffsetSCION (1..7 clients, interleaved mode on or off) whose path list comes from a nil *scion.Pather, as in a service configured without a SCION daemon address, for destinations in the local or another ISD-AS. Oracle: Paths yields an empty list without panicking, the round returns an error and no hop sees a request. One evaluation = one round. Non-trivial: every round; distinct by (clients, destination)")

func TestPropNoPatherRounds(t *testing.T) {
	lIA := ia(1, 0xff0000000110)
	vt.Check(t, 40, 400, func(t *rapid.T) {
		m := rapid.IntRange(1, 7).Draw(t, "clients")
		var cs []*client.SCIONClient
		for i := 0; i < m; i++ {
			cs = append(cs, &client.SCIONClient{Log: slog.New(slog.NewTextHandler(io.Discard, nil)), InterleavedMode: rapid.Bool().Draw(t, "interleaved")})
		}
		dst := rapid.SampledFrom([]addr.IA{lIA, ia(2, 0xff0000000220), 0}).Draw(t, "destination")
		var p *scion.Pather
		var ps []snet.Path
		var perr any
		func() {
			defer func() { perr = recover() }()
			ps = p.Paths(dst)
		}()
		if perr != nil {
			t.Fatalf("asking the Pather of a service without SCION daemon for paths to %v panicked: %v", dst, perr)
		}
		if len(ps) != 0 {
			t.Fatalf("a Pather that never saw a daemon offers %d paths", len(ps))
		}
		for _, h := range hops {
			h.mu.Lock()
			h.recs = nil
			h.mu.Unlock()
		}
		local := udp.UDPAddr{IA: lIA, Host: netlab.UDPAddr(netlab.Addr(1), 0)}
		remote := udp.UDPAddr{IA: dst, Host: netlab.UDPAddr(netlab.Addr(3), 10123)}
		ctx, cancel := context.WithTimeout(context.Background(), 300*time.Millisecond)
		_, _, merr := client.MeasureClockOffsetSCION(ctx, cs[0].Log, cs, local, remote, ps)
		cancel()
		if merr == nil {
			t.Fatalf("a round without any path reported no error")
		}
		for i, h := range hops {
			h.mu.Lock()
			n := len(h.recs)
			h.mu.Unlock()
			if n != 0 {
				t.Fatalf("hop %d saw %d requests in a round without paths", i, n)
			}
		}
		recNoPather.Eval(true, ev.Hash(m, uint64(dst)), func() any { return map[string]any{"clients": m, "destination": dst.String()} })
	})
}

// A SCION daemon address that cannot be connected to (it does not resolve: no port, unknown port name, a host
// name while DNS is not up): the service starts its Pather all the same. "The round reports an error when no path
// is available" - the Pather must then offer no paths instead of taking the process down at start-up.
var recBadDaemon = ev.New("c15/unreachable-daemon-rounds", "rapid: scion.StartPather with a daemon address that does not resolve (no port, unknown port name, empty host with a bad port) for 1..3 destination ISD-ASes, as the service starts it, then a round of the real MeasureClockOffsetSCION over the paths it offers. Oracle: StartPather returns without panicking, offers no paths, and the round reports an error. One evaluation = one start. Non-trivial: every case; distinct by (address, destinations)")

func TestPropUnreachableDaemon(t *testing.T) {
	lIA := ia(1, 0xff0000000110)
	vt.Check(t, 20, 200, func(t *rapid.T) {
		daemonAddr := rapid.SampledFrom([]string{"127.0.15.9", "127.0.15.9:nosuchport", ":x", "[::1", "127.0.15.9:99999"}).Draw(t, "daemon-address")
		nd := rapid.IntRange(1, 3).Draw(t, "destinations")
		var dsts []addr.IA
		for i := 0; i < nd; i++ {
			dsts = append(dsts, ia(uint16(2+i), 0xff0000000220+uint64(i)))
		}
		var p *scion.Pather
		var perr any
		func() {
			defer func() { perr = recover() }()
			ctx, cancel := context.WithTimeout(context.Background(), 2*time.Second)
			defer cancel()
			p = scion.StartPather(ctx, slog.New(slog.NewTextHandler(io.Discard, nil)), daemonAddr, dsts)
		}()
		if perr != nil {
			t.Fatalf("starting the Pather with the daemon address %q (which cannot be connected to) panicked: %v", daemonAddr, perr)
		}
		ps := p.Paths(dsts[0])
		if len(ps) != 0 {
			t.Fatalf("a Pather without daemon connection offers %d paths", len(ps))
		}
		cs := []*client.SCIONClient{{Log: slog.New(slog.NewTextHandler(io.Discard, nil))}}
		local := udp.UDPAddr{IA: lIA, Host: netlab.UDPAddr(netlab.Addr(1), 0)}
		remote := udp.UDPAddr{IA: dsts[0], Host: netlab.UDPAddr(netlab.Addr(3), 10123)}
		ctx, cancel := context.WithTimeout(context.Background(), 200*time.Millisecond)
		_, _, merr := client.MeasureClockOffsetSCION(ctx, cs[0].Log, cs, local, remote, ps)
		cancel()
		if merr == nil {
			t.Fatalf("a round without any path reported no error")
		}
		recBadDaemon.Eval(true, ev.Hash(daemonAddr, nd), func() any { return map[string]any{"daemon_address": daemonAddr, "destinations": nd} })
	})
}
