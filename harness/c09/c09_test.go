package c09

import (
	"net/netip"
	"bytes"
	"context"
	"encoding/binary"
	"encoding/hex"
	"encoding/json"
	"fmt"
	"io"
	"log/slog"
	"net"
	"os"
	"path/filepath"
	"testing"
	"time"

	"github.com/prometheus/client_golang/prometheus"
	"pgregory.net/rapid"

	"example.com/scion-time/core/server"
	"example.com/scion-time/core/timebase"
	"example.com/scion-time/driver/clocks"
	"example.com/scion-time/net/ntp"
	"example.com/scion-time/net/nts"
	"example.com/scion-time/net/ntske"

	"github.com/scionproto/scion/pkg/addr"
	"github.com/scionproto/scion/pkg/slayers"

	"verif/internal/ev"
	"verif/internal/netlab"
	"verif/internal/vt"
	"verif/internal/wire"
)

var (
	srvAddr  *net.UDPAddr
	provider *ntske.Provider
	sock     *net.UDPConn // the sender
	other    *net.UDPConn // same address, another port: must never receive anything
	sentSeq  uint32

	// SCION transport: the same probes wrapped into SCION/UDP packets for the SCION listener
	transport   = "ip"
	scionSrvIP  = netlab.Addr(4)
	scionPort   = 12391
	hop         *net.UDPConn // the "previous hop": sends the SCION packets and must get the replies
	scionSrcIA  = addr.MustIAFrom(1, 0xff0000000111)
	scionDstIA  = addr.MustIAFrom(2, 0xff0000000222)
	scionSrcPrt = uint16(40123)
)

func TestMain(m *testing.M) {
	log := slog.New(slog.NewTextHandler(io.Discard, nil))
	timebase.RegisterClock(clocks.NewSystemClock(log, clocks.UnknownDrift))
	prometheus.DefaultRegisterer = prometheus.NewRegistry()
	provider = ntske.NewProvider()
	srvAddr = netlab.UDPAddr(netlab.Addr(0), 12390)
	server.StartIPServer(context.Background(), log, srvAddr, 0, provider)
	server.StartSCIONServer(context.Background(), log, "", netlab.UDPAddr(scionSrvIP, scionPort), 0, provider)
	var err error
	if sock, err = net.ListenUDP("udp", netlab.UDPAddr(netlab.Addr(1), 0)); err == nil {
		if other, err = net.ListenUDP("udp", netlab.UDPAddr(netlab.Addr(1), 0)); err == nil {
			hop, err = net.ListenUDP("udp", netlab.UDPAddr(netlab.Addr(2), 0))
		}
	}
	if err != nil {
		fmt.Println("VERIF-INCONCLUSIVE: cannot bind sender sockets:", err)
		os.Exit(0)
	}
	vt.Main(m)
}

func mix(x uint64) uint64 {
	x += 0x9e3779b97f4a7c15
	x = (x ^ (x >> 30)) * 0xbf58476d1ce4e5b9
	x = (x ^ (x >> 27)) * 0x94d049bb133111eb
	return x ^ (x >> 31)
}

func fill(b []byte, seed uint64) {
	for i := range b {
		b[i] = byte(mix(seed+uint64(i/8)) >> (8 * uint(i%8)))
	}
}

type session struct{ c2s, s2c []byte }

// ntsRequest builds a well-formed NTS request on top of hdr with a cookie sealed under the server's current key.
func ntsRequest(hdr []byte, seed uint64, foreignCookieKey, foreignC2S bool) (pkt []byte, ses session, uid []byte) {
	ses = session{c2s: make([]byte, 32), s2c: make([]byte, 32)}
	fill(ses.c2s, seed+1)
	fill(ses.s2c, seed+2)
	key := provider.Current()
	kv := key.Value
	if foreignCookieKey {
		kv = make([]byte, 32)
		fill(kv, seed+3)
	}
	sc := ntske.ServerCookie{Algo: ntske.AES_SIV_CMAC_256, S2C: ses.s2c, C2S: ses.c2s}
	enc, err := sc.EncryptWithNonce(kv, key.ID)
	if err != nil {
		panic(err)
	}
	var d ntske.Data
	d.C2sKey, d.S2cKey = ses.c2s, ses.s2c
	if foreignC2S {
		d.C2sKey = make([]byte, 32)
		fill(d.C2sKey, seed+4)
	}
	npool := 1 + int(seed%7) // 1..7 cookies in the pool -> 7..1 placeholders; 8 fields do not fit 1024 bytes
	if npool < 2 {
		npool = 2
	}
	for i := 0; i < npool; i++ {
		d.Cookie = append(d.Cookie, enc.Encode())
	}
	p, id := nts.NewRequestPacket(d)
	pkt = bytes.Clone(hdr[:48])
	nts.EncodePacket(&pkt, &p)
	return pkt, ses, id
}

func shouldReply(p []byte, trailingValidNTS bool) bool {
	if len(p) < 48 {
		return false
	}
	li, vn, mode := p[0]>>6, p[0]>>3&7, p[0]&7
	if li != 0 && li != 3 {
		return false
	}
	if !((vn >= 2 && vn <= 4 && mode == 3) || (vn == 1 && mode == 0)) {
		return false
	}
	return len(p) == 48 || trailingValidNTS
}

type probeResult struct {
	replies [][]byte
	lost    bool   // sentinel never answered
	bad     string // SCION: a reply that is not addressed back to the sender over the reversed path
}

// scionWrap puts an NTP payload into a SCION/UDP packet from the harness's end host to the listener.
// wrapSrc, wrapDst: the SCION host addresses of the packet scionWrap built last
var wrapSrc, wrapDst netip.Addr

func scionWrap(payload []byte, pathSeed uint64) ([]byte, wire.PathSpec) {
	ps := wire.PathSpec{Kind: "empty", Seed: pathSeed}
	dst := scionSrcIA
	if pathSeed%11 == 5 {
		ps.Kind = "onehop"
		dst = scionDstIA
	} else if pathSeed%3 != 0 {
		ps.Kind = "scion"
		ps.SegLens = []int{1 + int(pathSeed%5)}
		ps.ConsDir = []bool{pathSeed%2 == 0}
		if pathSeed%7 == 0 {
			ps.SegLens = []int{2, 1 + int(pathSeed%4)}
			ps.ConsDir = []bool{true, false}
		}
		for i, l := range ps.SegLens { // at the last hop field
			ps.CurrINF = i
			ps.CurrHF += l
		}
		ps.CurrHF--
		dst = scionDstIA
	}
	pth, err := ps.SlayersPath()
	if err != nil {
		panic(fmt.Sprintf("harness: path %+v: %v", ps, err))
	}
	// SCION host addresses of either family on either side (the SCION header names them independently of the
	// underlay, which stays IPv4 loopback): v4/v4 mostly, v6 client, v6 server, both v6
	wrapSrc, wrapDst = netlab.Addr(1), scionSrvIP
	switch pathSeed >> 40 % 8 {
	case 1, 2:
		wrapSrc = netip.MustParseAddr("fd00:1:2:3::c")
	case 3, 4:
		wrapDst = netip.MustParseAddr("fd00:9:8:7::5")
	case 5:
		wrapSrc, wrapDst = netip.MustParseAddr("fd00:1:2:3::c"), netip.MustParseAddr("fd00:9:8:7::5")
	}
	pkt := wire.Pkt{SrcIA: scionSrcIA, DstIA: dst, Src: wrapSrc, Dst: wrapDst, Path: pth, SrcPort: scionSrcPrt, DstPort: uint16(scionPort), Payload: payload}
	// extension headers that do not concern the time service: a valid request stays a valid request behind them
	switch pathSeed >> 8 % 8 {
	case 2: // what the end host's dispatcher adds when it forwards a packet
		pkt.E2E = []*slayers.EndToEndOption{{OptType: 253, OptData: make([]byte, 16)}}
	case 3: // padding only
		pkt.E2E = []*slayers.EndToEndOption{{OptType: slayers.OptTypePadN, OptData: make([]byte, 2)}}
	case 4:
		pkt.HBH = true
	case 5:
		pkt.HBH = true
		pkt.E2E = []*slayers.EndToEndOption{{OptType: slayers.OptionType(200 + pathSeed>>16%40), OptData: make([]byte, pathSeed>>24%12)}}
	}
	raw, err := pkt.Serialize(nil, nil)
	if err != nil {
		panic(fmt.Sprintf("harness: serialize: %v", err))
	}
	return raw, ps
}

// probeSCION is probe over the SCION listener: replies are the UDP payloads of the SCION packets that came
// back to the previous hop before the sentinel's reply.
var mixedFamilies int // probes whose SCION source and destination host addresses are of different families

func probeSCION(p []byte) probeResult {
	var res probeResult
	buf := make([]byte, 16384)
	for {
		hop.SetReadDeadline(time.Now().Add(time.Millisecond))
		if _, _, err := hop.ReadFromUDP(buf); err != nil {
			break
		}
	}
	dstAddr := netlab.UDPAddr(scionSrvIP, scionPort)
	sentSeq++
	// a quarter of the probes (and their sentinels) arrive on the SCION end-host port 30041 of the listener's host,
	// as they do behind routers that do not dispatch on the UDP destination port
	if mix(uint64(sentSeq)*31+uint64(len(p)))%4 == 0 {
		dstAddr = netlab.UDPAddr(scionSrvIP, 30041)
	}
	raw, ps := scionWrap(p, mix(uint64(sentSeq)+uint64(len(p))))
	reqSrc, reqDst := wrapSrc, wrapDst
	if reqSrc.Is4() != reqDst.Is4() {
		mixedFamilies++
	}
	if len(raw) <= 9000 {
		hop.WriteToUDP(raw, dstAddr)
	}
	for attempt := 0; attempt < 6; attempt++ {
		sentSeq++
		var s ntp.Packet
		s.SetVersion(4)
		s.SetMode(ntp.ModeClient)
		s.TransmitTime = ntp.Time64{Seconds: 0xfeed0000 | sentSeq>>16, Fraction: sentSeq<<16 | 0xbeef}
		sb := make([]byte, 48)
		ntp.EncodePacket(&sb, &s)
		sraw, _ := scionWrap(sb, 0)
		hop.WriteToUDP(sraw, dstAddr)
		deadline := time.Now().Add(time.Duration(300*(attempt+1)) * time.Millisecond)
		for {
			hop.SetReadDeadline(deadline)
			n, from, err := hop.ReadFromUDP(buf)
			if err != nil {
				break
			}
			q, err := wire.Parse(bytes.Clone(buf[:n]))
			if err != nil || !q.IsUDP {
				res.replies = append(res.replies, []byte(fmt.Sprintf("not a SCION/UDP packet (%v): %x", err, buf[:min(n, 64)])))
				continue
			}
			d := q.UDP.Payload
			if len(d) >= 48 && binary.BigEndian.Uint32(d[24:]) == s.TransmitTime.Seconds && binary.BigEndian.Uint32(d[28:]) == s.TransmitTime.Fraction {
				return res
			}
			if len(d) >= 48 && binary.BigEndian.Uint32(d[24:])&0xffff0000 == 0xfeed0000 && d[30] == 0xbe && d[31] == 0xef {
				continue
			}
			// addressing of the reply to the probe: from the listener, source and destination exchanged
			src, _ := q.SrcAddr()
			dst, _ := q.DstAddr()
			wantDstIA := scionSrcIA
			wantSrcIA := scionSrcIA
			if ps.Kind != "empty" {
				wantSrcIA = scionDstIA
			}
			_ = wantSrcIA
			reqPath, _ := ps.SlayersPath()
			wantRaw, wantType, rerr := wire.ReversePath(reqPath)
			gotRaw := make([]byte, q.SCION.Path.Len())
			q.SCION.Path.SerializeTo(gotRaw)
			switch {
			case rerr == nil && (q.SCION.PathType != wantType || !bytes.Equal(gotRaw, wantRaw)):
				res.bad = fmt.Sprintf("reply path (type %d) %x is not the reversed request path (type %d) %x", q.SCION.PathType, gotRaw, wantType, wantRaw)
			case !from.IP.Equal(dstAddr.IP) || from.Port != dstAddr.Port:
				res.bad = "reply sent from " + from.String()
			case q.SCION.DstIA != wantDstIA || q.SCION.SrcIA != wantSrcIA || src.Unmap() != reqDst || dst.Unmap() != reqSrc:
				res.bad = fmt.Sprintf("reply addressed %v,%v -> %v,%v", q.SCION.SrcIA, src, q.SCION.DstIA, dst)
			case q.UDP.SrcPort != uint16(scionPort) || q.UDP.DstPort != scionSrcPrt:
				res.bad = fmt.Sprintf("reply ports %d -> %d", q.UDP.SrcPort, q.UDP.DstPort)
			}
			res.replies = append(res.replies, bytes.Clone(d))
		}
	}
	res.lost = true
	return res
}

// probe sends p followed by a sentinel from the same socket and returns the datagrams received before the
// sentinel's reply (replies are FIFO per socket pair: same 4-tuple => same listener goroutine).
func probe(p []byte) probeResult {
	if transport == "scion" {
		return probeSCION(p)
	}
	var res probeResult
	drain()
	if _, err := sock.WriteToUDP(p, srvAddr); err != nil && len(p) <= 65000 {
		// oversize datagrams may be refused locally: then nothing was sent, which is fine
	}
	for attempt := 0; attempt < 6; attempt++ {
		sentSeq++
		var s ntp.Packet
		s.SetVersion(4)
		s.SetMode(ntp.ModeClient)
		s.TransmitTime = ntp.Time64{Seconds: 0xfeed0000 | sentSeq>>16, Fraction: sentSeq<<16 | 0xbeef}
		sb := make([]byte, 48)
		ntp.EncodePacket(&sb, &s)
		sock.WriteToUDP(sb, srvAddr)
		deadline := time.Now().Add(time.Duration(300*(attempt+1)) * time.Millisecond)
		buf := make([]byte, 4096)
		for {
			sock.SetReadDeadline(deadline)
			n, from, err := sock.ReadFromUDP(buf)
			if err != nil {
				break
			}
			d := bytes.Clone(buf[:n])
			if n >= 48 && binary.BigEndian.Uint32(d[24:]) == s.TransmitTime.Seconds && binary.BigEndian.Uint32(d[28:]) == s.TransmitTime.Fraction {
				if !from.IP.Equal(srvAddr.IP) || from.Port != srvAddr.Port {
					res.replies = append(res.replies, []byte("sentinel reply from wrong source "+from.String()))
				}
				return res
			}
			if n >= 48 && binary.BigEndian.Uint32(d[24:])&0xffff0000 == 0xfeed0000 && d[30] == 0xbe && d[31] == 0xef {
				continue // reply to an earlier sentinel of this probe
			}
			if !from.IP.Equal(srvAddr.IP) || from.Port != srvAddr.Port {
				d = append([]byte("FROM "+from.String()+": "), d...)
			}
			res.replies = append(res.replies, d)
		}
	}
	res.lost = true
	return res
}

func drain() {
	buf := make([]byte, 4096)
	for {
		sock.SetReadDeadline(time.Now().Add(time.Millisecond))
		if _, _, err := sock.ReadFromUDP(buf); err != nil {
			return
		}
	}
}

type failer interface {
	Fatalf(format string, args ...any)
}

type exhFail struct {
	t testing.TB
	c any
}

func (e exhFail) Fatalf(format string, args ...any) { vt.Violation(e.t, e.c, format, args...) }

type ntsInfo struct {
	ses session
	uid []byte
}

// judge checks one probe against the statement.
func judge(t failer, p []byte, validNTS bool, info *ntsInfo, what string) {
	want := 0
	if shouldReply(p, validNTS) {
		want = 1
	}
	res := probe(p)
	if res.lost {
		t.Fatalf("%s (%d bytes, first byte %#02x): the following well-formed request on the same socket was not answered within 6 attempts", what, len(p), first(p))
	}
	if res.bad != "" {
		t.Fatalf("%s: %s", what, res.bad)
	}
	if len(res.replies) != want {
		t.Fatalf("%s (%d bytes, first byte %#02x LI=%d VN=%d mode=%d): %d replies, expected %d", what, len(p), first(p), first(p)>>6, first(p)>>3&7, first(p)&7, len(res.replies), want)
	}
	if want == 1 {
		r := res.replies[0]
		if len(r) < 48 {
			t.Fatalf("%s: reply of %d bytes", what, len(r))
		}
		if r[0]>>3&7 != 4 || r[0]&7 != 4 || r[1] != 1 {
			t.Fatalf("%s: reply is not a version-4 server-mode stratum-1 packet: first byte %#02x stratum %d", what, r[0], r[1])
		}
		if !bytes.Equal(r[24:32], p[40:48]) {
			t.Fatalf("%s: reply origin %x does not echo the request's transmit timestamp %x", what, r[24:32], p[40:48])
		}
		if shouldReply(r[:48], false) {
			t.Fatalf("%s: the reply itself would be answered by a listener", what)
		}
		if info != nil {
			if len(r) <= 48 || len(r) > nts.MaxPacketLen {
				t.Fatalf("%s: reply to an NTS request has %d bytes", what, len(r))
			}
			var np nts.Packet
			if err := nts.DecodePacket(&np, r); err != nil {
				t.Fatalf("%s: NTS reply does not decode: %v", what, err)
			}
			var f ntske.Fetcher
			if err := nts.ProcessResponse(r, info.ses.s2c, &f, &np, info.uid); err != nil {
				t.Fatalf("%s: NTS reply does not authenticate under the session's S2C key with the request's identifier: %v", what, err)
			}
		} else if len(r) != 48 {
			t.Fatalf("%s: reply to a plain request has %d bytes", what, len(r))
		}
	}
}

func first(p []byte) byte {
	if len(p) == 0 {
		return 0
	}
	return p[0]
}

var lengths = []int{0, 1, 47, 48, 49, 52, 75, 76, 77, 100, 1024, 2047, 2048, 2049, 4000}
var kinds = []string{"none", "zeros", "random", "nts-valid", "nts-valid-padded-authenticator", "nts-bitflip", "nts-foreign-cookie-key", "nts-foreign-c2s"}

var recGrid = ev.New("c09/grid", "enumeration of every first header byte (256: all LI x VN x mode) x datagram length {0,1,47,48,49,52,75,76,77,100,1024,2047,2048,2049,4000} x trailing data {zero bytes, mixer bytes} plus, per first byte, well-formed NTS requests (cookie sealed under the server's current key, 1..6 placeholders), the same with 4..32 bytes of additional padding in the authenticator field (RFC 8915 5.6), NTS requests with one flipped bit, with a cookie sealed under a foreign key and authenticated under a foreign C2S key; remaining 47 header bytes from a deterministic mixer of VERIF_SEED. Each probe is followed by a sentinel request from the same socket; the datagrams received before the sentinel's reply are the replies to the probe. Oracle: number of replies == shouldReply(p) (written from the statement), reply from the server's address/port to the sending socket, echoing the transmit timestamp, VN 4 / mode 4 / stratum 1 (so the reply is itself not answerable), NTS replies authenticate under S2C with the request identifier; a second socket on the sender's address receives nothing. Non-trivial: probes of >= 48 bytes; distinct by (first byte, length, trailing kind); the grid is enumerated completely (quick: a third of the first bytes per run, rotating with VERIF_SEED; thorough: all)")

func TestExhaustiveGrid(t *testing.T) { gridBody(t, recGrid, lengths) }

var recGridS = ev.New("c09/grid-scion", "the c09/grid enumeration sent to the SCION listener instead: every probe is the UDP payload of a SCION packet (empty path, one-hop path, or 1..2-segment SCION paths of varying length at their last hop) from a harness end host (SCION host addresses IPv4 or IPv6 on either side, in 3 of 8 probes of different families), with or without extension headers that do not concern the time service (end-to-end option 253, padding, unknown options, hop-by-hop extension), sent from a 'previous hop' socket (on another address than the SCION source host) to the listener's service port or, for a quarter of the probes, to its end-host port 30041; lengths {0,1,47,48,49,52,75,76,77,100,1024,1300}. Same oracle on the unwrapped replies; in addition every reply must come from the listener's socket to the previous hop with ISD-AS, host and ports exchanged and a path whose type and bytes equal an independently computed reversal of the request's. Non-trivial / distinct as for c09/grid")

var lengthsSCION = []int{0, 1, 47, 48, 49, 52, 75, 76, 77, 100, 1024, 1300}

func TestExhaustiveGridSCION(t *testing.T) {
	transport = "scion"
	defer func() { transport = "ip" }()
	m0 := mixedFamilies
	gridBody(t, recGridS, lengthsSCION)
	recGridS.Count(0, "probes-with-source-and-destination-host-of-different-families")
	for i := m0; i < mixedFamilies; i++ {
		recGridS.Label("probes-with-source-and-destination-host-of-different-families")
	}
}

func gridBody(t *testing.T, recGrid *ev.Recorder, lengths []int) {
	seed := uint64(vt.Seed())
	var n, nt int64
	complete := vt.Thorough()
	for b0 := 0; b0 < 256; b0++ {
		if !complete && (b0+int(seed))%3 != 0 {
			// quick tier: one third of the first bytes; the valid-request bytes are always included below
			li, vn, mode := b0>>6, b0>>3&7, b0&7
			if !((li == 0 || li == 3) && ((vn >= 2 && vn <= 4 && mode == 3) || (vn == 1 && mode == 0))) {
				continue
			}
		}
		if complete && b0%vt.Shards() != vt.Shard() {
			continue
		}
		hdr := make([]byte, 48)
		for _, l := range lengths {
			for _, k := range []string{"zeros", "random"} {
				if k == "random" && l <= 48 {
					continue
				}
				p := make([]byte, l)
				fill(p, seed*1315423911+uint64(b0*131+l))
				if k == "zeros" && l > 48 {
					clear(p[48:])
				}
				if l > 0 {
					p[0] = byte(b0)
				}
				// rx field == tx field would be fine too; keep them different so the basic path is the one tested
				c := map[string]any{"first_byte": b0, "len": l, "trailing": k, "hex_prefix": hex.EncodeToString(p[:min(len(p), 48)])}
				judge(exhFail{t, c}, p, false, nil, fmt.Sprintf("probe first byte %#02x len %d trailing %s", b0, l, k))
				n++
				if l >= 48 {
					nt++
				}
			}
		}
		// valid first bytes: many more 48-byte probes with different remaining header bytes
		if shouldReply(append([]byte{byte(b0)}, make([]byte, 47)...), false) {
			extra := 40
			if complete {
				extra = 600
			}
			for i := 0; i < extra; i++ {
				p := make([]byte, 48)
				fill(p, seed*2654435761+uint64(b0)*1000+uint64(i))
				p[0] = byte(b0)
				p[2] = byte(i) // poll: every value in the thorough tier
				c := map[string]any{"hex": hex.EncodeToString(p)}
				judge(exhFail{t, c}, p, false, nil, fmt.Sprintf("valid request %d with first byte %#02x", i, b0))
				n++
				nt++
			}
		}
		fill(hdr, seed*77+uint64(b0))
		hdr[0] = byte(b0)
		for _, k := range kinds[3:] {
			p, ses, uid := ntsRequest(hdr, seed*31+uint64(b0), k == "nts-foreign-cookie-key", k == "nts-foreign-c2s")
			valid := k == "nts-valid" || k == "nts-valid-padded-authenticator"
			if k == "nts-valid-padded-authenticator" {
				// RFC 8915 5.6: the authenticator field may carry additional padding behind the ciphertext (a
				// client pads to keep its requests at least as long as the replies); the field's own header is
				// not part of the associated data, so the request stays authentic
				pad := []int{4, 8, 16, 32}[int(mix(seed+uint64(b0))%4)]
				l := findAuth(p)
				if len(p)+pad <= nts.MaxPacketLen {
					binary.BigEndian.PutUint16(p[l+2:], binary.BigEndian.Uint16(p[l+2:])+uint16(pad))
					p = append(p, make([]byte, pad)...)
				}
			}
			if k == "nts-bitflip" {
				bit := int(mix(seed+uint64(b0)) % uint64(8*(len(p)-48-4)))
				// any bit of the extension fields except the authenticator's own length field (not covered, not used)
				l := findAuth(p)
				pos := 48*8 + bit
				if pos/8 >= l+2 && pos/8 < l+4 {
					pos += 16
				}
				p[pos/8] ^= 1 << (pos % 8)
			}
			c := map[string]any{"first_byte": b0, "len": len(p), "trailing": k, "hex": hex.EncodeToString(p)}
			var info *ntsInfo
			if valid {
				info = &ntsInfo{ses, uid}
			}
			judge(exhFail{t, c}, p, valid, info, fmt.Sprintf("probe first byte %#02x trailing %s", b0, k))
			n++
			nt++
		}
	}
	// nothing may ever arrive at another port of the sender's address
	other.SetReadDeadline(time.Now().Add(50 * time.Millisecond))
	buf := make([]byte, 2048)
	if k, from, err := other.ReadFromUDP(buf); err == nil && transport == "ip" {
		vt.Violation(t, map[string]any{"bytes": k, "from": from.String()}, "a datagram was sent to a port that never sent a request")
	}
	recGrid.Exhaustive = complete
	recGrid.Count(n)
	recGrid.AddDistinct(seed, nt)
	recGrid.Sample(map[string]any{"probes": n, "probes_len>=48": nt, "complete_grid": complete})
}

func findAuth(p []byte) int {
	pos := 48
	for pos+4 <= len(p) {
		if binary.BigEndian.Uint16(p[pos:]) == 0x404 {
			return pos
		}
		pos += int(binary.BigEndian.Uint16(p[pos+2:]))
	}
	return len(p) - 4
}

var recRnd = ev.New("c09/random-headers", "rapid: arbitrary 48-byte headers (boundary patterns: all 0x00, all 0xff, a server reply fed back, a reply to a reply), arbitrary lengths 0..2100 with arbitrary trailing bytes, same sentinel-delimited oracle. Non-trivial: len >= 48; distinct by datagram hash")

func TestPropRandomProbes(t *testing.T) { randomBody(t, recRnd, 1500, 15000) }

var recRndS = ev.New("c09/random-headers-scion", "as c09/random-headers, sent to the SCION listener (wrapped as in c09/grid-scion), lengths 0..2100")

func TestPropRandomProbesSCION(t *testing.T) {
	transport = "scion"
	defer func() { transport = "ip" }()
	m0 := mixedFamilies
	randomBody(t, recRndS, 600, 6000)
	for i := m0; i < mixedFamilies; i++ {
		recRndS.Label("probes-with-source-and-destination-host-of-different-families")
	}
}

func randomBody(t *testing.T, recRnd *ev.Recorder, nq, nt int) {
	var lastReply []byte
	vt.Check(t, nq, nt, func(t *rapid.T) {
		var p []byte
		switch rapid.IntRange(0, 5).Draw(t, "kind") {
		case 0:
			p = bytes.Repeat([]byte{0}, rapid.SampledFrom([]int{48, 49, 100}).Draw(t, "len"))
		case 1:
			p = bytes.Repeat([]byte{0xff}, rapid.SampledFrom([]int{48, 49, 100}).Draw(t, "len"))
		case 2:
			if lastReply != nil {
				p = bytes.Clone(lastReply)
				break
			}
			fallthrough
		default:
			n := rapid.OneOf(rapid.IntRange(0, 2100), rapid.Just(48), rapid.IntRange(48, 80)).Draw(t, "len")
			p = make([]byte, n)
			fill(p, rapid.Uint64().Draw(t, "fill"))
			if n > 0 {
				p[0] = rapid.Byte().Draw(t, "b0")
			}
			if n >= 48 && rapid.Bool().Draw(t, "valid-lvm") {
				p[0] = rapid.SampledFrom([]byte{0x23, 0x1b, 0x13, 0xe3, 0xdb, 0x08, 0xc8}).Draw(t, "lvm")
			}
		}
		res := probe(p)
		if res.lost {
			t.Fatalf("probe of %d bytes (first byte %#02x): following well-formed request not answered", len(p), first(p))
		}
		want := 0
		if shouldReply(p, false) {
			want = 1
		}
		if res.bad != "" {
			t.Fatalf("probe %x...: %s", p[:min(len(p), 48)], res.bad)
		}
		if len(res.replies) != want {
			t.Fatalf("probe %x...: %d replies, expected %d", p[:min(len(p), 48)], len(res.replies), want)
		}
		if want == 1 {
			r := res.replies[0]
			if len(r) != 48 || r[0]>>3&7 != 4 || r[0]&7 != 4 || r[1] != 1 || !bytes.Equal(r[24:32], p[40:48]) {
				t.Fatalf("reply %x to %x is not a v4 server-mode stratum-1 echo", r, p)
			}
			lastReply = r
		}
		recRnd.Eval(len(p) >= 48, ev.Hash(p), func() any { return hex.EncodeToString(p[:min(len(p), 64)]) })
	})
}

// TestReplay re-sends saved probes (corpus and --replay of a JSON case).
func TestReplay(t *testing.T) {
	files, _ := filepath.Glob(filepath.Join(vt.CorpusDir("C09"), "*.json"))
	if p := vt.ReplayCase(); p != "" {
		files = []string{p}
	}
	for _, p := range files {
		b, err := os.ReadFile(p)
		if err != nil {
			t.Fatal(err)
		}
		var w struct {
			Case struct {
				Hex      string `json:"hex"`
				First    int    `json:"first_byte"`
				Len      int    `json:"len"`
				Trailing string `json:"trailing"`
			} `json:"case"`
		}
		if err := json.Unmarshal(b, &w); err != nil {
			t.Fatalf("%s: %v", p, err)
		}
		var d []byte
		if w.Case.Hex != "" {
			d, _ = hex.DecodeString(w.Case.Hex)
		} else {
			d = make([]byte, w.Case.Len)
			fill(d, uint64(w.Case.First*131+w.Case.Len))
			if w.Case.Trailing == "zeros" && len(d) > 48 {
				clear(d[48:])
			}
			if len(d) > 0 {
				d[0] = byte(w.Case.First)
			}
		}
		// saved NTS probes carry cookies of an earlier server key: they are replayed as "trailing data that is not a valid NTS request"
		judge(exhFail{t, w.Case}, d, false, nil, "replayed probe "+filepath.Base(p))
	}
}
