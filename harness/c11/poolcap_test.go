package c11

// Client side of "a successful exchange never shrinks the pool or grows it beyond eight", against a server that does
// not count like this project's: its authenticated replies carry more (or fewer) cookies than were asked for.

import (
	"bytes"
	"context"
	"crypto/tls"
	"encoding/binary"
	"io"
	"log/slog"
	"net"
	"strconv"
	"testing"
	"time"

	"github.com/miscreant/miscreant.go"
	"pgregory.net/rapid"

	"example.com/scion-time/core/client"
	"example.com/scion-time/net/ntske"

	"verif/internal/ev"
	"verif/internal/netlab"
	"verif/internal/vt"
)

var recCap = ev.New("c11/pool-cap", "rapid: a real IPClient with NTS exchanges keys with the harness's key-exchange server (8 cookies, or 9..16 for three cases in seven) and then talks to a harness NTS server that authenticates properly but answers the first request with 0..14 cookies instead of the one asked for; every later request is answered without any cookie, so that the number of further successful exchanges before the client has to exchange keys again is the size its pool had. Oracle: that size is at most 8 (and 7 plus the cookies delivered, if that is less). One evaluation = one history. Non-trivial: more than one cookie delivered; distinct by the count")

func TestPropPoolCap(t *testing.T) {
	addr := netlab.UDPAddr(netlab.Addr(6), 12414)
	model, err := netlab.NewServer(addr)
	if err != nil {
		vt.Inconclusive(t, "bind: %v", err)
	}
	defer model.Close()
	setKETarget(addr)
	defer setKETarget(nil)
	sealN := func(n int) func(ex *netlab.Exchange, hdr []byte) []byte {
		return func(ex *netlab.Exchange, hdr []byte) []byte {
			fs, err := walk(ex.Raw)
			if err != nil {
				return hdr
			}
			var uid []byte
			for _, f := range fs {
				if f.typ == 0x104 {
					uid = f.body
				}
			}
			sesMu.Lock()
			k := sessions[len(sessions)-1].s2c
			sesMu.Unlock()
			var cookies [][]byte
			for i := 0; i < n; i++ {
				cookies = append(cookies, bytes.Repeat([]byte{byte(0x40 + i), byte(ex.Seq)}, 62))
			}
			// sealed by the harness (own field encoder + miscreant): the reply may carry no cookie at all
			b := bytes.Clone(hdr[:48])
			b = append(b, extField(0x104, uid)...)
			var pt []byte
			for _, ck := range cookies {
				pt = append(pt, extField(0x204, ck)...)
			}
			a, err := miscreant.NewAEAD("AES-CMAC-SIV", k, 16)
			if err != nil {
				return hdr
			}
			nonce := fillBytes(16, uint64(ex.Seq)+99)
			ct := a.Seal(nil, nonce, pt, b)
			body := make([]byte, 4, 4+16+len(ct))
			binary.BigEndian.PutUint16(body, 16)
			binary.BigEndian.PutUint16(body[2:], uint16(len(ct)))
			body = append(append(body, nonce...), ct...)
			return append(b, extField(0x404, body)...)
		}
	}
	vt.Check(t, 25, 250, func(t *rapid.T) {
		n := rapid.SampledFrom([]int{0, 1, 2, 3, 5, 6, 7, 8}).Draw(t, "cookies-in-first-reply")
		keN := rapid.SampledFrom([]int{8, 8, 8, 9, 10, 12, 16}).Draw(t, "cookies-from-key-exchange")
		keCookies.Store(int32(keN))
		defer keCookies.Store(8)
		c := &client.IPClient{Log: slog.New(slog.NewTextHandler(io.Discard, nil))}
		c.Auth.Enabled = true
		c.Auth.NTSKEFetcher = ntske.Fetcher{Log: c.Log, Port: strconv.Itoa(ke.Addr.Port),
			TLSConfig: tls.Config{NextProtos: []string{"ntske/1"}, InsecureSkipVerify: true, ServerName: ke.Addr.IP.String(), MinVersion: tls.VersionTLS13}}
		call := func() error {
			ctx, cancel := context.WithTimeout(context.Background(), 2*time.Second)
			defer cancel()
			_, _, err := client.MeasureClockOffsetIP(ctx, c.Log, c, laddr, &net.UDPAddr{IP: addr.IP, Port: addr.Port})
			model.WaitIdle()
			ke.Wait()
			return err
		}
		model.ClearPlans()
		model.Take()
		model.SetDefault(netlab.Plan{Build: sealN(n)})
		conns0 := ke.Conns()
		if err := call(); err != nil {
			t.Fatalf("first exchange (reply with %d cookies) failed: %v", n, err)
		}
		if ke.Conns() != conns0+1 {
			t.Fatalf("first call performed %d key exchanges", ke.Conns()-conns0)
		}
		model.SetDefault(netlab.Plan{Build: sealN(0)})
		pool := 0
		for i := 0; i < 20; i++ {
			before := ke.Conns()
			err := call()
			if ke.Conns() != before {
				break // the pool was empty: the client exchanged keys again
			}
			if err != nil {
				t.Fatalf("exchange %d after the first one failed without a new key exchange: %v", i+1, err)
			}
			pool++
		}
		want := min(8, min(8, keN)-1+n)
		if keN > 8 {
			recCap.Label("more-than-8-cookies-from-key-exchange")
		}
		if pool > 8 {
			t.Fatalf("after a key exchange that delivered %d cookies and one successful exchange whose reply carried %d cookies the pool held %d cookies (more than eight)", keN, n, pool)
		}
		if pool != want {
			t.Fatalf("after a reply with %d cookies the pool held %d cookies, expected %d", n, pool, want)
		}
		recCap.Eval(n > 1, ev.Hash(n), func() any { return map[string]any{"cookies_in_first_reply": n, "pool_after": pool} })
	})
}
