package c11

// Client side of "a successful exchange never shrinks the pool or grows it beyond eight", against a server that does
// not count like this project's: its authenticated replies carry more (or fewer) cookies than were asked for.

import (
	"bytes"
	"context"
	"crypto/tls"
	"encoding/binary"
	"io"
	"log/slog"
	"net"
	"strconv"
	"sync/atomic"
	"testing"
	"time"

	"github.com/miscreant/miscreant.go"
	"pgregory.net/rapid"

	"example.com/scion-time/core/client"
	"example.com/scion-time/net/ntske"

	"verif/internal/ev"
	"verif/internal/netlab"
	"verif/internal/vt"
)

var sameCookie atomic.Bool

var recCap = ev.New("c11/pool-cap", "rapid: a real IPClient with NTS exchanges keys with the harness's key-exchange server (8 cookies, or 9..16 for three cases in seven; in one case in five its second cookie record repeats the first), loses 0..3 exchanges (so that its pool has free slots) and then talks to a harness NTS server that authenticates properly but answers the first request with 0..14 cookies instead of the one asked for; every later request is answered without any cookie, so that the number of further successful exchanges before the client has to exchange keys again is the size its pool had. Oracle: that size is at most 8 (and 7 plus the distinct cookies delivered, if that is less; in some cases the server delivers one cookie several times); no cookie appears in two of the requests seen. One evaluation = one history. Non-trivial: more than one cookie delivered; distinct by the count")

func TestPropPoolCap(t *testing.T) {
	addr := netlab.UDPAddr(netlab.Addr(6), 12414)
	model, err := netlab.NewServer(addr)
	if err != nil {
		vt.Inconclusive(t, "bind: %v", err)
	}
	defer model.Close()
	setKETarget(addr)
	defer setKETarget(nil)
	sealN := func(n int) func(ex *netlab.Exchange, hdr []byte) []byte {
		return func(ex *netlab.Exchange, hdr []byte) []byte {
			fs, err := walk(ex.Raw)
			if err != nil {
				return hdr
			}
			var uid []byte
			for _, f := range fs {
				if f.typ == 0x104 {
					uid = f.body
				}
			}
			sesMu.Lock()
			k := sessions[len(sessions)-1].s2c
			sesMu.Unlock()
			var cookies [][]byte
			for i := 0; i < n; i++ {
				ck := bytes.Repeat([]byte{byte(0x40 + i), byte(ex.Seq)}, 62)
				if sameCookie.Load() {
					ck = bytes.Repeat([]byte{0x7e, byte(ex.Seq)}, 62) // a server that hands out the same cookie n times
				}
				cookies = append(cookies, ck)
			}
			// sealed by the harness (own field encoder + miscreant): the reply may carry no cookie at all
			b := bytes.Clone(hdr[:48])
			b = append(b, extField(0x104, uid)...)
			var pt []byte
			for _, ck := range cookies {
				pt = append(pt, extField(0x204, ck)...)
			}
			a, err := miscreant.NewAEAD("AES-CMAC-SIV", k, 16)
			if err != nil {
				return hdr
			}
			nonce := fillBytes(16, uint64(ex.Seq)+99)
			ct := a.Seal(nil, nonce, pt, b)
			body := make([]byte, 4, 4+16+len(ct))
			binary.BigEndian.PutUint16(body, 16)
			binary.BigEndian.PutUint16(body[2:], uint16(len(ct)))
			body = append(append(body, nonce...), ct...)
			return append(b, extField(0x404, body)...)
		}
	}
	vt.Check(t, 40, 400, func(t *rapid.T) {
		n := rapid.SampledFrom([]int{0, 1, 2, 3, 5, 6, 7, 8}).Draw(t, "cookies-in-first-reply")
		same := n > 1 && rapid.IntRange(0, 3).Draw(t, "same-cookie-n-times") == 0
		sameCookie.Store(same)
		defer sameCookie.Store(false)
		keN := rapid.SampledFrom([]int{8, 8, 8, 9, 10, 12, 16}).Draw(t, "cookies-from-key-exchange")
		keCookies.Store(int32(keN))
		defer keCookies.Store(8)
		keDup := rapid.IntRange(0, 4).Draw(t, "key-exchange-repeats-a-cookie") == 0
		keRepeatFirst.Store(keDup)
		defer keRepeatFirst.Store(false)
		keDistinct := keN
		if keDup {
			keDistinct = keN - 1
			recCap.Label("key-exchange-with-a-repeated-cookie")
		}
		c := &client.IPClient{Log: slog.New(slog.NewTextHandler(io.Discard, nil))}
		c.Auth.Enabled = true
		c.Auth.NTSKEFetcher = ntske.Fetcher{Log: c.Log, Port: strconv.Itoa(ke.Addr.Port),
			TLSConfig: tls.Config{NextProtos: []string{"ntske/1"}, InsecureSkipVerify: true, ServerName: ke.Addr.IP.String(), MinVersion: tls.VersionTLS13}}
		callWithin := 2 * time.Second
		call := func() error {
			ctx, cancel := context.WithTimeout(context.Background(), callWithin)
			defer cancel()
			_, _, err := client.MeasureClockOffsetIP(ctx, c.Log, c, laddr, &net.UDPAddr{IP: addr.IP, Port: addr.Port})
			model.WaitIdle()
			ke.Wait()
			return err
		}
		model.ClearPlans()
		model.Take()
		// 0..3 lost exchanges first (the first of them performs the key exchange): the pool has free slots then
		lost := rapid.IntRange(0, 3).Draw(t, "lost-exchanges-first")
		conns0 := ke.Conns()
		model.SetDefault(netlab.Plan{DropRequest: true})
		callWithin = 150 * time.Millisecond
		for i := 0; i < lost; i++ {
			if err := call(); err == nil {
				t.Fatalf("harness: a dropped request was answered")
			}
		}
		callWithin = 2 * time.Second
		model.SetDefault(netlab.Plan{Build: sealN(n)})
		if err := call(); err != nil {
			t.Fatalf("first answered exchange (reply with %d cookies) failed: %v", n, err)
		}
		if ke.Conns() != conns0+1 {
			t.Fatalf("the calls up to the first answered one performed %d key exchanges", ke.Conns()-conns0)
		}
		model.SetDefault(netlab.Plan{Build: sealN(0)})
		pool := 0
		for i := 0; i < 20; i++ {
			before := ke.Conns()
			err := call()
			if ke.Conns() != before {
				break // the pool was empty: the client exchanged keys again
			}
			if err != nil {
				t.Fatalf("exchange %d after the first one failed without a new key exchange: %v", i+1, err)
			}
			pool++
		}
		// no cookie may have gone out twice, whatever the server handed out
		seenCk := map[string]int{}
		for i, ex := range model.Take() {
			fs, err := walk(ex.Raw)
			if err != nil {
				continue
			}
			for _, f := range fs {
				if f.typ == 0x204 {
					if j, dup := seenCk[string(f.body)]; dup {
						t.Fatalf("request %d carries the same cookie as request %d (key exchange delivered %d cookies, first reply %d cookies, all the same: %v)", i, j, keN, n, same)
					}
					seenCk[string(f.body)] = i
				}
			}
		}
		want := min(8, min(8, keDistinct)-lost-1+n)
		if same {
			want = min(8, min(8, keDistinct)-lost-1+1) // one distinct cookie was delivered
			recCap.Label("reply-with-the-same-cookie-several-times")
		}
		if keN > 8 {
			recCap.Label("more-than-8-cookies-from-key-exchange")
		}
		if pool > 8 {
			t.Fatalf("after a key exchange that delivered %d cookies and one successful exchange whose reply carried %d cookies the pool held %d cookies (more than eight)", keN, n, pool)
		}
		if pool != want {
			t.Fatalf("after a reply with %d cookies the pool held %d cookies, expected %d", n, pool, want)
		}
		recCap.Eval(n > 1, ev.Hash(n, keN, lost, same), func() any { return map[string]any{"cookies_in_first_reply": n, "cookies_from_key_exchange": keN, "lost_first": lost, "same_cookie": same, "pool_after": pool} })
	})
}
