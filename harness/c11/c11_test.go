package c11

import (
	"bytes"
	"context"
	"crypto/tls"
	"encoding/binary"
	"fmt"
	"io"
	"log/slog"
	"net"
	"os"
	"strconv"
	"strings"
	"sync"
	"sync/atomic"
	"testing"
	"time"

	"github.com/miscreant/miscreant.go"
	"github.com/prometheus/client_golang/prometheus"
	"pgregory.net/rapid"

	"example.com/scion-time/core/client"
	"example.com/scion-time/core/server"
	"example.com/scion-time/core/timebase"
	"example.com/scion-time/driver/clocks"
	"example.com/scion-time/net/nts"
	"example.com/scion-time/net/ntske"

	"verif/internal/ev"
	"verif/internal/netlab"
	"verif/internal/vt"
)

var (
	provider *ntske.Provider
	ke       *netlab.KEServer
	relay    *relayT
	srvAddr  *net.UDPAddr
	scionSrvAddr *net.UDPAddr
	laddr    *net.UDPAddr

	sesMu    sync.Mutex
	sessions []session // one per key exchange performed
)

type session struct{ c2s, s2c []byte }

var (
	keTargetMu   sync.Mutex
	keTargetAddr *net.UDPAddr // the NTP server the key exchange names; nil: the relay in front of the real listener
)

func keTarget() *net.UDPAddr {
	keTargetMu.Lock()
	defer keTargetMu.Unlock()
	if keTargetAddr != nil {
		return keTargetAddr
	}
	return relay.addr
}

// keCookies: how many cookies the harness's key-exchange server issues (a server SHOULD send eight; some send more).
var keCookies atomic.Int32

func init() { keCookies.Store(8) }

// keRepeatFirst: the key-exchange server's second cookie record repeats the first.
var keRepeatFirst atomic.Bool

func setKETarget(a *net.UDPAddr) {
	keTargetMu.Lock()
	keTargetAddr = a
	keTargetMu.Unlock()
}

func TestMain(m *testing.M) {
	log := slog.New(slog.NewTextHandler(io.Discard, nil))
	timebase.RegisterClock(clocks.NewSystemClock(log, clocks.UnknownDrift))
	prometheus.DefaultRegisterer = prometheus.NewRegistry()
	provider = ntske.NewProvider()
	srvAddr = netlab.UDPAddr(netlab.Addr(0), 12411)
	laddr = netlab.UDPAddr(netlab.Addr(1), 0)
	server.StartIPServer(context.Background(), log, srvAddr, 0, provider)
	scionSrvAddr = netlab.UDPAddr(netlab.Addr(5), 12413)
	server.StartSCIONServer(context.Background(), log, "", scionSrvAddr, 0, provider) // same provider: same cookies
	var err error
	if relay, err = newRelay(netlab.UDPAddr(netlab.Addr(2), 12412), srvAddr); err == nil {
		ke, err = netlab.NewKEServer(&net.TCPAddr{IP: netlab.Addr(0).AsSlice(), Port: 0})
	}
	if err != nil {
		fmt.Println("VERIF-INCONCLUSIVE: cannot set up relay / key-exchange server:", err)
		os.Exit(0)
	}
	// conformant key-exchange server issuing exactly the cookies this project's servers issue
	ke.Set([]string{"ntske/1"}, func(c *netlab.KEConn) {
		c.ReadRequest()
		c2s, s2c, err := c.Keys()
		if err != nil {
			return
		}
		sesMu.Lock()
		sessions = append(sessions, session{c2s, s2c})
		sesMu.Unlock()
		key := provider.Current()
		recs := []netlab.Rec{
			{Type: netlab.RecNextProto, Critical: true, Body: netlab.U16(0)},
			{Type: netlab.RecAEAD, Critical: true, Body: netlab.U16(15)},
			{Type: netlab.RecServer, Body: []byte(keTarget().IP.String())},
			{Type: netlab.RecPort, Body: netlab.U16(uint16(keTarget().Port))},
		}
		sc := ntske.ServerCookie{Algo: ntske.AES_SIV_CMAC_256, S2C: s2c, C2S: c2s}
		for i := 0; i < int(keCookies.Load()); i++ {
			enc, err := sc.EncryptWithNonce(key.Value, key.ID)
			if err != nil {
				return
			}
			recs = append(recs, netlab.Rec{Type: netlab.RecCookie, Body: enc.Encode()})
			if keRepeatFirst.Load() && i == 0 {
				recs = append(recs, recs[len(recs)-1]) // a key-exchange server that sends its first cookie record twice
				i++
			}
		}
		recs = append(recs, netlab.Rec{Type: netlab.RecEnd, Critical: true})
		c.WriteSegments(netlab.EncodeRecs(recs), nil)
	})
	vt.Main(m)
}

// ---------------------------------------------------------------- relay

type hop struct {
	req, rsp         []byte
	dropReq, dropRsp bool
}

type relayT struct {
	addr     *net.UDPAddr
	down, up *net.UDPConn
	mu       sync.Mutex
	plan     []string // per request: "ok" | "drop-request" | "drop-reply"
	hops     []*hop
	busy     bool
	marks    chan byte
	probe    *net.UDPConn
}

func newRelay(addr, upstream *net.UDPAddr) (*relayT, error) {
	down, err := net.ListenUDP("udp", addr)
	if err != nil {
		return nil, err
	}
	up, err := net.DialUDP("udp", netlab.UDPAddr(netlab.Addr(2), 0), upstream)
	if err != nil {
		return nil, err
	}
	r := &relayT{addr: addr, down: down, up: up, marks: make(chan byte, 16)}
	if r.probe, err = net.DialUDP("udp", nil, addr); err != nil {
		return nil, err
	}
	go r.loop()
	return r, nil
}

func (r *relayT) loop() {
	buf := make([]byte, 4096)
	for {
		r.mu.Lock()
		r.busy = false
		r.mu.Unlock()
		n, from, err := r.down.ReadFromUDP(buf)
		if err != nil {
			return
		}
		if n == 2 && buf[0] == 0xee && from.Port == r.probe.LocalAddr().(*net.UDPAddr).Port {
			r.marks <- buf[1] // the harness's barrier datagram: everything queued before it has been handled
			continue
		}
		h := &hop{req: bytes.Clone(buf[:n])}
		r.mu.Lock()
		r.busy = true
		p := "ok"
		if len(r.plan) > 0 {
			p, r.plan = r.plan[0], r.plan[1:]
		}
		r.hops = append(r.hops, h)
		r.mu.Unlock()
		if p == "drop-request" {
			h.dropReq = true
			continue
		}
		// discard anything stale upstream, forward, wait for the reply
		r.up.SetReadDeadline(time.Now().Add(time.Millisecond))
		for {
			if _, err := r.up.Read(buf); err != nil {
				break
			}
		}
		r.up.Write(h.req)
		r.up.SetReadDeadline(time.Now().Add(300 * time.Millisecond))
		n, err = r.up.Read(buf)
		if err != nil {
			continue
		}
		r.mu.Lock()
		h.rsp = bytes.Clone(buf[:n])
		r.mu.Unlock()
		if p == "drop-reply" {
			h.dropRsp = true
			continue
		}
		if p == "forged-reply-first" {
			r.down.WriteToUDP(forgeReply(h.req, h.rsp), from)
		}
		r.down.WriteToUDP(h.rsp, from)
	}
}

// forgeReply builds what an on-path party without any key can send ahead of the genuine reply: the genuine reply's
// NTP header, the request's unique identifier, the request's own cookie reflected as a clear-text cookie field, and
// an authenticator field of the usual shape with arbitrary contents. A client has to reject it (it does not
// authenticate) and must not keep anything of it.
func forgeReply(req, rsp []byte) []byte {
	out := bytes.Clone(rsp[:48])
	for pos := 48; pos+4 <= len(req); {
		typ, l := binary.BigEndian.Uint16(req[pos:]), int(binary.BigEndian.Uint16(req[pos+2:]))
		if l < 4 || pos+l > len(req) {
			break
		}
		if typ == 0x104 || typ == 0x204 {
			out = append(out, req[pos:pos+l]...)
		}
		pos += l
	}
	auth := make([]byte, 4+4+16+32)
	binary.BigEndian.PutUint16(auth, 0x404)
	binary.BigEndian.PutUint16(auth[2:], uint16(len(auth)))
	binary.BigEndian.PutUint16(auth[4:], 16)
	binary.BigEndian.PutUint16(auth[6:], 32)
	for i := 8; i < len(auth); i++ {
		auth[i] = byte(i*37) ^ req[40+i%8]
	}
	return append(out, auth...)
}

func (r *relayT) set(plan []string) {
	r.mu.Lock()
	r.plan = plan
	r.mu.Unlock()
}

var markSeq byte

// take returns the requests handled since the last call. It first sends a barrier datagram to the relay's
// socket and waits until the relay has read it: datagrams queue in order, so every request a client sent
// before this call has been handled (and recorded) by then, however late the relay was scheduled.
func (r *relayT) take() []*hop {
	markSeq++
	r.probe.Write([]byte{0xee, markSeq})
	deadline := time.After(5 * time.Second)
wait:
	for {
		select {
		case m := <-r.marks:
			if m == markSeq {
				break wait
			}
		case <-deadline:
			break wait
		}
	}
	for i := 0; i < 5000; i++ {
		r.mu.Lock()
		b := r.busy
		r.mu.Unlock()
		if !b {
			break
		}
		time.Sleep(100 * time.Microsecond)
	}
	r.mu.Lock()
	defer r.mu.Unlock()
	h := r.hops
	r.hops = nil
	return h
}

// ---------------------------------------------------------------- own extension-field walker and AEAD

type field struct {
	typ  uint16
	body []byte
	off  int
}

func walk(b []byte) ([]field, error) {
	var fs []field
	pos := 48
	for pos < len(b) {
		if len(b)-pos < 4 {
			return fs, fmt.Errorf("%d trailing bytes", len(b)-pos)
		}
		typ, l := binary.BigEndian.Uint16(b[pos:]), int(binary.BigEndian.Uint16(b[pos+2:]))
		if l < 4 || l%4 != 0 || pos+l > len(b) {
			return fs, fmt.Errorf("extension field at %d: type %#x length %d (packet %d bytes)", pos, typ, l, len(b))
		}
		fs = append(fs, field{typ, b[pos+4 : pos+l], pos})
		pos += l
	}
	return fs, nil
}

func open(b []byte, auth field, key []byte) ([]byte, error) {
	if len(auth.body) < 4 {
		return nil, fmt.Errorf("short authenticator")
	}
	nl, cl := int(binary.BigEndian.Uint16(auth.body)), int(binary.BigEndian.Uint16(auth.body[2:]))
	pn := (nl + 3) &^ 3
	if nl != 16 || 4+pn+cl > len(auth.body) {
		return nil, fmt.Errorf("authenticator lengths nonce=%d ciphertext=%d body=%d", nl, cl, len(auth.body))
	}
	a, err := miscreant.NewAEAD("AES-CMAC-SIV", key, 16)
	if err != nil {
		return nil, err
	}
	return a.Open(nil, auth.body[4:4+nl], auth.body[4+pn:4+pn+cl], b[:auth.off])
}

// ---------------------------------------------------------------- the check

var rec = ev.New("c11/cookie-lifecycle", "rapid state machine: a real IPClient with NTS enabled talks to the real IP listener through a harness relay (the harness's conformant key-exchange server issues cookies sealed with the project's ServerCookie under the provider the listener shares, and names the relay as NTP server); actions exchange {ok, drop request, drop reply} in runs of up to 9 consecutive losses (pool 8 -> 0 -> re-key) and clean runs; a quarter of the loss-free exchanges have the relay send a forged reply ahead of the genuine one (genuine header and identifier, the request's own cookie reflected as a clear-text cookie field, an authenticator of arbitrary contents). The relay parses every datagram with its own extension-field walker. Oracle (model of the pool level L): the call never panics; every request has exactly one cookie field whose cookie was never sent before, 8-L placeholder fields (typed 0x0304, cookie-sized), an authenticator that verifies under C2S, and fits nts.MaxPacketLen; every reply fits, echoes the identifier, verifies under S2C and carries one fresh cookie per cookie/placeholder requested, each opening under a currently valid server key to the session's keys; L never exceeds 8, stays 8 in loss-free operation, and a new key exchange happens exactly when L = 0. One evaluation = one client call. Non-trivial: sequence with a request at L < 8 or a re-key after exhaustion; distinct by loss-pattern hash")

func TestPropCookieLifecycle(t *testing.T) {
	vt.Check(t, 100, 500, func(t *rapid.T) {
		c := &client.IPClient{Log: slog.New(slog.NewTextHandler(io.Discard, nil))}
		c.Auth.Enabled = true
		c.Auth.NTSKEFetcher = ntske.Fetcher{
			Log: c.Log,
			TLSConfig: tls.Config{NextProtos: []string{"ntske/1"}, InsecureSkipVerify: true, ServerName: ke.Addr.IP.String(), MinVersion: tls.VersionTLS13},
			Port: strconv.Itoa(ke.Addr.Port),
		}
		relay.take()
		L := 0 // model pool level
		seen := map[string]bool{}
		var ses session
		var pattern []string
		lowSeen, rekeys := false, 0
		n := rapid.IntRange(1, 40).Draw(t, "calls")
		runLoss := 0
		for i := 0; i < n; i++ {
			// loss runs: once a loss starts, continue it with high probability (to reach an empty pool)
			p := "ok"
			if runLoss > 0 || rapid.IntRange(0, 4).Draw(t, "start-loss") == 2 {
				if runLoss == 0 {
					runLoss = rapid.IntRange(1, 10).Draw(t, "run-length")
				}
				p = rapid.SampledFrom([]string{"drop-request", "drop-reply"}).Draw(t, "loss-kind")
				runLoss--
			}
			if p == "ok" && rapid.IntRange(0, 3).Draw(t, "forged-first") == 0 {
				p = "forged-reply-first"
			}
			if p == "forged-reply-first" {
				rec.Label("forged-reply-first")
			}
			pattern = append(pattern, p)
			relay.set([]string{p})
			conns0 := ke.Conns()
			timeout := 3 * time.Second // generous: only a failing loss-free exchange ever waits this long
			if p != "ok" && p != "forged-reply-first" {
				timeout = 60 * time.Millisecond
			}
			ctx, cancel := context.WithTimeout(context.Background(), timeout)
			var err error
			var panicked any
			func() {
				defer func() { panicked = recover() }()
				_, _, err = client.MeasureClockOffsetIP(ctx, c.Log, c, laddr, &net.UDPAddr{IP: net.IPv4(127, 0, 0, 1), Port: 123})
			}()
			cancel()
			ke.Wait()
			hops := relay.take()
			if panicked != nil {
				t.Fatalf("client panicked at pool level %d (loss pattern %v): %v", L, pattern, panicked)
			}
			rekeyed := ke.Conns() - conns0
			if L == 0 {
				if rekeyed != 1 {
					t.Fatalf("empty pool but %d key exchanges were performed (pattern %v, err %v)", rekeyed, pattern, err)
				}
				L = 8
				rekeys++
				sesMu.Lock()
				ses = sessions[len(sessions)-1]
				sesMu.Unlock()
			} else if rekeyed != 0 {
				t.Fatalf("key exchange performed although the pool held %d cookies (pattern %v)", L, pattern)
			}
			if len(hops) == 0 && err != nil && p != "ok" && strings.Contains(err.Error(), "i/o timeout") {
				// under the short deadline of a lossy step the call ran out of time before it sent anything (a stall
				// of this process): the cookie it took from the pool is gone all the same
				rec.Label("stalled-before-send")
				if rekeyed != 0 {
					return // the stall may have hit the key exchange itself: the pool level is not known any more
				}
				L--
				continue
			}
			if len(hops) != 1 {
				t.Fatalf("expected one request at the relay, saw %d (err %v, pattern %v)", len(hops), err, pattern)
			}
			h := hops[0]
			// ---- the request
			if len(h.req) > nts.MaxPacketLen {
				t.Fatalf("request of %d bytes exceeds the maximum NTS packet size %d at pool level %d", len(h.req), nts.MaxPacketLen, L)
			}
			fs, werr := walk(h.req)
			if werr != nil {
				t.Fatalf("request at pool level %d is not well-formed: %v", L, werr)
			}
			var cookies, placeholders int
			var cookieLen int
			var uid []byte
			var auth *field
			for i := range fs {
				switch fs[i].typ {
				case 0x104:
					uid = fs[i].body
				case 0x204:
					cookies++
					cookieLen = len(fs[i].body)
					if seen[string(fs[i].body)] {
						t.Fatalf("the same cookie was sent in two requests (pattern %v)", pattern)
					}
					seen[string(fs[i].body)] = true
				case 0x304:
					placeholders++
					if len(fs[i].body) != cookieLen {
						t.Fatalf("placeholder of %d bytes, cookie of %d", len(fs[i].body), cookieLen)
					}
				case 0x404:
					auth = &fs[i]
				default:
					t.Fatalf("unexpected extension field type %#x in a request", fs[i].typ)
				}
			}
			if cookies != 1 || placeholders != 8-L || auth == nil || len(uid) < 32 {
				t.Fatalf("request at pool level %d: %d cookie fields, %d placeholder fields (want 1 and %d), authenticator present=%v, identifier %d bytes (pattern %v)", L, cookies, placeholders, 8-L, auth != nil, len(uid), pattern)
			}
			if _, err := open(h.req, *auth, ses.c2s); err != nil {
				t.Fatalf("request does not verify under the session's C2S key: %v", err)
			}
			if L < 8 {
				lowSeen = true
			}
			requested := 1 + placeholders
			L--
			if h.dropReq {
				if err == nil {
					t.Fatalf("call succeeded although the request was dropped")
				}
				continue
			}
			// ---- the reply
			if h.rsp == nil {
				t.Fatalf("authenticated request at pool level %d (%d fields, %d bytes) was not answered by the listener", L+1, requested, len(h.req))
			}
			if len(h.rsp) > nts.MaxPacketLen {
				t.Fatalf("reply of %d bytes exceeds the maximum NTS packet size %d", len(h.rsp), nts.MaxPacketLen)
			}
			rf, werr := walk(h.rsp)
			if werr != nil {
				t.Fatalf("reply to a request with %d cookie/placeholder fields is not well-formed: %v", requested, werr)
			}
			var ruid []byte
			var rauth *field
			for i := range rf {
				switch rf[i].typ {
				case 0x104:
					ruid = rf[i].body
				case 0x404:
					rauth = &rf[i]
				}
			}
			if !bytes.Equal(ruid, uid) || rauth == nil {
				t.Fatalf("reply does not echo the unique identifier or has no authenticator")
			}
			pt, oerr := open(h.rsp, *rauth, ses.s2c)
			if oerr != nil {
				t.Fatalf("reply does not verify under the session's S2C key: %v", oerr)
			}
			fresh := 0
			for pos := 0; pos+4 <= len(pt); {
				typ, l := binary.BigEndian.Uint16(pt[pos:]), int(binary.BigEndian.Uint16(pt[pos+2:]))
				if l < 4 || pos+l > len(pt) {
					t.Fatalf("encrypted part of the reply is not a sequence of extension fields")
				}
				if typ == 0x204 {
					ck := pt[pos+4 : pos+l]
					if seen[string(ck)] {
						t.Fatalf("reply carries a cookie that was already used or issued")
					}
					var e ntske.EncryptedServerCookie
					if err := e.Decode(ck); err != nil {
						t.Fatalf("issued cookie does not decode: %v", err)
					}
					key, ok := provider.Get(int(e.ID))
					if !ok {
						t.Fatalf("issued cookie names key %d which is not currently valid", e.ID)
					}
					sc, err := e.Decrypt(key.Value)
					if err != nil || !bytes.Equal(sc.C2S, ses.c2s) || !bytes.Equal(sc.S2C, ses.s2c) {
						t.Fatalf("issued cookie does not open to the session's keys: %v", err)
					}
					fresh++
				}
				pos += l
			}
			fits := 48+4+len(uid)+8+16+requested*(4+cookieLen)+16 <= nts.MaxPacketLen
			if fits && fresh != requested || fresh < 1 || fresh > requested {
				t.Fatalf("reply carries %d fresh cookies for %d cookie/placeholder fields requested (all fit: %v)", fresh, requested, fits)
			}
			if h.dropRsp {
				if err == nil {
					t.Fatalf("call succeeded although the reply was dropped")
				}
				continue
			}
			if err != nil {
				t.Fatalf("loss-free authenticated exchange at pool level %d failed: %v", L+1, err)
			}
			L += fresh
			if L > 8 {
				t.Fatalf("pool grew to %d", L)
			}
			if runLoss == 0 && p == "ok" && L != 8 {
				t.Fatalf("after a successful exchange the pool is at %d, expected 8 (requested %d, got %d)", L, requested, fresh)
			}
		}
		var ls []string
		if lowSeen {
			ls = append(ls, "request-at-L<8")
		}
		if rekeys > 1 {
			ls = append(ls, "re-key-after-exhaustion")
		}
		rec.Eval(lowSeen || rekeys > 1, ev.Hash(fmt.Sprint(pattern)), func() any { return pattern }, ls...)
		if n > 1 {
			rec.Count(int64(n - 1))
		}
	})
}
