package c11

// Server side of C11 for requests this project's own client never builds: "The server answers an authenticated
// request with a well-formed reply within the maximum packet size that the requester can authenticate, containing
// one fresh cookie per cookie or placeholder requested (as many as fit)". RFC 8915 lets a client choose the length
// of its unique identifier (>= 32 bytes) and the number of placeholders; the harness seals such requests itself.

import (
	"bytes"
	"encoding/binary"
	"encoding/hex"
	"fmt"
	"net"
	"testing"
	"time"

	"github.com/miscreant/miscreant.go"
	"pgregory.net/rapid"

	"example.com/scion-time/net/nts"
	"example.com/scion-time/net/ntske"

	"github.com/scionproto/scion/pkg/addr"

	"verif/internal/ev"
	"verif/internal/netlab"
	"verif/internal/vt"
	"verif/internal/wire"
)

type reqShape struct {
	UIDLen       int    `json:"uid_len"`
	Placeholders int    `json:"placeholders"`
	PHLen        int    `json:"placeholder_len"`
	Seed         uint64 `json:"seed"`
	LVM          byte   `json:"first_byte"`
	// Encrypted: the placeholder fields travel inside the authenticator's ciphertext instead of in the clear
	// (RFC 8915 5.7 lets a client encrypt them; they are then authenticated as well)
	Encrypted bool `json:"placeholders_encrypted,omitempty"`
}

func fillBytes(n int, seed uint64) []byte {
	b := make([]byte, n)
	x := seed
	for i := range b {
		x = x*6364136223846793005 + 1442695040888963407
		b[i] = byte(x >> 56)
	}
	return b
}

func extField(typ uint16, body []byte) []byte {
	l := 4 + (len(body)+3)&^3
	f := make([]byte, l)
	binary.BigEndian.PutUint16(f, typ)
	binary.BigEndian.PutUint16(f[2:], uint16(l))
	copy(f[4:], body)
	return f
}

// sealRequest builds an NTS request of the given shape, authenticated under c2s (empty plaintext).
func sealRequest(s reqShape, cookie, c2s []byte) (pkt, uid []byte, txTime []byte) {
	hdr := make([]byte, 48)
	hdr[0] = s.LVM
	copy(hdr[40:], fillBytes(8, s.Seed+1))
	uid = fillBytes(s.UIDLen, s.Seed+2)
	pkt = append(pkt, hdr...)
	pkt = append(pkt, extField(0x104, uid)...)
	pkt = append(pkt, extField(0x204, cookie)...)
	var plain []byte
	for i := 0; i < s.Placeholders; i++ {
		if s.Encrypted {
			plain = append(plain, extField(0x304, make([]byte, s.PHLen))...)
		} else {
			pkt = append(pkt, extField(0x304, make([]byte, s.PHLen))...)
		}
	}
	a, err := miscreant.NewAEAD("AES-CMAC-SIV", c2s, 16)
	if err != nil {
		panic(err)
	}
	nonce := fillBytes(16, s.Seed+3)
	ct := a.Seal(nil, nonce, plain, pkt)
	body := make([]byte, 4, 4+16+len(ct))
	binary.BigEndian.PutUint16(body, 16)
	binary.BigEndian.PutUint16(body[2:], uint16(len(ct)))
	body = append(body, nonce...)
	body = append(body, ct...)
	pkt = append(pkt, extField(0x404, body)...)
	return pkt, uid, hdr[40:48]
}

var recSrv = ev.New("c11/server-replies", "rapid: NTS requests sealed by the harness (own field encoder + miscreant AES-SIV) under the C2S key of a cookie issued under the listener's current server key, with a unique identifier of 32..300 bytes (dense at 32, 64, 112..124, 248), one cookie and 0..12 placeholders of cookie size (or another size; in the clear or, for a quarter of the requests, inside the ciphertext), sent to the real IP listener. Oracle: exactly one reply; it fits nts.MaxPacketLen; well-formed for the harness's own walker; echoes the identifier; verifies under S2C; carries min(requested, as many 124-byte cookies as fit the maximum packet size for this identifier length) fresh, pairwise distinct cookies, each opening under a currently valid server key to the session's keys. One evaluation = one request. Non-trivial: identifier longer than 32 bytes or more than 8 fields requested; distinct by request shape")

func TestPropServerReplies(t *testing.T) { serverReplies(t, "ip", recSrv, 600, 6000) }

var recSrvS = ev.New("c11/server-replies-scion", "as c11/server-replies, the requests wrapped into SCION/UDP packets (empty path) and sent to the real SCION listener, which shares the key provider; 1..4 requests per case from one socket, so that one listener goroutine sees requests with many placeholders followed by requests with few. Same oracle on the unwrapped replies")

func TestPropServerRepliesSCION(t *testing.T) { serverReplies(t, "scion", recSrvS, 300, 3000) }

func serverReplies(t *testing.T, transport string, recSrv *ev.Recorder, nq, nth int) {
	sock, err := net.ListenUDP("udp", netlab.UDPAddr(netlab.Addr(4), 0))
	if err != nil {
		vt.Inconclusive(t, "bind: %v", err)
	}
	defer sock.Close()
	buf := make([]byte, 8192)
	ia := addr.MustIAFrom(1, 0xff0000000110)
	pth, _ := (wire.PathSpec{Kind: "empty"}).SlayersPath()
	wrap := func(payload []byte) []byte {
		if transport != "scion" {
			return payload
		}
		raw, err := (&wire.Pkt{SrcIA: ia, DstIA: ia, Src: netlab.Addr(4), Dst: netlab.Addr(5), Path: pth, SrcPort: 4567, DstPort: uint16(scionSrvAddr.Port), Payload: payload}).Serialize(nil, nil)
		if err != nil {
			panic(err)
		}
		return raw
	}
	unwrap := func(d []byte) []byte {
		if transport != "scion" {
			return d
		}
		p, err := wire.Parse(d)
		if err != nil || !p.IsUDP {
			return nil
		}
		return p.UDP.Payload
	}
	dstAddr := srvAddr
	if transport == "scion" {
		dstAddr = scionSrvAddr
	}
	vt.Check(t, nq, nth, func(t *rapid.T) {
		nreq := 1
		if transport == "scion" {
			nreq = rapid.IntRange(1, 4).Draw(t, "requests")
		}
		for ; nreq > 0; nreq-- {
			s := reqShape{
				UIDLen:       rapid.OneOf(rapid.Just(32), rapid.SampledFrom([]int{32, 33, 36, 64, 112, 116, 117, 120, 124, 128, 248, 252, 300}), rapid.IntRange(32, 300)).Draw(t, "uidlen"),
				Placeholders: rapid.OneOf(rapid.IntRange(0, 7), rapid.IntRange(0, 12)).Draw(t, "placeholders"),
				PHLen:        124,
				Seed:         rapid.Uint64().Draw(t, "seed"),
				LVM:          rapid.SampledFrom([]byte{0x23, 0x23, 0x1b, 0xe3}).Draw(t, "lvm"),
			}
			s.Encrypted = s.Placeholders > 0 && rapid.IntRange(0, 3).Draw(t, "encrypted-placeholders") == 0
			if rapid.IntRange(0, 5).Draw(t, "odd-placeholder") == 0 {
				s.PHLen = rapid.SampledFrom([]int{0, 4, 24, 100, 128, 200}).Draw(t, "phlen")
			}
			// the request must fit the listener's view of a maximum NTS packet itself
			for 48+4+(s.UIDLen+3)&^3+128+s.Placeholders*(4+(s.PHLen+3)&^3)+4+4+16+16 > 2000 && s.Placeholders > 0 { // the listener reads up to 2048 bytes
				s.Placeholders--
			}
			c2s, s2c := fillBytes(32, s.Seed+10), fillBytes(32, s.Seed+11)
			key := provider.Current()
			sc := ntske.ServerCookie{Algo: ntske.AES_SIV_CMAC_256, S2C: s2c, C2S: c2s}
			enc, err := sc.EncryptWithNonce(key.Value, key.ID)
			if err != nil {
				t.Fatalf("harness: %v", err)
			}
			cookie := enc.Encode()
			pkt, uid, tx := sealRequest(s, cookie, c2s)
			// drain, send, collect for a short while
			for {
				sock.SetReadDeadline(time.Now().Add(200 * time.Microsecond))
				if _, _, err := sock.ReadFromUDP(buf); err != nil {
					break
				}
			}
			var replies [][]byte
			for attempt := 0; attempt < 3 && len(replies) == 0; attempt++ {
				sock.WriteToUDP(wrap(pkt), dstAddr)
				deadline := time.Now().Add(time.Duration(200*(attempt+1)) * time.Millisecond)
				for {
					sock.SetReadDeadline(deadline)
					n, _, err := sock.ReadFromUDP(buf)
					if err != nil {
						break
					}
					if d := unwrap(buf[:n]); len(d) >= 48 && bytes.Equal(d[24:32], tx) {
						replies = append(replies, bytes.Clone(d))
						deadline = time.Now().Add(3 * time.Millisecond)
					}
				}
			}
			requested := 1 + s.Placeholders
			desc := fmt.Sprintf("identifier of %d bytes, 1 cookie + %d placeholders of %d bytes%s (request %d bytes)", s.UIDLen, s.Placeholders, s.PHLen, map[bool]string{true: " inside the ciphertext", false: ""}[s.Encrypted], len(pkt))
			if len(replies) == 0 {
				t.Fatalf("authenticated request (%s) was not answered", desc)
			}
			r := replies[0]
			if len(r) > nts.MaxPacketLen {
				t.Fatalf("reply of %d bytes exceeds the maximum NTS packet size %d (%s)", len(r), nts.MaxPacketLen, desc)
			}
			rf, werr := walk(r)
			if werr != nil {
				t.Fatalf("reply is not well-formed: %v (%s)", werr, desc)
			}
			var ruid []byte
			var rauth *field
			for i := range rf {
				switch rf[i].typ {
				case 0x104:
					ruid = rf[i].body
				case 0x404:
					rauth = &rf[i]
				}
			}
			if rauth == nil || len(ruid) < len(uid) || !bytes.Equal(ruid[:len(uid)], uid) || len(bytes.Trim(ruid[len(uid):], "\x00")) != 0 {
				t.Fatalf("reply does not echo the unique identifier or has no authenticator (%s)", desc)
			}
			pt, oerr := open(r, *rauth, s2c)
			if oerr != nil {
				t.Fatalf("reply does not verify under the session's S2C key: %v (%s)", oerr, desc)
			}
			fresh := 0
			seen := map[string]bool{string(cookie): true}
			for pos := 0; pos+4 <= len(pt); {
				typ, l := binary.BigEndian.Uint16(pt[pos:]), int(binary.BigEndian.Uint16(pt[pos+2:]))
				if l < 4 || pos+l > len(pt) {
					t.Fatalf("encrypted part of the reply is not a sequence of extension fields (%s)", desc)
				}
				if typ == 0x204 {
					ck := pt[pos+4 : pos+l]
					if seen[string(ck)] {
						t.Fatalf("reply carries the same cookie twice, or the cookie just used (%s)", desc)
					}
					seen[string(ck)] = true
					var e ntske.EncryptedServerCookie
					if err := e.Decode(ck); err != nil {
						t.Fatalf("issued cookie does not decode: %v", err)
					}
					k, ok := provider.Get(int(e.ID))
					if !ok {
						t.Fatalf("issued cookie names key %d which is not currently valid", e.ID)
					}
					o, err := e.Decrypt(k.Value)
					if err != nil || !bytes.Equal(o.C2S, c2s) || !bytes.Equal(o.S2C, s2c) {
						t.Fatalf("issued cookie does not open to the session's keys: %v", err)
					}
					fresh++
				}
				pos += l
			}
			// as many as fit: header + identifier field + authenticator (4 + 4 + 16 nonce + 16 tag + n cookie fields)
			fit := 0
			for n := 1; 48+4+(s.UIDLen+3)&^3+4+4+16+16+n*(4+len(cookie)) <= nts.MaxPacketLen; n++ {
				fit = n
			}
			want := min(requested, fit)
			if fresh != want {
				t.Fatalf("reply carries %d fresh cookies; %d were requested and %d fit the maximum packet size of %d with this identifier (%s; reply %d bytes)", fresh, requested, fit, nts.MaxPacketLen, desc, len(r))
			}
			var ls []string
			if s.UIDLen > 32 {
				ls = append(ls, "long-identifier")
			}
			if requested > 8 {
				ls = append(ls, "more-than-8-requested")
			}
			if want < requested {
				ls = append(ls, "not-all-fit")
			}
			if s.Encrypted {
				ls = append(ls, "placeholders-encrypted")
			}
			recSrv.Eval(s.UIDLen > 32 || requested > 8, ev.Hash(s.UIDLen, s.Placeholders, s.PHLen, int(s.LVM), s.Encrypted), func() any {
				return map[string]any{"shape": s, "request_prefix": hex.EncodeToString(pkt[:64]), "reply_len": len(r), "fresh_cookies": fresh}
			}, ls...)
		}
	})
}
