package c06l

// C06 layer 2: the same request kinds sent through the real IP listener
// sockets on loopback (kernel timestamps); relational oracle.

import (
	"context"
	"fmt"
	"io"
	"log/slog"
	"net"
	"net/netip"
	"os"
	"testing"
	"time"

	"github.com/prometheus/client_golang/prometheus"
	"pgregory.net/rapid"

	"example.com/scion-time/core/server"
	"example.com/scion-time/core/timebase"
	"example.com/scion-time/driver/clocks"
	"example.com/scion-time/net/ntp"

	"github.com/scionproto/scion/pkg/addr"

	spathpkg "github.com/scionproto/scion/pkg/slayers/path"
	"github.com/scionproto/scion/pkg/slayers/path/onehop"
	"verif/internal/ev"

	"verif/internal/netlab"
	"verif/internal/vt"
	"verif/internal/wire"
)

var (
	srvAddr     *net.UDPAddr
	srvAddrNoTS *net.UDPAddr
	scionAddr   *net.UDPAddr
	socks       []*net.UDPConn
	seq         uint32
)

func TestMain(m *testing.M) {
	log := slog.New(slog.NewTextHandler(io.Discard, nil))
	timebase.RegisterClock(clocks.NewSystemClock(log, clocks.UnknownDrift))
	prometheus.DefaultRegisterer = prometheus.NewRegistry()
	srvAddr = netlab.UDPAddr(netlab.Addr(0), 12360)
	server.StartIPServer(context.Background(), log, srvAddr, 0, nil)
	// a second IP listener bound with an interface zone: hardware transmit timestamps only are requested, the
	// loopback device has none, so this listener can never read the kernel transmit timestamp of a reply
	prometheus.DefaultRegisterer = prometheus.NewRegistry()
	srvAddrNoTS = netlab.UDPAddr(netlab.Addr(7), 12362)
	srvAddrNoTS.Zone = "lo"
	server.StartIPServer(context.Background(), log, srvAddrNoTS, 0, nil)
	prometheus.DefaultRegisterer = prometheus.NewRegistry()
	scionAddr = netlab.UDPAddr(netlab.Addr(6), 12361)
	server.StartSCIONServer(context.Background(), log, "", scionAddr, 0, nil)
	for i := 0; i < 6; i++ {
		c, err := net.ListenUDP("udp", netlab.UDPAddr(netlab.Addr(1+i%2), 0))
		if err != nil {
			fmt.Println("VERIF-INCONCLUSIVE: cannot bind:", err)
			os.Exit(0)
		}
		socks = append(socks, c)
	}
	vt.Main(m)
}

type reply struct {
	client   string
	sent, h  time.Time // harness instants around the exchange
	req, rsp ntp.Packet
	rx, tx   time.Time
}

func exchange(sock *net.UDPConn, req ntp.Packet) (*reply, error) {
	b := make([]byte, 48)
	ntp.EncodePacket(&b, &req)
	buf := make([]byte, 2048)
	for attempt := 0; attempt < 4; attempt++ {
		sent := netlab.Now()
		if _, err := sock.WriteToUDP(b, srvAddr); err != nil {
			return nil, err
		}
		sock.SetReadDeadline(time.Now().Add(400 * time.Millisecond))
		for {
			n, _, err := sock.ReadFromUDP(buf)
			if err != nil {
				break
			}
			h := netlab.Now()
			var rsp ntp.Packet
			if ntp.DecodePacket(&rsp, buf[:n]) != nil {
				continue
			}
			if rsp.OriginTime != req.TransmitTime && rsp.OriginTime != req.ReceiveTime {
				continue // reply to an earlier attempt
			}
			r := &reply{client: sock.LocalAddr().(*net.UDPAddr).IP.String(), sent: sent, h: h, req: req, rsp: rsp}
			r.rx = ntp.TimeFromTime64(rsp.ReceiveTime, h)
			r.tx = ntp.TimeFromTime64(rsp.TransmitTime, h)
			return r, nil
		}
	}
	return nil, fmt.Errorf("no reply after 4 attempts")
}

var rec = ev.New("c06/listener", "rapid sequences of requests {basic, interleaved citing the latest / an older reply to this client address, citing a reply to the other client address, unknown origin, rx field == tx field} from 6 sockets on 2 client addresses to the real IP listener (8 SO_REUSEPORT goroutines, kernel rx/tx timestamps). Relational oracle: reply receive timestamp within [send instant, receive instant] of the harness and different from the receive timestamps of the previous 7 replies to that address; a basic reply echoes the transmit field and has rx < tx <= harness receive instant; an interleaved reply (origin = request's receive field) is given only if the request cited an earlier reply to the same address with differing rx/tx fields, and carries a transmit time in (rx_k, harness receive instant of reply k]. One evaluation = one exchange. Non-trivial: sequence with an interleaved reply; distinct by sequence hash")

// endp is one sender: client is the identity the listener must key its record by.
type endp struct {
	name, client string
	ex           func(req ntp.Packet) (*reply, error)
	mayBeIgnored bool // a sender the listener need not serve at all (not an IP host); if it does, the oracle applies
}

func TestPropListener(t *testing.T) {
	var eps []endp
	for _, sk := range socks {
		sk := sk
		eps = append(eps, endp{name: sk.LocalAddr().String(), client: sk.LocalAddr().(*net.UDPAddr).IP.String(), ex: func(req ntp.Packet) (*reply, error) { return exchange(sk, req) }})
	}
	listenerBody(t, eps, rec, 250, 2500)
}

var recS = ev.New("c06/listener-scion", "as c06/listener for the real SCION listener: 8 senders (own 'previous hop' sockets) for 6 client identities = {2 ISD-ASes} x {2 host addresses} plus, per ISD-AS, a SCION service address with the same four bytes as the first host address (need not be served; if it is, it is a client of its own), so that clients that differ only in their ISD-AS, only in their host, or only in their address type cite each other's receive timestamps; requests wrapped into SCION/UDP packets over an empty or a one-segment path. Same relational oracle, with the client identity = (ISD-AS, host)")

func TestPropListenerSCION(t *testing.T) {
	ias := []addr.IA{addr.MustIAFrom(1, 0xff0000000111), addr.MustIAFrom(2, 0xff0000000222)}
	hosts := []netip.Addr{netip.MustParseAddr("10.3.3.1"), netip.MustParseAddr("10.3.3.2")}
	var eps []endp
	for i := 0; i < 8; i++ {
		hop, err := net.ListenUDP("udp", netlab.UDPAddr(netlab.Addr(3), 0))
		if err != nil {
			vt.Inconclusive(t, "bind: %v", err)
		}
		defer hop.Close()
		ia, host := ias[i%2], hosts[i/2%2]
		if i >= 6 {
			// a SCION service address with the same four bytes as a host address: another endpoint in the same AS
			ia, host := ias[i%2], hosts[0]
			eps = append(eps, endp{name: fmt.Sprintf("%v,svc:%v#%d", ia, host, i), client: fmt.Sprintf("%v,svc:%v", ia, host), mayBeIgnored: true,
				ex: func(req ntp.Packet) (*reply, error) { return exchangeSCIONType(hop, ia, host, true, req) }})
			continue
		}
		eps = append(eps, endp{name: fmt.Sprintf("%v,%v#%d", ia, host, i), client: fmt.Sprintf("%v,%v", ia, host), ex: func(req ntp.Packet) (*reply, error) { return exchangeSCION(hop, ia, host, req) }})
	}
	listenerBody(t, eps, recS, 150, 1500)
}

func exchangeSCION(hop *net.UDPConn, ia addr.IA, host netip.Addr, req ntp.Packet) (*reply, error) {
	return exchangeSCIONType(hop, ia, host, false, req)
}

var errIgnored = fmt.Errorf("no reply")

func exchangeSCIONType(hop *net.UDPConn, ia addr.IA, host netip.Addr, svc bool, req ntp.Packet) (*reply, error) {
	b := make([]byte, 48)
	ntp.EncodePacket(&b, &req)
	ps := wire.PathSpec{Kind: "empty"}
	dstIA := ia
	if req.TransmitTime.Fraction%2 == 1 {
		ps = wire.PathSpec{Kind: "scion", SegLens: []int{3}, ConsDir: []bool{true}, CurrHF: 2, Seed: uint64(req.TransmitTime.Fraction)}
		dstIA = addr.MustIAFrom(9, 0xff0000000999)
	}
	pth, err := ps.SlayersPath()
	if err != nil {
		return nil, err
	}
	raw, err := (&wire.Pkt{SrcIA: ia, DstIA: dstIA, Src: host, Dst: netlab.Addr(6), Path: pth, SrcPort: 5123, DstPort: uint16(scionAddr.Port), Payload: b}).Serialize(nil, nil)
	if err != nil {
		return nil, err
	}
	name := fmt.Sprintf("%v,%v", ia, host)
	attempts := 4
	if svc {
		raw[9] = raw[9]&0xf0 | 0x4 // source address type: service, length 4
		name = fmt.Sprintf("%v,svc:%v", ia, host)
		attempts = 1
	}
	buf := make([]byte, 4096)
	for attempt := 0; attempt < attempts; attempt++ {
		sent := netlab.Now()
		if _, err := hop.WriteToUDP(raw, scionAddr); err != nil {
			return nil, err
		}
		hop.SetReadDeadline(time.Now().Add(map[bool]time.Duration{false: 400 * time.Millisecond, true: 60 * time.Millisecond}[svc]))
		for {
			n, _, err := hop.ReadFromUDP(buf)
			if err != nil {
				break
			}
			h := netlab.Now()
			p, perr := wire.Parse(buf[:n])
			if perr != nil || !p.IsUDP {
				continue
			}
			var rsp ntp.Packet
			if ntp.DecodePacket(&rsp, p.UDP.Payload) != nil {
				continue
			}
			if rsp.OriginTime != req.TransmitTime && rsp.OriginTime != req.ReceiveTime {
				continue
			}
			if d, _ := p.DstAddr(); p.SCION.DstIA != ia || d != host {
				return nil, fmt.Errorf("reply addressed to %v,%v instead of %v,%v", p.SCION.DstIA, d, ia, host)
			}
			if svc != (p.SCION.DstAddrType == 0x4) {
				return nil, fmt.Errorf("reply addressed to address type %v", p.SCION.DstAddrType)
			}
			r := &reply{client: name, sent: sent, h: h, req: req, rsp: rsp}
			r.rx = ntp.TimeFromTime64(rsp.ReceiveTime, h)
			r.tx = ntp.TimeFromTime64(rsp.TransmitTime, h)
			return r, nil
		}
	}
	if svc {
		return nil, errIgnored
	}
	return nil, fmt.Errorf("no reply after 4 attempts")
}

func listenerBody(t *testing.T, eps []endp, rec *ev.Recorder, nq, nth int) {
	vt.Check(t, nq, nth, func(t *rapid.T) {
		var hist []*reply
		var log []string
		nInter := 0
		n := rapid.IntRange(1, 25).Draw(t, "n")
		for i := 0; i < n; i++ {
			ep := rapid.SampledFrom(eps).Draw(t, "sender")
			client := ep.client
			var mine, others []*reply
			for _, r := range hist {
				if r.client == client {
					mine = append(mine, r)
				} else {
					others = append(others, r)
				}
			}
			seq++
			var req ntp.Packet
			req.SetVersion(4)
			req.SetMode(ntp.ModeClient)
			req.TransmitTime = ntp.Time64{Seconds: 0xa0000000 + seq, Fraction: seq * 7919}
			req.ReceiveTime = ntp.Time64{Seconds: 0xb0000000 + seq, Fraction: seq}
			kind := rapid.SampledFrom([]string{"basic", "il-latest", "il-latest", "il-older", "il-other-client", "il-unknown", "il-rx-eq-tx"}).Draw(t, "kind")
			var cited *reply
			switch {
			case kind == "il-latest" && len(mine) > 0:
				cited = mine[len(mine)-1]
			case (kind == "il-older" || kind == "il-rx-eq-tx") && len(mine) > 0:
				cited = rapid.SampledFrom(mine).Draw(t, "cite")
			case kind == "il-other-client" && len(others) > 0:
				cited = rapid.SampledFrom(others).Draw(t, "cite")
			case kind == "il-unknown":
				req.OriginTime = ntp.Time64{Seconds: 1, Fraction: seq}
			default:
				kind = "basic"
			}
			if cited != nil {
				req.OriginTime = cited.rsp.ReceiveTime
			}
			if kind == "il-rx-eq-tx" {
				req.ReceiveTime = req.TransmitTime
			}
			r, err := ep.ex(req)
			if err == errIgnored && ep.mayBeIgnored {
				log = append(log, fmt.Sprintf("%s from %s -> not served", kind, ep.name))
				rec.Label("service-address-sender-not-served")
				continue
			}
			if err != nil {
				t.Fatalf("well-formed request not answered: %v (history %v)", err, log)
			}
			log = append(log, fmt.Sprintf("%s from %s -> origin-is-rx-field=%v", kind, ep.name, r.rsp.OriginTime == req.ReceiveTime))
			if r.rsp.Version() != 4 || r.rsp.Mode() != ntp.ModeServer || r.rsp.Stratum != 1 {
				t.Fatalf("reply is not v4/server/stratum 1")
			}
			if r.rx.Before(r.sent.Add(-time.Microsecond)) || r.rx.After(r.h) {
				t.Fatalf("receive timestamp %v outside [%v, %v]", r.rx, r.sent, r.h)
			}
			for _, p := range mine[max(0, len(mine)-7):] {
				if p.rsp.ReceiveTime == r.rsp.ReceiveTime {
					t.Fatalf("two of the last 8 replies to %s carry the same receive timestamp %v", client, r.rsp.ReceiveTime)
				}
			}
			interleaved := req.ReceiveTime != req.TransmitTime && r.rsp.OriginTime == req.ReceiveTime
			if interleaved {
				nInter++
				if cited == nil || cited.client != client {
					t.Fatalf("interleaved reply although the request did not cite an earlier reply to this client (kind %s)", kind)
				}
				if !r.tx.After(cited.rx) || r.tx.After(cited.h) {
					t.Fatalf("interleaved reply carries transmit time %v, not in (rx_k=%v, harness receive instant of reply k=%v]", r.tx, cited.rx, cited.h)
				}
			} else {
				if r.rsp.OriginTime != req.TransmitTime {
					t.Fatalf("basic reply does not echo the transmit field")
				}
				if !r.tx.After(r.rx) || r.tx.After(r.h) {
					t.Fatalf("basic reply: rx %v tx %v receive instant %v", r.rx, r.tx, r.h)
				}
			}
			hist = append(hist, r)
		}
		rec.Eval(nInter > 0, ev.Hash(fmt.Sprint(log)), func() any { return log[:min(len(log), 10)] })
		if n > 1 {
			rec.Count(int64(n - 1))
		}
	})
}

// "An exchange for which none [no kernel transmit timestamp] could be read is dropped from the record rather than
// served": a listener that cannot read transmit timestamps at all never has anything to serve in interleaved mode.
var recNoTS = ev.New("c06/listener-without-kernel-timestamps", "rapid: 2..12 requests from 1..2 sockets to a real IP listener bound with an interface zone (hardware transmit timestamps only, none on loopback: every read of the kernel transmit timestamp fails); every request after the first cites the receive timestamp of an earlier reply to the same sender, in interleaved form. Oracle: every request is answered, and always in basic mode (origin = the request's transmit field, transmit timestamp later than the receive timestamp): the cited exchanges were dropped from the record. One evaluation = one request. Non-trivial: request citing an earlier reply; distinct by (position, cited)")

func TestPropListenerNoKernelTimestamps(t *testing.T) {
	vt.Check(t, 60, 600, func(t *rapid.T) {
		n := rapid.IntRange(2, 12).Draw(t, "n")
		var prev [2][]ntp.Packet
		for i := 0; i < n; i++ {
			si := rapid.IntRange(0, 1).Draw(t, "socket")
			sock := socks[si] // two sockets on two addresses: two clients
			seq++
			var req ntp.Packet
			req.SetVersion(4)
			req.SetMode(ntp.ModeClient)
			req.TransmitTime = ntp.Time64{Seconds: 0xa1000000 + seq, Fraction: seq * 7919}
			cites := len(prev[si]) > 0 && rapid.IntRange(0, 4).Draw(t, "cite") > 0
			if cites {
				c := rapid.SampledFrom(prev[si]).Draw(t, "cited")
				req.OriginTime = c.ReceiveTime
				req.ReceiveTime = ntp.Time64{Seconds: 0xb1000000 + seq, Fraction: seq}
			}
			b := make([]byte, 48)
			ntp.EncodePacket(&b, &req)
			var rsp ntp.Packet
			got := false
			buf := make([]byte, 2048)
			for attempt := 0; attempt < 4 && !got; attempt++ {
				sock.WriteToUDP(b, &net.UDPAddr{IP: srvAddrNoTS.IP, Port: srvAddrNoTS.Port})
				sock.SetReadDeadline(time.Now().Add(400 * time.Millisecond))
				for {
					k, _, err := sock.ReadFromUDP(buf)
					if err != nil {
						break
					}
					if ntp.DecodePacket(&rsp, buf[:k]) == nil && (rsp.OriginTime == req.TransmitTime || rsp.OriginTime == req.ReceiveTime && cites) {
						got = true
						break
					}
				}
			}
			if !got {
				t.Fatalf("request %d was not answered by the listener without kernel timestamps", i)
			}
			if rsp.OriginTime != req.TransmitTime {
				t.Fatalf("request %d cites the receive timestamp of an earlier reply whose transmit timestamp could not be read: it was answered in interleaved mode (transmit %v) instead of basic mode - the exchange was not dropped from the record", i, rsp.TransmitTime)
			}
			if !rsp.TransmitTime.After(rsp.ReceiveTime) {
				t.Fatalf("request %d: basic reply with transmit %v not after receive %v", i, rsp.TransmitTime, rsp.ReceiveTime)
			}
			prev[si] = append(prev[si], rsp)
			recNoTS.Eval(cites, ev.Hash(i, cites, si), nil)
		}
	})
}

// A request that is recorded but never answered (the reply could not be built or sent): no kernel transmit timestamp
// exists for it, so "an exchange for which none could be read is dropped from the record rather than served". The
// listener's record is read through the store hook (a real peer would have to guess the receive timestamp; the
// statement quantifies over all request packets).
var recNoReply = ev.New("c06/listener-unanswered-requests", "rapid: a SCION client identity sends a request the listener accepts but cannot answer (one-hop path whose second hop field is not filled in: the path cannot be reversed), then - from the same identity over the empty path - an interleaved-form request citing the receive timestamp the listener recorded for the unanswered one (read through the store hook), or a plain request. Oracle: the unanswered request gets no reply; the citing request is answered in basic mode (nothing may be served for an exchange that never had a transmit timestamp). One evaluation = one citing request. Non-trivial: a record of the unanswered exchange existed when read; distinct by identity")

func TestPropUnansweredRequests(t *testing.T) {
	hop, err := net.ListenUDP("udp", netlab.UDPAddr(netlab.Addr(3), 0))
	if err != nil {
		vt.Inconclusive(t, "bind: %v", err)
	}
	defer hop.Close()
	var hostSeq uint32
	vt.Check(t, 40, 400, func(t *rapid.T) {
		hostSeq++
		ia := addr.MustIAFrom(3, 0xff0000000333)
		host := netip.AddrFrom4([4]byte{10, 3, byte(5 + hostSeq>>8), byte(hostSeq)})
		clientID := fmt.Sprintf("%v,%v", ia, host)
		seq++
		var req ntp.Packet
		req.SetVersion(4)
		req.SetMode(ntp.ModeClient)
		req.TransmitTime = ntp.Time64{Seconds: 0xa2000000 + seq, Fraction: seq * 7919}
		b := make([]byte, 48)
		ntp.EncodePacket(&b, &req)
		oh := &onehop.Path{}
		oh.Info = spathpkg.InfoField{ConsDir: true, SegID: uint16(seq), Timestamp: uint32(time.Now().Unix())}
		oh.FirstHop = spathpkg.HopField{ExpTime: 63, ConsIngress: 0, ConsEgress: 5}
		// SecondHop left unfilled, as a one-hop path looks before the second AS has processed it
		raw, err := (&wire.Pkt{SrcIA: ia, DstIA: addr.MustIAFrom(9, 0xff0000000999), Src: host, Dst: netlab.Addr(6), Path: oh, SrcPort: 5123, DstPort: uint16(scionAddr.Port), Payload: b}).Serialize(nil, nil)
		if err != nil {
			t.Fatalf("harness: %v", err)
		}
		hop.WriteToUDP(raw, scionAddr)
		buf := make([]byte, 4096)
		hop.SetReadDeadline(time.Now().Add(150 * time.Millisecond))
		if n, _, err := hop.ReadFromUDP(buf); err == nil {
			if p, perr := wire.Parse(buf[:n]); perr == nil && p.IsUDP {
				// answered after all (the listener found a way to reverse the path): nothing to check here
				recNoReply.Label("request-answered")
				return
			}
		}
		it, had := server.LookupV(clientID)
		cite := rapid.IntRange(0, 3).Draw(t, "cite") > 0
		seq++
		var req2 ntp.Packet
		req2.SetVersion(4)
		req2.SetMode(ntp.ModeClient)
		req2.TransmitTime = ntp.Time64{Seconds: 0xa2000000 + seq, Fraction: seq * 7919}
		if had && len(it.Pairs) > 0 && cite {
			req2.OriginTime = it.Pairs[len(it.Pairs)-1].Rx
			req2.ReceiveTime = ntp.Time64{Seconds: 0xb2000000 + seq, Fraction: seq}
		}
		r, err := exchangeSCION(hop, ia, host, req2)
		if err != nil {
			t.Fatalf("a well-formed request after the unanswered one was not answered: %v", err)
		}
		if r.rsp.OriginTime != req2.TransmitTime {
			t.Fatalf("a request citing the receive timestamp of an exchange that was never answered (no transmit timestamp was ever read for it) was served in interleaved mode with transmit timestamp %v: the exchange was left on record", r.rsp.TransmitTime)
		}
		recNoReply.Eval(had && len(it.Pairs) > 0, ev.Hash(clientID), nil)
	})
}
