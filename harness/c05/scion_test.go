package c05

// SCION part of C05: "over SCION: from the queried ISD-AS and host and addressed to the client".
// A harness front plays next hop + server: it unwraps the SCIONClient's request, lets the NTP server
// model script the payloads (same header mutations as the IP part) and wraps the i-th datagram of the
// script into a SCION reply with the i-th wrapper of a pre-drawn list: genuine, harmless variations, or
// exactly one wrong address part.

import (
	"context"
	"encoding/binary"
	"encoding/hex"
	"fmt"
	"io"
	"log/slog"
	"net"
	"net/netip"
	"sync"
	"testing"
	"time"

	"github.com/scionproto/scion/pkg/addr"
	"github.com/scionproto/scion/pkg/slayers"
	"github.com/scionproto/scion/pkg/snet"
	"pgregory.net/rapid"

	"example.com/scion-time/core/client"
	"example.com/scion-time/net/ntp"
	"example.com/scion-time/net/udp"

	"verif/internal/ev"
	"verif/internal/netlab"
	"verif/internal/vt"
	"verif/internal/wire"
)

type wrapSpec struct {
	Kind string `json:"kind"`
	Arg  uint64 `json:"arg"`
}

// wrapOK: does the statement allow a reply with this wrapper to be accepted?
func wrapOK(k string) bool {
	switch k {
	case "genuine", "hbh", "traffic-class", "flow-id", "unknown-e2e-option":
		return true
	}
	return false
}

type scionFront struct {
	down *net.UDPConn
	up   *net.UDPConn
	mu   sync.Mutex
	wrap []wrapSpec // per datagram of the current exchange; beyond the list: genuine
	sent []string
}

func (f *scionFront) set(w []wrapSpec) {
	f.mu.Lock()
	f.wrap, f.sent = w, nil
	f.mu.Unlock()
}

func otherHost(a netip.Addr, arg uint64) netip.Addr {
	switch arg % 4 {
	case 3: // an IPv6 host whose last four bytes are the IPv4 address (not the IPv4-mapped form, which is the same host)
		var b [16]byte
		copy(b[:], [][]byte{{0x20, 0x01, 0x0d, 0xb8}, {0x00, 0x64, 0xff, 0x9b}, {0xfe, 0x80}, {}, {0, 0, 0, 0, 0, 0, 0, 0, 0xff, 0xff}, {0, 0, 0, 0, 0, 0, 0, 0, 0, 0, 0xff, 0xfe}}[arg/4%6])
		a4 := a.As4()
		copy(b[12:], a4[:])
		return netip.AddrFrom16(b)
	case 0: // another IPv4 host (one bit)
		b := a.As4()
		b[3] ^= 1 << (arg / 4 % 8)
		return netip.AddrFrom4(b)
	case 1:
		b := a.As4()
		b[int(arg/4)%3] ^= 0x10
		return netip.AddrFrom4(b)
	default: // an IPv6 host
		var b [16]byte
		b[0] = 0xfd
		binary.BigEndian.PutUint64(b[8:], arg|1)
		return netip.AddrFrom16(b)
	}
}

func otherIA(ia addr.IA, arg uint64) addr.IA {
	if arg%2 == 0 {
		return addr.IA(uint64(ia) ^ 1<<(arg/2%48)) // AS bit
	}
	return addr.IA(uint64(ia) ^ 1<<(48+arg/2%16)) // ISD bit
}

func (f *scionFront) loop() {
	buf := make([]byte, 16384)
	for {
		n, from, err := f.down.ReadFromUDP(buf)
		if err != nil {
			return
		}
		p, err := wire.Parse(buf[:n])
		if err != nil || !p.IsUDP {
			continue
		}
		f.up.SetReadDeadline(time.Now().Add(50 * time.Microsecond))
		for {
			if _, err := f.up.Read(buf); err != nil {
				break
			}
		}
		f.up.Write(p.UDP.Payload)
		rev, err := p.SCION.Path.Reverse()
		if err != nil {
			continue
		}
		src, _ := p.SrcAddr()
		dst, _ := p.DstAddr()
		deadline := time.Now().Add(60 * time.Millisecond)
		for i := 0; ; i++ {
			f.up.SetReadDeadline(deadline)
			m, err := f.up.Read(buf)
			if err != nil {
				break
			}
			w := wrapSpec{Kind: "genuine"}
			f.mu.Lock()
			if i < len(f.wrap) {
				w = f.wrap[i]
			}
			f.mu.Unlock()
			out := wire.Pkt{SrcIA: p.SCION.DstIA, DstIA: p.SCION.SrcIA, Src: dst.Unmap(), Dst: src.Unmap(), Path: rev, SrcPort: p.UDP.DstPort, DstPort: p.UDP.SrcPort, Payload: append([]byte(nil), buf[:m]...)}
			switch w.Kind {
			case "src-ia":
				out.SrcIA = otherIA(out.SrcIA, w.Arg)
			case "dst-ia":
				out.DstIA = otherIA(out.DstIA, w.Arg)
			case "src-host":
				out.Src = otherHost(out.Src, w.Arg)
			case "dst-host":
				out.Dst = otherHost(out.Dst, w.Arg)
			case "swapped": // the request's own addressing, not exchanged
				out.SrcIA, out.DstIA, out.Src, out.Dst = out.DstIA, out.SrcIA, out.Dst, out.Src
			case "hbh":
				out.HBH = true
			case "traffic-class":
				out.TrafficClass = uint8(w.Arg)
			case "flow-id":
				out.FlowID = uint32(w.Arg)&0xfffff | 1
			case "unknown-e2e-option":
				out.E2E = []*slayers.EndToEndOption{{OptType: slayers.OptionType(200 + w.Arg%40), OptData: make([]byte, w.Arg%12)}}
			case "scmp":
				out.SCMP = &wire.SCMPSpec{Type: slayers.SCMPType(1 + w.Arg%5), Data: out.Payload}
			}
			raw, err := out.Serialize(nil, nil)
			if err != nil {
				f.mu.Lock()
				f.sent = append(f.sent, "unserializable:"+w.Kind)
				f.mu.Unlock()
				continue
			}
			switch w.Kind {
			case "src-type": // same address bytes, but not an IP host address: a service address or an unassigned 4-byte type
				raw[9] = raw[9]&0xf0 | []byte{0x4, 0x8, 0xc}[w.Arg%3]
			case "dst-type":
				raw[9] = raw[9]&0x0f | []byte{0x4, 0x8, 0xc}[w.Arg%3]<<4
			}
			f.down.WriteToUDP(raw, from)
			f.mu.Lock()
			f.sent = append(f.sent, w.Kind)
			f.mu.Unlock()
			if i == 0 {
				deadline = time.Now().Add(5 * time.Millisecond)
			}
		}
	}
}

var (
	frontOnce sync.Once
	front     *scionFront
	frontErr  error
)

var recSC = ev.New("c05/acceptance-scion", "rapid: a real SCIONClient (interleaved mode on/off, 0..2 clean warm-up exchanges) measures over a SCION path whose next hop is a harness front; the NTP server model answers with a script of 1..3 payloads as in c05/acceptance (genuine, arbitrary bytes, single-field header mutations, forged interleaved origins; each for its own clock offset >= 2 s apart), and the front wraps the i-th payload into a SCION reply that is genuine, a harmless variation (hop-by-hop extension, traffic class, flow id, unknown end-to-end option) or wrong in exactly one address part (source ISD-AS bit, source host - another IPv4 address, an IPv6 address, or an IPv6 address that ends in the queried IPv4 address -, destination ISD-AS bit, destination host likewise, source or destination address type changed to a service / unassigned type with the same bytes, addresses not exchanged) or an SCMP message. Oracle: success => the offset lies in the envelope of exactly one delivered datagram whose wrapper and header are acceptable by the statement (from the queried ISD-AS and host, addressed to the client, origin echoed, server mode, NTPv3/4, leap known, stratum 1..15, transmit not before receive); no acceptable datagram => error; a lone genuine reply => success. One evaluation = one scripted exchange. Non-trivial: >= 1 non-acceptable datagram delivered; distinct by script description")

func TestPropAcceptanceSCION(t *testing.T) {
	frontOnce.Do(func() {
		f := &scionFront{}
		if f.down, frontErr = net.ListenUDP("udp", netlab.UDPAddr(netlab.Addr(3), 13905)); frontErr != nil {
			return
		}
		if f.up, frontErr = net.DialUDP("udp", netlab.UDPAddr(netlab.Addr(1), 0), srvAddr); frontErr != nil {
			return
		}
		go f.loop()
		front = f
	})
	if frontErr != nil {
		vt.Inconclusive(t, "cannot start SCION front: %v", frontErr)
	}
	lIA, rIA := addr.MustIAFrom(1, 0xff0000000110), addr.MustIAFrom(2, 0xff0000000220)
	noRequest, judged = 0, 0
	defer checkStalls(t)
	vt.Check(t, 300, 3000, func(t *rapid.T) {
		c := &client.SCIONClient{Log: slog.New(slog.NewTextHandler(io.Discard, nil)), InterleavedMode: rapid.Bool().Draw(t, "interleaved")}
		ps := wire.PathSpec{Kind: rapid.SampledFrom([]string{"scion", "scion", "empty"}).Draw(t, "pathkind"), SegLens: []int{2, 2}, ConsDir: []bool{true, false}, Seed: 99}
		r := rIA
		if ps.Kind == "empty" {
			r = lIA
		}
		sp, err := ps.SnetPath(lIA, r, front.down.LocalAddr().(*net.UDPAddr), []snet.PathInterface{{ID: 1, IA: lIA}, {ID: 2, IA: r}})
		if err != nil {
			t.Fatalf("harness: %v", err)
		}
		local := udp.UDPAddr{IA: lIA, Host: netlab.UDPAddr(netlab.Addr(1), 0)}
		remote := udp.UDPAddr{IA: r, Host: netlab.UDPAddr(netlab.Addr(0), 10123)}
		srv.Forget()
		srv.ClearPlans()
		srv.Take()
		call := func(deadline time.Duration) (time.Duration, error, window) {
			ctx, cancel := context.WithTimeout(context.Background(), deadline)
			defer cancel()
			var w window
			w.a = netlab.Now()
			_, off, err := client.MeasureClockOffsetSCION(ctx, c.Log, []*client.SCIONClient{c}, local, remote, []snet.Path{sp})
			w.b = netlab.Now()
			time.Sleep(6 * time.Millisecond) // the front's grace period for further datagrams
			srv.WaitIdle()
			return off, err, w
		}
		var prevWin window
		nWarm := rapid.IntRange(0, 2).Draw(t, "warmup")
		for i := 0; i < nWarm; i++ {
			front.set(nil)
			srv.SetDefault(netlab.Plan{Theta: nextTheta()})
			_, err, w := call(500 * time.Millisecond)
			for retry := 0; err != nil && retry < 2; retry++ {
				srv.Take()
				_, err, w = call(time.Second)
			}
			if err != nil {
				t.Fatalf("genuine replies of a conformant server are not accepted over SCION (3 attempts): %v", err)
			}
			prevWin = w
			srv.Take()
		}
		if nWarm > 0 && rapid.IntRange(0, 3).Draw(t, "reset-after-warmup") == 1 {
			c.ResetInterleavedMode()
		}
		nd := rapid.IntRange(1, 3).Draw(t, "ndatagrams")
		type drawn struct {
			mut   mutation
			theta time.Duration
		}
		var plan []drawn
		var wraps []wrapSpec
		for i := 0; i < nd; i++ {
			plan = append(plan, drawn{mut: rapid.SampledFrom(headerMutations).Draw(t, "mutation"), theta: nextTheta()})
			wraps = append(wraps, wrapSpec{
				Kind: rapid.SampledFrom([]string{"genuine", "genuine", "genuine", "hbh", "traffic-class", "flow-id", "unknown-e2e-option", "src-ia", "src-host", "dst-ia", "dst-host", "swapped", "scmp", "src-ia", "src-host", "src-type", "dst-type"}).Draw(t, "wrap"),
				Arg:  rapid.Uint64Range(0, 1<<20).Draw(t, "wraparg"),
			})
		}
		loneGenuine := nd == 1 && plan[0].mut.name == "none" && wraps[0].Kind == "genuine"
		type candS struct {
			data []byte
			desc string
		}
		var cands []candS
		var q ntp.Packet
		var exch *netlab.Exchange
		p := netlab.Plan{Theta: plan[0].theta}
		p.Outs = func(ex *netlab.Exchange) []netlab.Out {
			exch, q = ex, ex.Req
			var outs []netlab.Out
			for _, d := range plan {
				var hdr []byte
				if d.mut.fq != nil {
					hdr = d.mut.fq(t, ex.Variant(d.theta), &ex.Req)
				} else {
					hdr = d.mut.f(t, ex.Variant(d.theta))
				}
				cands = append(cands, candS{data: hdr, desc: d.mut.name})
				outs = append(outs, netlab.Out{Data: hdr})
			}
			return outs
		}
		front.set(wraps)
		srv.Push(p)
		srv.SetDefault(netlab.Plan{DropRequest: true})
		off, err, win := call(80 * time.Millisecond)
		srv.Take()
		if exch == nil {
			// the request did not reach the model within the scripted deadline (a stall of this harness under load):
			// nothing to judge in this case; the count is checked at the end of the test
			noRequest++
			recSC.Label("no-request-seen-within-deadline")
			return
		}
		judged++
		front.mu.Lock()
		sent := append([]string(nil), front.sent...)
		front.mu.Unlock()
		var descs []string
		nAcceptable, nBad, matched, unjudged := 0, 0, -1, 0
		for i, cd := range cands {
			if i >= len(sent) {
				descs = append(descs, cd.desc+"@not-relayed")
				continue
			}
			descs = append(descs, cd.desc+"@"+sent[i])
			if len(cd.data) == 0 {
				continue // an empty UDP payload cannot be relayed through the front's socket pair reliably
			}
			acc := wrapOK(sent[i]) && acceptableHeader(cd.data, &q)
			var rx, tx time.Time
			w := win
			if acc {
				rx = ntp.TimeFromTime64(ntp.Time64{Seconds: binary.BigEndian.Uint32(cd.data[32:]), Fraction: binary.BigEndian.Uint32(cd.data[36:])}, win.a)
				tx = ntp.TimeFromTime64(ntp.Time64{Seconds: binary.BigEndian.Uint32(cd.data[40:]), Fraction: binary.BigEndian.Uint32(cd.data[44:])}, win.a)
				org := ntp.Time64{Seconds: binary.BigEndian.Uint32(cd.data[24:]), Fraction: binary.BigEndian.Uint32(cd.data[28:])}
				if q.OriginTime != (ntp.Time64{}) && org == q.ReceiveTime && org != q.TransmitTime {
					rx = ntp.TimeFromTime64(q.OriginTime, win.a)
					w = prevWin
				}
				// "a transmit time not before its receive time", on the 64-bit timestamps themselves (modulo 2^64, i.e.
				// within half an era of each other): resolving the two against a reference one by one can put them into
				// different eras
				rx64 := binary.BigEndian.Uint64(cd.data[32:])
				if q.OriginTime != (ntp.Time64{}) && org == q.ReceiveTime && org != q.TransmitTime {
					rx64 = uint64(q.OriginTime.Seconds)<<32 | uint64(q.OriginTime.Fraction)
				}
				d64 := int64(binary.BigEndian.Uint64(cd.data[40:]) - rx64)
				if d64 > 1<<62 || d64 < -(1<<62) {
					unjudged++ // about half an era apart: which one is earlier is not defined
					acc = false
				} else if tx.Before(rx) || d64 < 0 {
					acc = false
				}
			}
			if !acc {
				nBad++
				continue
			}
			nAcceptable++
			if err == nil {
				mid := rx.Add(tx.Sub(rx) / 2)
				lo, hi := mid.Sub(w.b)-4, mid.Sub(w.a)+4
				if off >= lo && off <= hi {
					matched = i
				} else {
					descs = append(descs, fmt.Sprintf("[envelope of #%d: %v..%v]", i, lo, hi))
				}
			}
		}
		if err == nil && matched < 0 && unjudged > 0 {
			recSC.Label("unjudged-antipodal-timestamps")
			return
		}
		if err == nil && matched < 0 {
			t.Fatalf("the SCION client reported offset %v, which is not the offset of any acceptable datagram it was sent (interleaved=%v path=%s request origin=%v; datagrams %v)", off, c.InterleavedMode, ps.Kind, q.OriginTime, descs)
		}
		if err != nil && loneGenuine {
			// rule out a stall of the harness or the scheduler under the short deadline: the same exchange with a generous one
			ok := false
			for retry := 0; retry < 2 && !ok; retry++ {
				c.ResetInterleavedMode()
				front.set(nil)
				srv.ClearPlans()
				srv.SetDefault(netlab.Plan{Theta: nextTheta()})
				_, e2, _ := call(time.Second)
				srv.Take()
				ok = e2 == nil
			}
			if !ok {
				t.Fatalf("a lone genuine reply was not accepted over SCION: %v", err)
			}
			recSC.Label("lone-genuine-timeout-not-reproduced")
		}
		ls := []string{"rejected"}
		if err == nil {
			ls[0] = "accepted"
		}
		for _, s := range sent {
			if !wrapOK(s) {
				ls = append(ls, "wrap:"+s)
			}
		}
		rec := recSC
		rec.Eval(nBad > 0, ev.Hash(c.InterleavedMode, ps.Kind, fmt.Sprint(descs), nWarm), func() any {
			return map[string]any{"interleaved_mode": c.InterleavedMode, "path": ps.Kind, "warmup": nWarm, "datagrams": descs, "wrappers": wraps, "first_payload": hex.EncodeToString(cands[0].data[:min(len(cands[0].data), 64)]), "accepted": err == nil}
		}, ls...)
		_ = nAcceptable
	})
}
