package c05

import (
	"bytes"
	"context"
	"crypto/tls"
	"encoding/binary"
	"encoding/hex"
	"fmt"
	"io"
	"log/slog"
	"net"
	"os"
	"strconv"
	"sync"
	"testing"
	"time"

	"github.com/miscreant/miscreant.go"
	"pgregory.net/rapid"

	"example.com/scion-time/core/client"
	"example.com/scion-time/core/timebase"
	"example.com/scion-time/driver/clocks"
	"example.com/scion-time/net/ntp"
	"example.com/scion-time/net/nts"
	"example.com/scion-time/net/ntske"

	"verif/internal/ev"
	"verif/internal/netlab"
	"verif/internal/vt"
)

var (
	srv      *netlab.Server
	srvAddr  *net.UDPAddr
	laddr    *net.UDPAddr
	viaOther *net.UDPConn // another address
	viaPort  *net.UDPConn // the server's address, another port
	ke       *netlab.KEServer
	sesMu    sync.Mutex
	ses      session
	thetaSeq int64
)

type session struct{ c2s, s2c []byte }

func TestMain(m *testing.M) {
	timebase.RegisterClock(clocks.NewSystemClock(slog.New(slog.NewTextHandler(io.Discard, nil)), clocks.UnknownDrift))
	srvAddr = netlab.UDPAddr(netlab.Addr(0), 12501)
	laddr = netlab.UDPAddr(netlab.Addr(1), 0)
	var err error
	if srv, err = netlab.NewServer(srvAddr); err == nil {
		if viaOther, err = net.ListenUDP("udp", netlab.UDPAddr(netlab.Addr(2), 12501)); err == nil {
			if viaPort, err = net.ListenUDP("udp", netlab.UDPAddr(netlab.Addr(0), 12502)); err == nil {
				ke, err = netlab.NewKEServer(&net.TCPAddr{IP: netlab.Addr(0).AsSlice(), Port: 0})
			}
		}
	}
	if err != nil {
		fmt.Println("VERIF-INCONCLUSIVE: cannot set up sockets:", err)
		os.Exit(0)
	}
	ke.Set([]string{"ntske/1"}, func(c *netlab.KEConn) {
		c.ReadRequest()
		c2s, s2c, err := c.Keys()
		if err != nil {
			return
		}
		sesMu.Lock()
		ses = session{c2s, s2c}
		sesMu.Unlock()
		recs := []netlab.Rec{
			{Type: netlab.RecNextProto, Critical: true, Body: netlab.U16(0)},
			{Type: netlab.RecAEAD, Critical: true, Body: netlab.U16(15)},
			{Type: netlab.RecServer, Body: []byte(srvAddr.IP.String())},
			{Type: netlab.RecPort, Body: netlab.U16(uint16(srvAddr.Port))},
		}
		for i := 0; i < 8; i++ {
			ck := make([]byte, 124)
			binary.BigEndian.PutUint64(ck, uint64(time.Now().UnixNano())+uint64(i))
			recs = append(recs, netlab.Rec{Type: netlab.RecCookie, Body: ck})
		}
		recs = append(recs, netlab.Rec{Type: netlab.RecEnd, Critical: true})
		c.WriteSegments(netlab.EncodeRecs(recs), nil)
	})
	vt.Main(m)
}

func nextTheta() time.Duration {
	thetaSeq++
	th := time.Duration(thetaSeq) * 2 * time.Second
	if thetaSeq%3 == 1 {
		return -th
	}
	return th
}

// ---------------------------------------------------------------- NTS helpers (independent walker + AEAD)

type field struct {
	typ  uint16
	body []byte
	off  int
}

func walk(b []byte) ([]field, bool) {
	var fs []field
	pos := 48
	for pos+4 <= len(b) {
		typ, l := binary.BigEndian.Uint16(b[pos:]), int(binary.BigEndian.Uint16(b[pos+2:]))
		if typ == 0x404 && l >= 4 {
			l = len(b) - pos // the authenticator's own extension length is neither authenticated nor needed to locate its parts
		}
		if l < 4 || pos+l > len(b) {
			return fs, false
		}
		fs = append(fs, field{typ, b[pos+4 : pos+l], pos})
		if typ == 0x404 {
			return fs, true
		}
		pos += l
	}
	return fs, true
}

func uidOf(b []byte) []byte {
	fs, _ := walk(b)
	for _, f := range fs {
		if f.typ == 0x104 {
			return f.body
		}
	}
	return nil
}

// ntsAuthentic: the datagram carries the given unique id and an authenticator valid under key over all preceding bytes.
func ntsAuthentic(b []byte, uid, key []byte) bool {
	fs, ok := walk(b)
	if !ok {
		return false
	}
	var gotUID []byte
	for _, f := range fs {
		switch f.typ {
		case 0x104:
			if gotUID == nil {
				gotUID = f.body
			}
		case 0x404:
			if len(f.body) < 4 {
				return false
			}
			nl, cl := int(binary.BigEndian.Uint16(f.body)), int(binary.BigEndian.Uint16(f.body[2:]))
			if nl != 16 || 4+nl+cl > len(f.body) {
				return false
			}
			a, err := miscreant.NewAEAD("AES-CMAC-SIV", key, 16)
			if err != nil {
				return false
			}
			_, err = a.Open(nil, f.body[4:4+nl], f.body[4+nl:4+nl+cl], b[:f.off])
			return err == nil && bytes.Equal(gotUID, uid)
		}
	}
	return false
}

func seal(hdr []byte, uid, key []byte, ncookies int, tag byte) []byte {
	var cookies [][]byte
	for i := 0; i < ncookies; i++ {
		ck := bytes.Repeat([]byte{tag, byte(i)}, 62)
		cookies = append(cookies, ck)
	}
	pkt := nts.NewResponsePacket(cookies, key, uid)
	b := bytes.Clone(hdr[:48])
	nts.EncodePacket(&b, &pkt)
	return b
}

// ---------------------------------------------------------------- datagram scripts

type cand struct {
	data  []byte
	via   string // "server" | "other-address" | "other-port"
	desc  string
}

type mutation struct {
	name string
	f    func(t *rapid.T, b []byte) []byte
	// fq, if set, is used instead of f and also sees the request the datagram answers
	fq func(t *rapid.T, b []byte, q *ntp.Packet) []byte
}

func putT64(b []byte, v ntp.Time64) {
	binary.BigEndian.PutUint32(b, v.Seconds)
	binary.BigEndian.PutUint32(b[4:], v.Fraction)
}

func setLVM(li, vn, mode int) func(*rapid.T, []byte) []byte {
	return func(_ *rapid.T, b []byte) []byte { b[0] = byte(li<<6 | vn<<3 | mode); return b }
}

var headerMutations = []mutation{
	{"none", func(_ *rapid.T, b []byte) []byte { return b }, nil},
	{"origin-bit", func(t *rapid.T, b []byte) []byte {
		bit := rapid.IntRange(0, 63).Draw(t, "bit")
		b[24+bit/8] ^= 1 << (bit % 8)
		return b
	}, nil},
	{"origin-zero", func(_ *rapid.T, b []byte) []byte { clear(b[24:32]); return b }, nil},
	{"mode", func(t *rapid.T, b []byte) []byte {
		b[0] = b[0]&^7 | byte(rapid.SampledFrom([]int{0, 1, 2, 3, 5, 6, 7}).Draw(t, "mode"))
		return b
	}, nil},
	{"version", func(t *rapid.T, b []byte) []byte {
		b[0] = b[0]&^0x38 | byte(rapid.SampledFrom([]int{0, 1, 2, 5, 6, 7}).Draw(t, "vn"))<<3
		return b
	}, nil},
	{"version-3", func(_ *rapid.T, b []byte) []byte { b[0] = b[0]&^0x38 | 3<<3; return b }, nil},
	{"leap-3", func(_ *rapid.T, b []byte) []byte { b[0] |= 0xc0; return b }, nil},
	{"leap-1-2", func(t *rapid.T, b []byte) []byte {
		b[0] = b[0]&^0xc0 | byte(rapid.IntRange(1, 2).Draw(t, "li"))<<6
		return b
	}, nil},
	{"stratum-bad", func(t *rapid.T, b []byte) []byte {
		b[1] = byte(rapid.SampledFrom([]int{0, 16, 17, 128, 255}).Draw(t, "stratum"))
		return b
	}, nil},
	// several header fields at once (a check that is right for each field with the others at their usual
	// values may couple them): each of leap, version, mode, stratum keeps an admissible value in 2 of 3 draws
	{"header-fields-jointly", func(t *rapid.T, b []byte) []byte {
		pick := func(label string, ok []int, n int) int {
			if rapid.IntRange(0, 2).Draw(t, label+"-any") == 0 {
				return rapid.IntRange(0, n-1).Draw(t, label)
			}
			return rapid.SampledFrom(ok).Draw(t, label)
		}
		li, vn, mode := pick("li", []int{0, 1, 2}, 4), pick("vn", []int{3, 4}, 8), pick("mode", []int{4}, 8)
		b[0] = byte(li<<6 | vn<<3 | mode)
		if rapid.IntRange(0, 2).Draw(t, "stratum-any") == 0 {
			b[1] = byte(rapid.SampledFrom([]int{0, 16, 17, 31, 128, 255}).Draw(t, "stratum"))
		} else {
			b[1] = byte(rapid.IntRange(1, 15).Draw(t, "stratum"))
		}
		return b
	}, nil},
	{"stratum-ok", func(t *rapid.T, b []byte) []byte { b[1] = byte(rapid.IntRange(2, 15).Draw(t, "stratum")); return b }, nil},
	{"tx-before-rx", func(t *rapid.T, b []byte) []byte {
		// transmit = receive - delta
		rx := binary.BigEndian.Uint64(b[32:])
		d := rapid.SampledFrom([]uint64{5, 9, 1 << 32, 1 << 40, 1 << 56}).Draw(t, "delta") // >= 5 units of 2^-32 s: more than the nanosecond rounding the statement allows
		binary.BigEndian.PutUint64(b[40:], rx-d)
		return b
	}, nil},
	// receive timestamp half an era after the request (where era resolution flips), transmit a second before it
	{"tx-before-rx-at-era-pivot", nil, func(t *rapid.T, b []byte, q *ntp.Packet) []byte {
		rx := (uint64(q.TransmitTime.Seconds)<<32 | uint64(q.TransmitTime.Fraction)) + 1<<63 + uint64(rapid.Int64Range(-2<<32, 2<<32).Draw(t, "pivot-delta"))
		binary.BigEndian.PutUint64(b[32:], rx)
		binary.BigEndian.PutUint64(b[40:], rx-uint64(rapid.SampledFrom([]int64{5, 1 << 31, 1 << 32, 5 << 32}).Draw(t, "tx-behind")))
		return b
	}},
	{"truncate", func(t *rapid.T, b []byte) []byte { return b[:rapid.IntRange(0, 47).Draw(t, "len")] }, nil},
	{"harmless-fields", func(t *rapid.T, b []byte) []byte {
		b[2], b[3] = rapid.Byte().Draw(t, "poll"), rapid.Byte().Draw(t, "prec")
		copy(b[4:16], rapid.SliceOfN(rapid.Byte(), 12, 12).Draw(t, "rootref"))
		copy(b[16:24], rapid.SliceOfN(rapid.Byte(), 8, 8).Draw(t, "reftime"))
		return b
	}, nil},
	{"random-bytes", func(t *rapid.T, b []byte) []byte {
		return rapid.SliceOfN(rapid.Byte(), 0, 200).Draw(t, "junk")
	}, nil},
	// forged "interleaved" replies: origin = the request's receive field (zero for a basic request), with
	// transmit / receive timestamps chosen by the forger (early era-1 values, the request's own fields, current time)
	{"forged-interleaved", nil, func(t *rapid.T, b []byte, q *ntp.Packet) []byte {
		putT64(b[24:], q.ReceiveTime)
		switch rapid.IntRange(0, 3).Draw(t, "forge-tx") {
		case 0: // just after the start of an NTP era
			putT64(b[40:], ntp.Time64{Seconds: uint32(rapid.IntRange(1, 100000).Draw(t, "era-sec"))})
			putT64(b[32:], ntp.Time64{Seconds: uint32(rapid.IntRange(0, 100).Draw(t, "era-rx"))})
		case 1: // later than anything the client can have stored
			tx := binary.BigEndian.Uint64(b[40:]) + uint64(rapid.IntRange(1, 5000).Draw(t, "ahead"))<<32
			binary.BigEndian.PutUint64(b[40:], tx)
		case 2:
			putT64(b[32:], ntp.Time64{})
		}
		return b
	}},
	{"origin=request-origin-field", nil, func(t *rapid.T, b []byte, q *ntp.Packet) []byte {
		putT64(b[24:], q.OriginTime)
		return b
	}},
}

// acceptableHeader evaluates the statement's predicate on the 48-byte header of d for request q.
func acceptableHeader(d []byte, q *ntp.Packet) bool {
	if len(d) < 48 {
		return false
	}
	li, vn, mode := d[0]>>6, d[0]>>3&7, d[0]&7
	if li == 3 || (vn != 3 && vn != 4) || mode != 4 || d[1] == 0 || d[1] > 15 {
		return false
	}
	org := ntp.Time64{Seconds: binary.BigEndian.Uint32(d[24:]), Fraction: binary.BigEndian.Uint32(d[28:])}
	interleavedReq := q.OriginTime != (ntp.Time64{})
	if !(org == q.TransmitTime || (interleavedReq && org == q.ReceiveTime)) {
		return false
	}
	return true
}

var recHdr = ev.New("c05/header-fields", "exhaustive: every first header byte (leap x version x mode, 256) x every stratum byte (256) in an otherwise genuine 48-byte response, decoded with ntp.DecodePacket and judged by ntp.ValidateResponseMetadata (the function both clients call). Oracle: accepted <=> server mode, version 3 or 4, leap indicator known, stratum 1..15 (the statement's predicate, evaluated on the bytes). One evaluation = one (first byte, stratum) pair. Non-trivial: the pair differs from a genuine response's in >= 2 of the four fields")

// TestExhaustiveHeaderFields: the four header fields of the statement's predicate in every combination.
func TestExhaustiveHeaderFields(t *testing.T) {
	if vt.Shard() != 0 {
		return // the enumeration is complete in one process
	}
	recHdr.Exhaustive = true
	recHdr.Sample(map[string]any{"first_byte": 0x1c, "stratum": 16, "accepted": false})
	recHdr.Sample(map[string]any{"first_byte": 0x5c, "stratum": 15, "accepted": true})
	var n, nt int64
	for b0 := 0; b0 < 256; b0++ {
		for st := 0; st < 256; st++ {
			d := make([]byte, 48)
			d[0], d[1] = byte(b0), byte(st)
			binary.BigEndian.PutUint64(d[32:], 0xe0000000_00000000)
			binary.BigEndian.PutUint64(d[40:], 0xe0000000_00000100)
			var p ntp.Packet
			if err := ntp.DecodePacket(&p, d); err != nil {
				vt.Violation(t, map[string]any{"kind": "header-fields", "first_byte": b0, "stratum": st}, "48-byte datagram not decoded: %v", err)
				return
			}
			li, vn, mode := b0>>6, b0>>3&7, b0&7
			want := li != 3 && (vn == 3 || vn == 4) && mode == 4 && st >= 1 && st <= 15
			got := ntp.ValidateResponseMetadata(&p) == nil
			if got != want {
				vt.Violation(t, map[string]any{"kind": "header-fields", "first_byte": b0, "stratum": st},
					"response with leap %d, version %d, mode %d, stratum %d: accepted = %v, the statement says %v", li, vn, mode, st, got, want)
				return
			}
			n++
			dev := 0
			for _, x := range []bool{li == 3, vn != 4, mode != 4, st != 1} {
				if x {
					dev++
				}
			}
			if dev >= 2 {
				nt++
			}
		}
	}
	recHdr.Count(n)
	recHdr.AddDistinct(0, nt)
}

func init() {
	// the joint draw stands for 4 fields: it is chosen four times as often as a single-field mutation
	for _, m := range headerMutations {
		if m.name == "header-fields-jointly" {
			headerMutations = append(headerMutations, m, m, m)
			break
		}
	}
}

type window struct{ a, b time.Time }

// cases in which the client's request never reached the model within the scripted deadline, and cases judged
var noRequest, judged int

func checkStalls(t *testing.T) {
	if noRequest > 5 && noRequest*4 > judged {
		t.Fatalf("VERIF-INCONCLUSIVE: in %d of %d cases the client's request did not reach the server model within the deadline", noRequest, noRequest+judged)
	}
}

var rec = ev.New("c05/acceptance", "rapid: a real IPClient (plain or NTS after a real key exchange with the harness's TLS key-exchange server; interleaved mode on/off, 0..2 clean warm-up exchanges) sends its request to the harness's server model, which answers with a script of 1..3 datagrams, each built for its own server clock offset (>= 2 s apart) and mutated: genuine; arbitrary bytes; single-field mutations (origin bit / zero, mode, version, leap, stratum, transmit before receive, truncation, harmless fields) and leap, version, mode and stratum drawn jointly; NTS: flipped bit anywhere in the extension fields, other request's identifier, an identifier that only starts with the request's or is a zero-padded prefix of it (correctly sealed), authenticator sealed under the C2S key or a random key, authenticator removed, keyless authenticator with a ciphertext shorter than the tag, extension-length edits; sent from the queried address, another address, or another port of the queried address. Oracle: success => the reported offset lies in the envelope computed from the timestamps carried by exactly one delivered datagram that is acceptable by the statement's predicate (evaluated independently, NTS with own walker + miscreant); no acceptable datagram delivered => error; a lone genuine reply => success. One evaluation = one scripted exchange. Non-trivial: >= 1 non-acceptable datagram was delivered; distinct by (mode, script description)")

func TestPropAcceptance(t *testing.T) {
	noRequest, judged = 0, 0
	defer checkStalls(t)
	vt.Check(t, 500, 5000, func(t *rapid.T) {
		useNTS := rapid.IntRange(0, 2).Draw(t, "nts") == 1
		capt := &netlab.Capture{}
		c := &client.IPClient{Log: capt.Logger(), InterleavedMode: rapid.Bool().Draw(t, "interleaved")}
		if useNTS {
			c.Auth.Enabled = true
			c.Auth.NTSKEFetcher = ntske.Fetcher{Log: c.Log, Port: strconv.Itoa(ke.Addr.Port),
				TLSConfig: tls.Config{NextProtos: []string{"ntske/1"}, InsecureSkipVerify: true, ServerName: ke.Addr.IP.String(), MinVersion: tls.VersionTLS13}}
		}
		srv.Forget()
		srv.ClearPlans()
		srv.Take()
		ntsBuild := func(tag byte) func(ex *netlab.Exchange, hdr []byte) []byte {
			return func(ex *netlab.Exchange, hdr []byte) []byte {
				if len(ex.Raw) <= 48 {
					return hdr
				}
				sesMu.Lock()
				k := ses.s2c
				sesMu.Unlock()
				return seal(hdr, uidOf(ex.Raw), k, 1, tag)
			}
		}
		call := func(deadline time.Duration) (time.Time, time.Duration, error, window) {
			ctx, cancel := context.WithTimeout(context.Background(), deadline)
			defer cancel()
			var w window
			w.a = netlab.Now()
			ts, off, err := client.MeasureClockOffsetIP(ctx, c.Log, c, laddr, &net.UDPAddr{IP: append(net.IP(nil), srvAddr.IP...), Port: srvAddr.Port})
			w.b = netlab.Now()
			srv.WaitIdle()
			ke.Wait()
			return ts, off, err, w
		}
		// warm-up: clean exchanges (may bring the client into interleaved mode)
		var prevWin window
		nWarm := rapid.IntRange(0, 2).Draw(t, "warmup")
		if useNTS && nWarm == 0 {
			nWarm = 1 // the TLS key exchange must not eat the scripted call's short deadline
		}
		var otherUID []byte
		for i := 0; i < nWarm; i++ {
			srv.SetDefault(netlab.Plan{Theta: nextTheta(), Build: ntsBuild(0xaa)})
			_, _, err, w := call(500 * time.Millisecond)
			for retry := 0; err != nil && retry < 2; retry++ { // rule out a scheduler stall
				srv.Take()
				_, _, err, w = call(time.Second)
			}
			if err != nil {
				t.Fatalf("genuine replies of a conformant server are not accepted (3 attempts, nts=%v): %v", useNTS, err)
			}
			prevWin = w
			for _, ex := range srv.Take() {
				if u := uidOf(ex.Raw); u != nil {
					otherUID = u
				}
			}
		}
		if nWarm > 0 && rapid.IntRange(0, 3).Draw(t, "reset-after-warmup") == 1 {
			c.ResetInterleavedMode() // the next request is a basic one although timestamps of the previous exchange are stored
		}
		// the scripted exchange
		nd := rapid.IntRange(1, 3).Draw(t, "ndatagrams")
		type drawn struct {
			mut   mutation
			via   string
			nts   string
			theta time.Duration
			rt    *rapid.T
		}
		var plan []drawn
		loneGenuine := false
		for i := 0; i < nd; i++ {
			d := drawn{theta: nextTheta()}
			d.mut = rapid.SampledFrom(headerMutations).Draw(t, "mutation")
			d.via = rapid.SampledFrom([]string{"server", "server", "server", "server", "other-address", "other-port"}).Draw(t, "via")
			if useNTS {
				d.nts = rapid.SampledFrom([]string{"genuine", "genuine", "bitflip", "other-uid", "longer-uid", "shorter-uid", "sealed-c2s", "sealed-random", "no-auth", "len-edit", "plain", "short-ciphertext"}).Draw(t, "nts-mutation")
			}
			plan = append(plan, d)
		}
		if nd == 1 && plan[0].mut.name == "none" && plan[0].via == "server" && (!useNTS || plan[0].nts == "genuine") {
			loneGenuine = true
		}
		var cands []cand
		var q ntp.Packet
		var reqRaw []byte
		var exch *netlab.Exchange
		p := netlab.Plan{Theta: plan[0].theta}
		p.Outs = func(ex *netlab.Exchange) []netlab.Out {
			exch = ex
			q, reqRaw = ex.Req, ex.Raw
			sesMu.Lock()
			k := ses
			sesMu.Unlock()
			var outs []netlab.Out
			for i, d := range plan {
				var hdr []byte
				if d.mut.fq != nil {
					hdr = d.mut.fq(t, ex.Variant(d.theta), &ex.Req)
				} else {
					hdr = d.mut.f(t, ex.Variant(d.theta))
				}
				data := hdr
				desc := d.mut.name
				if useNTS && len(hdr) >= 48 && d.mut.name != "random-bytes" {
					uid := uidOf(ex.Raw)
					switch d.nts {
					case "genuine":
						data = seal(hdr, uid, k.s2c, 1, byte(i))
					case "bitflip":
						data = seal(hdr, uid, k.s2c, 1, byte(i))
						bit := rapid.IntRange(48*8, len(data)*8-1).Draw(t, "ntsbit")
						data[bit/8] ^= 1 << (bit % 8)
					case "other-uid":
						u := otherUID
						if u == nil || bytes.Equal(u, uid) {
							u = bytes.Repeat([]byte{9}, 32)
						}
						data = seal(hdr, u, k.s2c, 1, byte(i))
					case "longer-uid", "shorter-uid":
						// correctly sealed under S2C, but for an identifier that only starts with the request's (4, 8 or 32
						// more bytes), or is a prefix of it padded with zeros to the same field length
						u := append(bytes.Clone(uid), bytes.Repeat([]byte{byte(0x30 + i)}, []int{4, 8, 32}[i%3])...)
						if d.nts == "shorter-uid" && len(uid) >= 8 {
							u = append(bytes.Clone(uid[:len(uid)-4]), 0, 0, 0, 0)
							if bytes.Equal(u, uid) {
								u[len(u)-1] = 1
							}
						}
						data = seal(hdr, u, k.s2c, 1, byte(i))
					case "sealed-c2s":
						data = seal(hdr, uid, k.c2s, 1, byte(i))
					case "sealed-random":
						data = seal(hdr, uid, bytes.Repeat([]byte{byte(i + 1)}, 32), 1, byte(i))
					case "no-auth":
						g := seal(hdr, uid, k.s2c, 1, byte(i))
						fs, _ := walk(g)
						data = g[:fs[len(fs)-1].off]
					case "len-edit":
						data = seal(hdr, uid, k.s2c, 1, byte(i))
						fs, _ := walk(data)
						f := fs[rapid.IntRange(0, len(fs)-2).Draw(t, "lenfield")]
						l := binary.BigEndian.Uint16(data[f.off+2:])
						binary.BigEndian.PutUint16(data[f.off+2:], uint16(int(l)+rapid.SampledFrom([]int{-4, 4, -l2i(l), 8}).Draw(t, "lendelta")))
					case "plain":
						data = hdr
					case "short-ciphertext":
						// needs no key: the request's identifier in the clear, and an authenticator whose ciphertext is
						// shorter than an AES-SIV tag (0..15 bytes), padded to the minimum field size
						n := rapid.IntRange(0, 15).Draw(t, "ctlen")
						data = bytes.Clone(hdr[:48])
						uf := make([]byte, 4+len(uid))
						binary.BigEndian.PutUint16(uf, 0x104)
						binary.BigEndian.PutUint16(uf[2:], uint16(len(uf)))
						copy(uf[4:], uid)
						data = append(data, uf...)
						bl := max(24, (4+16+n+3)&^3)
						af := make([]byte, 4+bl)
						binary.BigEndian.PutUint16(af, 0x404)
						binary.BigEndian.PutUint16(af[2:], uint16(len(af)))
						binary.BigEndian.PutUint16(af[4:], 16)
						binary.BigEndian.PutUint16(af[6:], uint16(n))
						for j := 0; j < 16+n; j++ {
							af[8+j] = byte(0x30 + j)
						}
						data = append(data, af...)
					}
					desc += "+nts:" + d.nts
				}
				var via *net.UDPConn
				switch d.via {
				case "other-address":
					via = viaOther
				case "other-port":
					via = viaPort
				}
				cands = append(cands, cand{data: data, via: d.via, desc: desc + "@" + d.via})
				outs = append(outs, netlab.Out{Data: data, Via: via})
			}
			return outs
		}
		srv.Push(p)
		srv.SetDefault(netlab.Plan{DropRequest: true}) // further sub-requests of the same call get no answer
		_, off, err, win := call(70 * time.Millisecond)
		srv.Take()
		if exch == nil {
			// the request did not reach the model within the scripted deadline (a stall of this harness under load):
			// nothing to judge in this case; the count is checked at the end of the test
			noRequest++
			rec.Label("no-request-seen-within-deadline")
			return
		}
		judged++
		// evaluate the statement's predicate on every datagram sent
		sesMu.Lock()
		k := ses
		sesMu.Unlock()
		uid := uidOf(reqRaw)
		var descs []string
		nAcceptable, nUnjudged, nBad := 0, 0, 0
		matched := -1
		for i, cd := range cands {
			descs = append(descs, cd.desc)
			antipodal := false
			acc := cd.via != "other-address" && acceptableHeader(cd.data, &q)
			if acc && useNTS {
				acc = ntsAuthentic(cd.data, uid, k.s2c)
			}
			if acc {
				rx := ntp.TimeFromTime64(ntp.Time64{Seconds: binary.BigEndian.Uint32(cd.data[32:]), Fraction: binary.BigEndian.Uint32(cd.data[36:])}, win.a)
				tx := ntp.TimeFromTime64(ntp.Time64{Seconds: binary.BigEndian.Uint32(cd.data[40:]), Fraction: binary.BigEndian.Uint32(cd.data[44:])}, win.a)
				org := ntp.Time64{Seconds: binary.BigEndian.Uint32(cd.data[24:]), Fraction: binary.BigEndian.Uint32(cd.data[28:])}
				if q.OriginTime != (ntp.Time64{}) && org == q.ReceiveTime && org != q.TransmitTime {
					// interleaved reply: its transmit time belongs to the previous exchange, whose receive time the request cited
					rx = ntp.TimeFromTime64(q.OriginTime, win.a)
				}
				// "a transmit time not before its receive time", on the 64-bit timestamps themselves (modulo 2^64, i.e.
				// within half an era of each other): resolving the two against a reference one by one can put them into
				// different eras
				rx64 := binary.BigEndian.Uint64(cd.data[32:])
				if q.OriginTime != (ntp.Time64{}) && org == q.ReceiveTime && org != q.TransmitTime {
					rx64 = uint64(q.OriginTime.Seconds)<<32 | uint64(q.OriginTime.Fraction)
				}
				d64 := int64(binary.BigEndian.Uint64(cd.data[40:]) - rx64)
				if d64 > 1<<62 || d64 < -(1<<62) {
					// transmit and receive time about half an era (34..68 years) apart: which one is earlier is not defined
					nUnjudged++
					acc = false
					antipodal = true
				} else if tx.Before(rx) || d64 < 0 {
					acc = false
				}
			}
			if cd.via == "other-port" && acc {
				nUnjudged++ // same address, another port: the statement says "from the queried server"; not judged either way
				acc = false
				if err == nil {
					// cannot tell: accept the verdict if the offset matches this datagram
				}
			}
			if !acc {
				if cd.via != "other-port" && !antipodal {
					nBad++
				}
				continue
			}
			nAcceptable++
			if err == nil {
				// envelope from the timestamps the datagram carries
				rx := ntp.TimeFromTime64(ntp.Time64{Seconds: binary.BigEndian.Uint32(cd.data[32:]), Fraction: binary.BigEndian.Uint32(cd.data[36:])}, win.a)
				tx := ntp.TimeFromTime64(ntp.Time64{Seconds: binary.BigEndian.Uint32(cd.data[40:]), Fraction: binary.BigEndian.Uint32(cd.data[44:])}, win.a)
				w := win
				org := ntp.Time64{Seconds: binary.BigEndian.Uint32(cd.data[24:]), Fraction: binary.BigEndian.Uint32(cd.data[28:])}
				if q.OriginTime != (ntp.Time64{}) && org == q.ReceiveTime && org != q.TransmitTime {
					rx = ntp.TimeFromTime64(q.OriginTime, win.a) // interleaved: the previous exchange's server receive time
					w = prevWin
				}
				mid := rx.Add(tx.Sub(rx) / 2)
				lo, hi := mid.Sub(w.b)-4, mid.Sub(w.a)+4
				if off >= lo && off <= hi {
					matched = i
				} else {
					descs = append(descs, fmt.Sprintf("[envelope of #%d: %v..%v]", i, lo, hi))
				}
			}
		}
		if err == nil {
			if matched < 0 {
				if nUnjudged > 0 {
					rec.Eval(false, 0, nil, "unjudged-other-port")
					return
				}
				var evald []string
				for _, r := range capt.Take() {
					if r.Msg == "evaluated response" || r.Msg == "received response" {
						evald = append(evald, fmt.Sprintf("%s %v", r.Msg, r.Attrs))
					}
				}
				t.Fatalf("the client reported offset %v, which is not the offset of any acceptable datagram it was sent (nts=%v interleaved=%v request origin=%v; datagrams %v; client log %v)", off, useNTS, c.InterleavedMode, q.OriginTime, descs, evald)
			}
		} else if loneGenuine {
			// rule out a stall of the harness or the scheduler under the short deadline: the same exchange with a generous one
			ok := false
			for retry := 0; retry < 2 && !ok; retry++ {
				c.ResetInterleavedMode()
				srv.ClearPlans()
				srv.SetDefault(netlab.Plan{Theta: nextTheta(), Build: ntsBuild(0xab)})
				_, _, e2, _ := call(time.Second)
				srv.Take()
				ok = e2 == nil
			}
			if !ok {
				t.Fatalf("a lone genuine reply was not accepted: %v (nts=%v)", err, useNTS)
			}
			rec.Label("lone-genuine-timeout-not-reproduced")
		}
		if err != nil && nAcceptable > 0 {
			// admissible: an acceptable datagram behind junk may be skipped; nothing to assert
		}
		var ls []string
		if err == nil {
			ls = append(ls, "accepted")
		} else {
			ls = append(ls, "rejected")
		}
		if useNTS {
			ls = append(ls, "nts")
		}
		if q.OriginTime != (ntp.Time64{}) {
			ls = append(ls, "interleaved-request")
		}
		rec.Eval(nBad > 0, ev.Hash(useNTS, c.InterleavedMode, fmt.Sprint(descs), nWarm), func() any {
			return map[string]any{"nts": useNTS, "interleaved_mode": c.InterleavedMode, "warmup": nWarm, "datagrams": descs, "first_datagram": hex.EncodeToString(cands[0].data[:min(len(cands[0].data), 64)]), "accepted": err == nil}
		}, ls...)
	})
}

func l2i(l uint16) int { return int(l) }
