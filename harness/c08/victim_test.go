package c08

// Victim mode: the test binary re-executed by the parent with VERIF_VICTIM set.
// It hosts the real listeners on its own loopback address and, on request over
// stdin, runs real client calls against addresses where the parent plays a
// hostile server. A panic anywhere kills this process, not the generator.

import (
	"bufio"
	"context"
	"crypto/ecdsa"
	"crypto/elliptic"
	"crypto/rand"
	"crypto/tls"
	"crypto/x509"
	"crypto/x509/pkix"
	"encoding/hex"
	"fmt"
	"log/slog"
	"math/big"
	"net"
	"net/netip"
	"os"
	"strconv"
	"strings"
	"sync/atomic"
	"time"

	"github.com/prometheus/client_golang/prometheus"
	"github.com/scionproto/scion/pkg/addr"
	"github.com/scionproto/scion/pkg/snet"
	snetpath "github.com/scionproto/scion/pkg/snet/path"

	"example.com/scion-time/core/client"
	"example.com/scion-time/core/server"
	"example.com/scion-time/core/timebase"
	"example.com/scion-time/driver/clocks"
	"example.com/scion-time/net/ntske"
	"example.com/scion-time/net/scion"
	"example.com/scion-time/net/udp"
)

const (
	vNTPPort   = 12123
	vSCIONPort = 10123
)

type countHandler struct {
	reqs atomic.Int64
}

func (h *countHandler) Enabled(context.Context, slog.Level) bool { return true }
func (h *countHandler) Handle(_ context.Context, r slog.Record) error {
	if r.Message == "received request" {
		h.reqs.Add(1)
	}
	return nil
}
func (h *countHandler) WithAttrs([]slog.Attr) slog.Handler { return h }
func (h *countHandler) WithGroup(string) slog.Handler      { return h }

func victimCert() tls.Certificate {
	key, _ := ecdsa.GenerateKey(elliptic.P256(), rand.Reader)
	tmpl := &x509.Certificate{SerialNumber: big.NewInt(1), Subject: pkix.Name{CommonName: "victim"},
		NotBefore: time.Now().Add(-time.Hour), NotAfter: time.Now().Add(24 * time.Hour),
		KeyUsage: x509.KeyUsageDigitalSignature, ExtKeyUsage: []x509.ExtKeyUsage{x509.ExtKeyUsageServerAuth}}
	der, _ := x509.CreateCertificate(rand.Reader, tmpl, tmpl, &key.PublicKey, key)
	return tls.Certificate{Certificate: [][]byte{der}, PrivateKey: key}
}

func victimMain() {
	ip := net.ParseIP(os.Getenv("VICTIM_IP"))
	ip2 := net.ParseIP(os.Getenv("VICTIM_IP2"))
	ch := &countHandler{}
	log := slog.New(ch)
	timebase.RegisterClock(clocks.NewSystemClock(log, clocks.UnknownDrift))
	ctx := context.Background()
	provider := ntske.NewProvider()
	if os.Getenv("VERIF_VICTIM") == "servers" {
		prometheus.DefaultRegisterer = prometheus.NewRegistry()
		server.StartIPServer(ctx, log, &net.UDPAddr{IP: ip, Port: vNTPPort}, 0, provider)
		prometheus.DefaultRegisterer = prometheus.NewRegistry()
		server.StartSCIONServer(ctx, log, "", &net.UDPAddr{IP: ip, Port: vSCIONPort}, 0, provider)
		prometheus.DefaultRegisterer = prometheus.NewRegistry()
		server.StartSCIONDispatcher(ctx, log, &net.UDPAddr{IP: ip2, Port: 1})
		cert := victimCert()
		server.StartNTSKEServerIP(ctx, log, ip, vNTPPort, &tls.Config{Certificates: []tls.Certificate{cert}, NextProtos: []string{"ntske/1"}, MinVersion: tls.VersionTLS13}, provider)
		// the key-exchange server over SCION (QUIC on the SCION/UDP port 14460): raw SCION datagrams reach its packet reader
		server.StartNTSKEServerSCION(ctx, log, udp.UDPAddr{IA: addr.MustIAFrom(1, 0xff0000000110), Host: &net.UDPAddr{IP: ip, Port: vSCIONPort}},
			&tls.Config{Certificates: []tls.Certificate{cert}, NextProtos: []string{"ntske/1"}, MinVersion: tls.VersionTLS13}, provider)
		prometheus.DefaultRegisterer = prometheus.NewRegistry()
		server.StartCSPTPServerIP(ctx, log, &net.UDPAddr{IP: ip}, 0)
	}
	k := provider.Current()
	fmt.Printf("READY key=%d:%s\n", k.ID, hex.EncodeToString(k.Value))
	lip, _ := netip.AddrFromSlice(ip.To4())
	// long-lived clients so that multi-call state (interleaved mode, cookie pools) is exercised as well
	ipc := &client.IPClient{Log: log, InterleavedMode: true}
	ipcNTS := &client.IPClient{Log: log}
	scc := &client.SCIONClient{Log: log, InterleavedMode: true}
	sccAuth := &client.SCIONClient{Log: log}
	sccAuth.Auth.Enabled = true
	sccAuth.Auth.DRKeyFetcher = scion.NewFetcher(nil)
	csc := &client.CSPTPClientIP{Log: log}
	sc := bufio.NewScanner(os.Stdin)
	for sc.Scan() {
		f := strings.Fields(sc.Text())
		if len(f) == 0 {
			continue
		}
		cctx, cancel := context.WithTimeout(ctx, 120*time.Millisecond)
		var err error
		start := time.Now()
		switch f[0] {
		case "stats":
			fmt.Printf("STATS %d\n", ch.reqs.Load())
			cancel()
			continue
		case "ipclient": // ipclient <ip> <port>
			port, _ := strconv.Atoi(f[2])
			_, _, err = client.MeasureClockOffsetIP(cctx, log, ipc, &net.UDPAddr{IP: ip}, &net.UDPAddr{IP: net.ParseIP(f[1]), Port: port})
		case "ipclient-nts": // ipclient-nts <ke-ip> <ke-port>
			if ipcNTS.Auth.NTSKEFetcher.Port != f[2] {
				ipcNTS.Auth.Enabled = true
				ipcNTS.Auth.NTSKEFetcher = ntske.Fetcher{Log: log, Port: f[2], TLSConfig: tls.Config{NextProtos: []string{"ntske/1"}, InsecureSkipVerify: true, ServerName: f[1], MinVersion: tls.VersionTLS13}}
			}
			_, _, err = client.MeasureClockOffsetIP(cctx, log, ipcNTS, &net.UDPAddr{IP: ip}, &net.UDPAddr{IP: net.ParseIP(f[1]), Port: 123})
		case "fetch": // fetch <ke-ip> <ke-port>
			ft := &ntske.Fetcher{Log: log, Port: f[2], TLSConfig: tls.Config{NextProtos: []string{"ntske/1"}, InsecureSkipVerify: true, ServerName: f[1], MinVersion: tls.VersionTLS13}}
			_, err = ft.FetchData(cctx)
		case "scionclient", "scionclient-auth": // scionclient <nexthop-ip> <nexthop-port>
			port, _ := strconv.Atoi(f[2])
			c := scc
			if f[0] == "scionclient-auth" {
				c = sccAuth
			}
			lIA := addr.MustIAFrom(1, 0xff0000000110)
			nh := &net.UDPAddr{IP: net.ParseIP(f[1]), Port: port}
			p := snetpath.Path{Src: lIA, Dst: lIA, DataplanePath: snetpath.Empty{}, NextHop: nh}
			local := udp.UDPAddr{IA: lIA, Host: &net.UDPAddr{IP: ip}}
			remote := udp.UDPAddr{IA: lIA, Host: &net.UDPAddr{IP: net.ParseIP(f[1]), Port: vSCIONPort}}
			_, _, err = client.MeasureClockOffsetSCION(cctx, log, []*client.SCIONClient{c}, local, remote, []snet.Path{p})
		case "csptpclient": // csptpclient <server-ip>
			sip, _ := netip.ParseAddr(f[1])
			_, _, err = csc.MeasureClockOffset(cctx, lip, sip)
		}
		cancel()
		fmt.Printf("DONE %s %dms err=%v\n", f[0], time.Since(start).Milliseconds(), err != nil)
	}
}
