package c08

import (
	"encoding/json"
	"fmt"
	"os"
	"path/filepath"
	"strings"
	"sync"
	"testing"
	"time"

	"pgregory.net/rapid"

	"verif/internal/ev"
	"verif/internal/kf"
	"verif/internal/vt"
)

type scriptCase struct {
	Mock  bool   `json:"mock_keys"`
	Items []item `json:"items"`
}

var (
	vicMu   sync.Mutex
	victims = map[bool]*victim{}
	rigs    = map[bool]*rig{}
)

// getVictim returns a live servers-victim of the given flavour (restarting it if it died).
func getVictim(mock bool) (*victim, *rig, error) {
	vicMu.Lock()
	defer vicMu.Unlock()
	if v := victims[mock]; v != nil && v.alive() {
		return v, rigs[mock], nil
	}
	if r := rigs[mock]; r != nil {
		r.close()
	}
	slot := 0
	if mock {
		slot = 1
	}
	var lastErr error
	for attempt := 0; attempt < 3; attempt++ {
		v, err := startVictim("servers", mock, slot)
		if err != nil {
			lastErr = err
			time.Sleep(200 * time.Millisecond)
			continue
		}
		r, err := newRig(v, slot)
		if err != nil {
			v.kill()
			lastErr = err
			continue
		}
		victims[mock], rigs[mock] = v, r
		return v, r, nil
	}
	return nil, nil, lastErr
}

func killVictims() {
	vicMu.Lock()
	defer vicMu.Unlock()
	for k, v := range victims {
		if v != nil {
			v.kill()
		}
		if r := rigs[k]; r != nil {
			r.close()
		}
		delete(victims, k)
		delete(rigs, k)
	}
}

// crashSignature extracts a stable description of where the victim died (first frame in the project).
func crashSignature(trace string) string {
	lines := strings.Split(trace, "\n")
	msg := ""
	if len(lines) > 0 {
		msg = strings.TrimSpace(lines[0])
	}
	for _, l := range lines {
		l = strings.TrimSpace(l)
		if strings.HasPrefix(l, "example.com/scion-time/") {
			if i := strings.Index(l, "("); i > 0 {
				l = l[:i]
			}
			return msg + " @ " + l
		}
	}
	return msg
}

type failer interface {
	Fatalf(format string, args ...any)
}

// playScript sends the items and checks liveness; returns labels. fresh=true forces new victims first.
func playScript(t failer, c scriptCase) (labels []string, inconclusive string) {
	v, r, err := getVictim(c.Mock)
	if err != nil {
		return nil, "cannot start victim: " + err.Error()
	}
	defer func() { r.release() }()
	touched := map[string]bool{}
	for _, it := range c.Items {
		if it.Hex == "" && it.Note == "unserializable" {
			continue
		}
		r.send(it)
		touched[it.Target] = true
	}
	touched["ntp"] = true // global liveness
	describe := func() string {
		var ds []string
		for _, it := range c.Items {
			h := it.Hex
			if len(h) > 160 {
				h = h[:160] + "..."
			}
			ds = append(ds, fmt.Sprintf("%s[%s] %s", it.Target, it.Note, h))
		}
		return strings.Join(ds, " | ")
	}
	for _, tg := range []string{"ntp", "scion-svc", "scion-eh", "disp", "csptp-ev", "csptp-gen", "ntske", "ntske-raw", "ntske-scion"} {
		if !touched[tg] {
			continue
		}
		ok := r.sentinel(tg)
		if !v.alive() {
			time.Sleep(50 * time.Millisecond)
			trace := v.stderrTail()
			sig := crashSignature(trace)
			getVictim(c.Mock) // restart for whoever comes next
			if kf.Known("C08", sig) {
				return append(labels, "known-crash"), ""
			}
			t.Fatalf("the process hosting the listeners terminated (mock keys=%v) after script: %s\nsignature: %s\n%s", c.Mock, describe(), sig, trace)
		}
		if !ok {
			// hang protocol: must reproduce twice on fresh victims while a fresh victim without the script answers
			repro := 0
			for i := 0; i < 2; i++ {
				v.kill()
				v2, r2, err := getVictim(c.Mock)
				if err != nil {
					return nil, "cannot restart victim: " + err.Error()
				}
				if !r2.sentinel(tg) {
					return nil, "a fresh victim does not answer the sentinel for " + tg
				}
				for _, it := range c.Items {
					r2.send(it)
				}
				if !r2.sentinel(tg) {
					repro++
				}
				r.release()
				v, r = v2, r2
				if !v.alive() {
					t.Fatalf("the process hosting the listeners terminated while reproducing a hang: %s\n%s", describe(), v.stderrTail())
				}
			}
			v.kill()
			getVictim(c.Mock)
			if repro == 2 {
				t.Fatalf("listener %s stopped answering well-formed requests on the socket that received: %s", tg, describe())
			}
			return nil, fmt.Sprintf("sentinel for %s was lost once but the loss did not reproduce", tg)
		}
	}
	return labels, ""
}

var recSrv = ev.New("c08/listeners", "rapid: scripts of 1..5 datagrams / byte streams sent to the real listeners hosted in a child process (IP NTP/NTS listener, SCION listener on service and end-host port, SCION dispatcher, NTS-KE TLS server, NTS-KE server over SCION (raw SCION datagrams to its QUIC port), CSPTP listener; with and without USE_MOCK_KEYS): raw bytes at boundary lengths, NTS requests sealed under the child's current key with structure-aware edits (extension type/length fields in {0,1,2,3,4,exact+-1,0xffff}, duplicated/dropped fields, cookie TLV length lies, valid key id + garbage, nonce/ciphertext lengths 0..64, truncation), SCION packets built with slayers then patched (all address type/length nibbles, path types, HdrLen/PayloadLen/NextHdr/UDP length lies, one-hop/3-segment paths, hop-by-hop and end-to-end options incl. authenticators with data lengths 0..40 and option 253 with crafted control messages, SCMP types), NTS-KE record streams with lying lengths and truncation, raw TCP garbage, CSPTP messages with length lies. Oracle: the child stays alive and the next well-formed request on the same socket pair is answered (CSPTP: processed); a lost sentinel counts as a hang only if it reproduces twice on fresh children while a fresh child without the script answers. One evaluation = one script. Non-trivial: script with a datagram that is well-formed up to the mutated layer (built from a valid packet); distinct by script hash")

func TestPropListenerScripts(t *testing.T) {
	defer killVictims()
	vt.Check(t, 1500, 15000, func(t *rapid.T) {
		c := scriptCase{Mock: rapid.Bool().Draw(t, "mock")}
		v, r, err := getVictim(c.Mock)
		if err != nil {
			vt.Inconclusive(t, "cannot start victim: %v", err)
		}
		n := rapid.IntRange(1, 5).Draw(t, "nitems")
		structured := false
		for i := 0; i < n; i++ {
			var it item
			switch rapid.SampledFrom([]string{"ntp", "ntp", "scion-svc", "scion-svc", "scion-eh", "disp", "csptp", "ntske", "ntske-scion"}).Draw(t, "target") {
			case "ntp":
				it = genNTPItem(t, v)
			case "scion-svc":
				it = genSCIONItem(t, v, r, "scion-svc")
			case "scion-eh":
				it = genSCIONItem(t, v, r, "scion-eh")
			case "disp":
				it = genSCIONItem(t, v, r, "disp")
			case "ntske-scion":
				it = genSCIONItem(t, v, r, "ntske-scion")
			case "csptp":
				it = genCSPTPItem(t, rapid.SampledFrom([]string{"csptp-ev", "csptp-gen"}).Draw(t, "cport"))
			case "ntske":
				it = genKEItem(t)
			}
			if it.Note != "raw" && it.Note != "raw tcp" {
				structured = true
			}
			c.Items = append(c.Items, it)
		}
		ls, inc := playScript(t, c)
		if inc != "" {
			recSrv.Label("inconclusive:" + inc)
			return
		}
		b, _ := json.Marshal(c)
		recSrv.Eval(structured, ev.Hash(b), func() any {
			s := c
			for i := range s.Items {
				if len(s.Items[i].Hex) > 200 {
					s.Items[i].Hex = s.Items[i].Hex[:200] + "..."
				}
			}
			return s
		}, ls...)
	})
}

type exhFail struct {
	t testing.TB
	c any
}

func (e exhFail) Fatalf(format string, args ...any) { vt.Violation(e.t, e.c, format, args...) }

// TestReplay re-sends saved scripts (corpus/C08/*.json and --replay of a JSON case) to fresh children.
func TestReplay(t *testing.T) {
	defer killVictims()
	files, _ := filepath.Glob(filepath.Join(vt.CorpusDir("C08"), "*.json"))
	if p := vt.ReplayCase(); p != "" {
		files = []string{p}
	}
	for _, p := range files {
		b, err := os.ReadFile(p)
		if err != nil {
			t.Fatal(err)
		}
		var w struct {
			Case scriptCase `json:"case"`
		}
		if err := json.Unmarshal(b, &w); err != nil || len(w.Case.Items) == 0 {
			continue
		}
		if _, inc := playScript(exhFail{t, w.Case}, w.Case); inc != "" {
			t.Logf("%s: inconclusive: %s", filepath.Base(p), inc)
		}
	}
}
