package c08

import (
	"bufio"
	"bytes"
	"context"
	"crypto/tls"
	"encoding/binary"
	"encoding/hex"
	"fmt"
	"io"
	"net"
	"net/netip"
	"os"
	"os/exec"
	"strings"
	"sync"
	"testing"
	"time"

	"github.com/scionproto/scion/pkg/addr"
	spathpkg "github.com/scionproto/scion/pkg/slayers/path"
	snetpath "github.com/scionproto/scion/pkg/snet/path"

	"example.com/scion-time/net/csptp"
	"example.com/scion-time/net/ntp"
	"example.com/scion-time/net/scion"
	"example.com/scion-time/net/udp"

	"verif/internal/netlab"
	"verif/internal/vt"
	"verif/internal/wire"
)

func TestMain(m *testing.M) {
	if os.Getenv("VERIF_VICTIM") != "" {
		victimMain()
		os.Exit(0)
	}
	vt.Main(m)
}

// ---------------------------------------------------------------- child supervision

type victim struct {
	kind   string
	mock   bool
	ip     netip.Addr // listeners
	ip2    netip.Addr // dispatcher
	cmd    *exec.Cmd
	stdin  io.WriteCloser
	lines  chan string
	dead   chan struct{}
	errMu  sync.Mutex
	stderr bytes.Buffer
	keyID  int
	key    []byte
}

type lockedWriter struct{ v *victim }

func (w lockedWriter) Write(p []byte) (int, error) {
	w.v.errMu.Lock()
	defer w.v.errMu.Unlock()
	if w.v.stderr.Len() < 1<<20 {
		w.v.stderr.Write(p)
	}
	return len(p), nil
}

func startVictim(kind string, mock bool, slot int) (*victim, error) {
	v := &victim{kind: kind, mock: mock, ip: netlab.AddrN(2 * slot), ip2: netlab.AddrN(2*slot + 1), lines: make(chan string, 64), dead: make(chan struct{})}
	v.cmd = exec.Command(os.Args[0], "-test.run", "^$")
	v.cmd.Env = append(os.Environ(), "VERIF_VICTIM="+kind, "VICTIM_IP="+v.ip.String(), "VICTIM_IP2="+v.ip2.String(), "VERIF_EV_DIR=")
	if mock {
		v.cmd.Env = append(v.cmd.Env, "USE_MOCK_KEYS=true")
	} else {
		v.cmd.Env = append(v.cmd.Env, "USE_MOCK_KEYS=false")
	}
	var err error
	if v.stdin, err = v.cmd.StdinPipe(); err != nil {
		return nil, err
	}
	out, err := v.cmd.StdoutPipe()
	if err != nil {
		return nil, err
	}
	v.cmd.Stderr = lockedWriter{v}
	if err := v.cmd.Start(); err != nil {
		return nil, err
	}
	go func() {
		sc := bufio.NewScanner(out)
		for sc.Scan() {
			select {
			case v.lines <- sc.Text():
			default:
			}
		}
		v.cmd.Wait()
		close(v.dead)
	}()
	select {
	case l := <-v.lines:
		if !strings.HasPrefix(l, "READY key=") {
			v.kill()
			return nil, fmt.Errorf("victim said %q", l)
		}
		var hx string
		fmt.Sscanf(strings.TrimPrefix(l, "READY key="), "%d:%s", &v.keyID, &hx)
		if i := strings.Index(l, ":"); i >= 0 {
			hx = l[i+1:]
		}
		v.key, _ = hex.DecodeString(hx)
	case <-v.dead:
		return nil, fmt.Errorf("victim exited during start-up: %s", v.stderrTail())
	case <-time.After(20 * time.Second):
		v.kill()
		return nil, fmt.Errorf("victim did not become ready")
	}
	return v, nil
}

func (v *victim) alive() bool {
	select {
	case <-v.dead:
		return false
	default:
		return true
	}
}

func (v *victim) kill() {
	if v.cmd != nil && v.cmd.Process != nil {
		v.cmd.Process.Kill()
	}
	select {
	case <-v.dead:
	case <-time.After(3 * time.Second):
	}
}

func (v *victim) stderrTail() string {
	v.errMu.Lock()
	defer v.errMu.Unlock()
	b := v.stderr.Bytes()
	// the interesting part of a Go panic is its head: message and first goroutine
	if i := bytes.Index(b, []byte("panic:")); i >= 0 {
		b = b[i:]
	} else if i := bytes.Index(b, []byte("fatal error:")); i >= 0 {
		b = b[i:]
	}
	if len(b) > 3000 {
		b = b[:3000]
	}
	return string(b)
}

// command sends a control line and waits for the matching answer.
func (v *victim) command(line, wantPrefix string, timeout time.Duration) (string, bool) {
	for { // drop stale lines
		select {
		case <-v.lines:
			continue
		default:
		}
		break
	}
	if _, err := io.WriteString(v.stdin, line+"\n"); err != nil {
		return "", false
	}
	deadline := time.After(timeout)
	for {
		select {
		case l := <-v.lines:
			if strings.HasPrefix(l, wantPrefix) {
				return l, true
			}
		case <-v.dead:
			return "", false
		case <-deadline:
			return "", false
		}
	}
}

// ---------------------------------------------------------------- targets on a servers-victim

type item struct {
	Target string `json:"target"` // ntp | scion-svc | scion-eh | disp | csptp-ev | csptp-gen | ntske | ntske-raw
	Hex    string `json:"hex"`
	Note   string `json:"note,omitempty"`
	// Hold (stream targets): the peer keeps the connection open, saying nothing more, until the liveness of the
	// listener has been checked (a slow or silent peer), instead of closing it right after writing.
	Hold bool `json:"hold,omitempty"`
}

func (it item) data() []byte { b, _ := hex.DecodeString(it.Hex); return b }

type rig struct {
	v     *victim
	socks map[string]*net.UDPConn // one sender socket per UDP target (fixed 4-tuple)
	app   *net.UDPConn            // forwarding target for dispatcher sentinels
	seq   uint32
	held  []net.Conn // stream connections kept open by "hold" items
}

func (r *rig) release() {
	for _, c := range r.held {
		c.Close()
	}
	r.held = nil
}

const appPortC08 = 40108

func newRig(v *victim, slot int) (*rig, error) {
	r := &rig{v: v, socks: map[string]*net.UDPConn{}}
	src := netlab.AddrN(8 + slot)
	for _, t := range []string{"ntp", "scion-svc", "scion-eh", "disp", "csptp-ev", "csptp-gen", "ntske-scion"} {
		c, err := net.ListenUDP("udp", netlab.UDPAddr(src, 0))
		if err != nil {
			return nil, err
		}
		r.socks[t] = c
	}
	var err error
	r.app, err = net.ListenUDP("udp", netlab.UDPAddr(src, appPortC08))
	return r, err
}

func (r *rig) close() {
	for _, c := range r.socks {
		c.Close()
	}
	if r.app != nil {
		r.app.Close()
	}
}

func (r *rig) dst(target string) *net.UDPAddr {
	switch target {
	case "ntp":
		return netlab.UDPAddr(r.v.ip, vNTPPort)
	case "scion-svc":
		return netlab.UDPAddr(r.v.ip, vSCIONPort)
	case "ntske-scion":
		return netlab.UDPAddr(r.v.ip, 14460) // ntske.ServerPortSCION
	case "scion-eh":
		return netlab.UDPAddr(r.v.ip, 30041)
	case "disp":
		return netlab.UDPAddr(r.v.ip2, 30041)
	case "csptp-ev":
		return netlab.UDPAddr(r.v.ip, csptp.EventPortIP)
	case "csptp-gen":
		return netlab.UDPAddr(r.v.ip, csptp.GeneralPortIP)
	}
	return nil
}

func (r *rig) send(it item) {
	d := it.data()
	switch it.Target {
	case "ntske", "ntske-raw":
		conn, err := net.DialTimeout("tcp", net.JoinHostPort(r.v.ip.String(), "4460"), time.Second)
		if err != nil {
			return
		}
		if it.Hold {
			r.held = append(r.held, conn)
		} else {
			defer conn.Close()
		}
		conn.SetDeadline(time.Now().Add(500 * time.Millisecond))
		var w io.ReadWriter = conn
		if it.Target == "ntske" {
			tc := tls.Client(conn, &tls.Config{InsecureSkipVerify: true, NextProtos: []string{"ntske/1"}, MinVersion: tls.VersionTLS13})
			if tc.Handshake() != nil {
				return
			}
			w = tc
		}
		w.Write(d)
		if it.Hold {
			return
		}
		buf := make([]byte, 4096)
		conn.SetReadDeadline(time.Now().Add(40 * time.Millisecond))
		w.Read(buf)
	default:
		if c := r.socks[it.Target]; c != nil {
			c.WriteToUDP(d, r.dst(it.Target))
		}
	}
}

func (r *rig) sentinelNTP() []byte {
	r.seq++
	var q ntp.Packet
	q.SetVersion(4)
	q.SetMode(ntp.ModeClient)
	q.TransmitTime = ntp.Time64{Seconds: 0xfeed0000 | r.seq>>16, Fraction: r.seq<<16 | 0xbeef}
	b := make([]byte, 48)
	ntp.EncodePacket(&b, &q)
	return b
}

// sentinel: the next well-formed request on the same socket pair is still answered (or, for listeners that never
// reply, visibly processed).
func (r *rig) sentinel(target string) bool {
	buf := make([]byte, 16384)
	switch target {
	case "ntp", "scion-svc", "scion-eh":
		c := r.socks[target]
		for attempt := 0; attempt < 5; attempt++ {
			q := r.sentinelNTP()
			d := q
			if target != "ntp" {
				p := wire.Pkt{SrcIA: 0x1ff0000000111, DstIA: 0x1ff0000000112, Src: c.LocalAddr().(*net.UDPAddr).AddrPort().Addr(), Dst: r.v.ip,
					Path: mustEmpty(), SrcPort: 5555, DstPort: vSCIONPort, Payload: q}
				d, _ = p.Serialize(nil, nil)
			}
			c.WriteToUDP(d, r.dst(target))
			deadline := time.Now().Add(time.Duration(150*(attempt+1)) * time.Millisecond)
			for {
				c.SetReadDeadline(deadline)
				n, _, err := c.ReadFromUDP(buf)
				if err != nil {
					break
				}
				if bytes.Contains(buf[:n], q[40:48]) {
					return true
				}
			}
			if !r.v.alive() {
				return false
			}
		}
		return false
	case "disp":
		c := r.socks[target]
		for attempt := 0; attempt < 5; attempt++ {
			r.seq++
			pay := []byte(fmt.Sprintf("sentinel-%d", r.seq))
			p := wire.Pkt{SrcIA: 0x1ff0000000111, DstIA: 0x1ff0000000112, Src: c.LocalAddr().(*net.UDPAddr).AddrPort().Addr(),
				Dst: r.app.LocalAddr().(*net.UDPAddr).AddrPort().Addr(), Path: mustEmpty(), SrcPort: 5555, DstPort: appPortC08, Payload: pay}
			d, _ := p.Serialize(nil, nil)
			c.WriteToUDP(d, r.dst(target))
			deadline := time.Now().Add(time.Duration(150*(attempt+1)) * time.Millisecond)
			for {
				r.app.SetReadDeadline(deadline)
				n, _, err := r.app.ReadFromUDP(buf)
				if err != nil {
					break
				}
				if bytes.Contains(buf[:n], pay) {
					return true
				}
			}
			if !r.v.alive() {
				return false
			}
		}
		return false
	case "csptp-ev", "csptp-gen":
		// the CSPTP listener never replies in this tree: progress = its count of accepted requests grows
		c := r.socks["csptp-ev"]
		before, ok := r.v.command("stats", "STATS", 2*time.Second)
		if !ok {
			return false
		}
		for attempt := 0; attempt < 5; attempt++ {
			msg := csptp.Message{SdoIDMessageType: csptp.MessageTypeSync, PTPVersion: csptp.PTPVersion, MessageLength: csptp.MinMessageLength,
				FlagField: csptp.FlagTwoStep | csptp.FlagUnicast, SequenceID: uint16(r.seq), ControlField: csptp.ControlSync}
			b := make([]byte, csptp.MinMessageLength)
			csptp.EncodeMessage(b, &msg)
			// the socket that sent the script must be the one probed; both CSPTP ports share the sender sockets' address
			c.WriteToUDP(b, r.dst("csptp-ev"))
			time.Sleep(time.Duration(20*(attempt+1)) * time.Millisecond)
			after, ok := r.v.command("stats", "STATS", 2*time.Second)
			if !ok {
				return false
			}
			if after != before {
				return true
			}
		}
		return false
	case "ntske-scion":
		// the next well-formed request: a QUIC connection (TLS 1.3, ALPN ntske/1) over SCION with an empty path,
		// made with the project's own client-side transport
		ia := addr.MustIAFrom(1, 0xff0000000110)
		for attempt := 0; attempt < 3; attempt++ {
			if !r.v.alive() {
				return false
			}
			cli := udp.UDPAddr{IA: ia, Host: &net.UDPAddr{IP: r.socks["ntske-scion"].LocalAddr().(*net.UDPAddr).IP}}
			rem := udp.UDPAddr{IA: ia, Host: &net.UDPAddr{IP: r.v.ip.AsSlice(), Port: 14460}}
			p := snetpath.Path{Src: ia, Dst: ia, DataplanePath: snetpath.Empty{}, NextHop: rem.Host}
			ctx, cancel := context.WithTimeout(context.Background(), time.Duration(500*(attempt+1))*time.Millisecond)
			conn, err := scion.DialQUIC(ctx, cli, rem, p, "", &tls.Config{InsecureSkipVerify: true, NextProtos: []string{"ntske/1"}, MinVersion: tls.VersionTLS13}, nil)
			cancel()
			if err == nil {
				conn.CloseWithError(0, "")
				return true
			}
		}
		return false
	case "ntske", "ntske-raw":
		for attempt := 0; attempt < 3; attempt++ {
			if keExchangeOK(r.v.ip.String(), "4460") {
				return true
			}
			if !r.v.alive() {
				return false
			}
		}
		return false
	}
	return true
}

func mustEmpty() spathpkg.Path { p, _ := (wire.PathSpec{Kind: "empty"}).SlayersPath(); return p }

// keExchangeOK performs a minimal conformant key exchange as a client and checks for cookies and an end record.
func keExchangeOK(host, port string) bool {
	conn, err := tls.DialWithDialer(&net.Dialer{Timeout: time.Second}, "tcp", net.JoinHostPort(host, port),
		&tls.Config{InsecureSkipVerify: true, NextProtos: []string{"ntske/1"}, MinVersion: tls.VersionTLS13})
	if err != nil {
		return false
	}
	defer conn.Close()
	conn.SetDeadline(time.Now().Add(time.Second))
	req := netlab.EncodeRecs([]netlab.Rec{{Type: netlab.RecNextProto, Critical: true, Body: netlab.U16(0)}, {Type: netlab.RecAEAD, Critical: true, Body: netlab.U16(15)}, {Type: netlab.RecEnd, Critical: true}})
	conn.Write(req)
	var buf []byte
	tmp := make([]byte, 4096)
	for {
		n, err := conn.Read(tmp)
		buf = append(buf, tmp[:n]...)
		rs, _ := netlab.ParseRecs(buf)
		cookies, end := 0, false
		for _, r := range rs {
			if r.Type == netlab.RecCookie {
				cookies++
			}
			if r.Type == netlab.RecEnd {
				end = true
			}
		}
		if end {
			return cookies > 0
		}
		if err != nil {
			return false
		}
	}
}

var _ = binary.BigEndian
