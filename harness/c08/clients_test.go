package c08

import (
	"bytes"
	"encoding/binary"
	"encoding/json"
	"fmt"
	"net"
	"strings"
	"sync"
	"testing"
	"time"

	"github.com/scionproto/scion/pkg/slayers"
	"pgregory.net/rapid"

	"example.com/scion-time/net/csptp"
	"example.com/scion-time/net/ntp"
	"example.com/scion-time/net/nts"

	"verif/internal/ev"
	"verif/internal/kf"
	"verif/internal/netlab"
	"verif/internal/vt"
	"verif/internal/wire"
)

// hostile servers the parent runs; the child (clients-victim) is told to query them.

type reply struct {
	Hex  string `json:"hex"`
	Note string `json:"note"`
}

type clientCase struct {
	Kind    string  `json:"kind"` // ipclient | ipclient-nts | scionclient | scionclient-auth | csptpclient | fetch
	Replies []reply `json:"replies"`
	Rounds  int     `json:"rounds"` // how many consecutive calls use the same script (multi-call client state)
}

type hostile struct {
	mu      sync.Mutex
	udp     *net.UDPConn // NTP / SCION next hop
	ev, gen *net.UDPConn // CSPTP 319 / 320
	ke      *netlab.KEServer
	keys    struct{ c2s, s2c []byte }
	keRecs  []byte
	keHold  bool // the key-exchange server keeps the connection open after what it wrote (slow / silent peer)
	last    []byte
	reqCh   chan buildReq // requests are handed to the test goroutine, which owns all random draws
	active  bool
}

type buildReq struct {
	req  []byte
	port int
	resp chan [][]byte
}

var (
	hostOnce sync.Once
	host     *hostile
	hostErr  error
	cvMu     sync.Mutex
	cvictim  *victim
)

func getHost() (*hostile, error) {
	hostOnce.Do(func() {
		h := &hostile{reqCh: make(chan buildReq)}
		ip := netlab.AddrN(12)
		if h.udp, hostErr = net.ListenUDP("udp", netlab.UDPAddr(ip, 123)); hostErr != nil {
			return
		}
		if h.ev, hostErr = net.ListenUDP("udp", netlab.UDPAddr(ip, csptp.EventPortIP)); hostErr != nil {
			return
		}
		if h.gen, hostErr = net.ListenUDP("udp", netlab.UDPAddr(ip, csptp.GeneralPortIP)); hostErr != nil {
			return
		}
		if h.ke, hostErr = netlab.NewKEServer(&net.TCPAddr{IP: ip.AsSlice(), Port: 0}); hostErr != nil {
			return
		}
		serve := func(c *net.UDPConn) {
			buf := make([]byte, 16384)
			for {
				n, from, err := c.ReadFromUDP(buf)
				if err != nil {
					return
				}
				h.mu.Lock()
				act := h.active
				h.last = bytes.Clone(buf[:n])
				h.mu.Unlock()
				if !act {
					continue
				}
				br := buildReq{req: bytes.Clone(buf[:n]), port: c.LocalAddr().(*net.UDPAddr).Port, resp: make(chan [][]byte, 1)}
				select {
				case h.reqCh <- br:
				case <-time.After(time.Second):
					continue
				}
				select {
				case out := <-br.resp:
					for _, d := range out {
						c.WriteToUDP(d, from)
					}
				case <-time.After(time.Second):
				}
			}
		}
		go serve(h.udp)
		go serve(h.ev)
		go serve(h.gen)
		h.ke.Set([]string{"ntske/1"}, func(c *netlab.KEConn) {
			c.ReadRequest()
			c2s, s2c, _ := c.Keys()
			h.mu.Lock()
			h.keys.c2s, h.keys.s2c = c2s, s2c
			recs, hold := h.keRecs, h.keHold
			h.mu.Unlock()
			if recs == nil { // conformant: 8 cookies, NTP server = this host
				rs := []netlab.Rec{{Type: netlab.RecNextProto, Critical: true, Body: netlab.U16(0)}, {Type: netlab.RecAEAD, Critical: true, Body: netlab.U16(15)},
					{Type: netlab.RecServer, Body: []byte(ip.String())}, {Type: netlab.RecPort, Body: netlab.U16(123)}}
				for i := 0; i < 8; i++ {
					rs = append(rs, netlab.Rec{Type: netlab.RecCookie, Body: bytes.Repeat([]byte{byte(i + 1)}, 124)})
				}
				rs = append(rs, netlab.Rec{Type: netlab.RecEnd, Critical: true})
				recs = netlab.EncodeRecs(rs)
			}
			c.WriteSegments(recs, []int{700})
			if hold {
				time.Sleep(14 * time.Second) // longer than the harness waits for the client call to return
			}
		})
		host = h
	})
	return host, hostErr
}

func getClientVictim() (*victim, error) {
	cvMu.Lock()
	defer cvMu.Unlock()
	if cvictim != nil && cvictim.alive() {
		return cvictim, nil
	}
	var err error
	for i := 0; i < 3; i++ {
		if cvictim, err = startVictim("clients", true, 2); err == nil {
			return cvictim, nil
		}
		time.Sleep(200 * time.Millisecond)
	}
	return nil, err
}

func genuineNTPReply(req []byte) []byte {
	var q, r ntp.Packet
	if ntp.DecodePacket(&q, req) != nil {
		return make([]byte, 48)
	}
	r.SetVersion(4)
	r.SetMode(ntp.ModeServer)
	r.Stratum = 1
	r.OriginTime = q.TransmitTime
	if q.OriginTime != (ntp.Time64{}) && q.ReceiveTime != q.TransmitTime {
		r.OriginTime = q.ReceiveTime // answer interleaved requests in kind (keeps the client in that mode)
	}
	now := time.Now()
	r.ReceiveTime = ntp.Time64FromTime(now)
	r.TransmitTime = ntp.Time64FromTime(now.Add(time.Microsecond))
	b := make([]byte, 48)
	ntp.EncodePacket(&b, &r)
	return b
}

// mutateNTPReply: hostile variants of a genuine reply.
func mutateNTPReply(t *rapid.T, g []byte) ([]byte, string) {
	b := bytes.Clone(g)
	switch rapid.SampledFrom([]string{"genuine", "timestamps", "header", "truncate", "random", "append"}).Draw(t, "rmut") {
	case "timestamps":
		off := rapid.SampledFrom([]int{32, 40, 16}).Draw(t, "tsoff")
		binary.BigEndian.PutUint64(b[off:], rapid.SampledFrom([]uint64{0, 1, 1 << 32, 1 << 63, 1<<64 - 1, 0x8000000000000001}).Draw(t, "tsval"))
		return b, "timestamps"
	case "header":
		b[rapid.IntRange(0, 3).Draw(t, "hoff")] = rapid.Byte().Draw(t, "hval")
		return b, "header"
	case "truncate":
		return b[:rapid.IntRange(0, 47).Draw(t, "cut")], "truncate"
	case "random":
		return rapid.SliceOfN(rapid.Byte(), 0, 1500).Draw(t, "rnd"), "random"
	case "append":
		return append(b, rapid.SliceOfN(rapid.Byte(), 1, 100).Draw(t, "tail")...), "append"
	}
	return b, "genuine"
}

// ntsReply builds an NTS reply for request req under key (genuine), then applies hostile edits. When inner is
// set the *encrypted* part is hostile too (the sender holds the session keys: a malicious or buggy server).
func ntsReply(t *rapid.T, req []byte, hdr []byte, s2c []byte) ([]byte, string) {
	var uid []byte
	for pos := 48; pos+4 <= len(req); {
		typ, l := binary.BigEndian.Uint16(req[pos:]), int(binary.BigEndian.Uint16(req[pos+2:]))
		if l < 4 || pos+l > len(req) {
			break
		}
		if typ == 0x104 {
			uid = req[pos+4 : pos+l]
		}
		pos += l
	}
	if uid == nil || len(s2c) != 32 {
		return hdr, "plain"
	}
	kind := rapid.SampledFrom([]string{"genuine", "ext-edits", "inner-len0", "inner-garbage", "many-cookies", "huge-cookie"}).Draw(t, "ntskind")
	var cookies [][]byte
	switch kind {
	case "many-cookies":
		for i := 0; i < rapid.IntRange(9, 40).Draw(t, "ncookies"); i++ {
			cookies = append(cookies, bytes.Repeat([]byte{byte(i)}, 24))
		}
	case "huge-cookie":
		cookies = [][]byte{bytes.Repeat([]byte{7}, rapid.SampledFrom([]int{0, 1, 3, 600, 1000}).Draw(t, "hugelen"))}
	default:
		cookies = [][]byte{bytes.Repeat([]byte{9}, 124)}
	}
	pkt := nts.NewResponsePacket(cookies, s2c, uid)
	if kind == "inner-len0" || kind == "inner-garbage" {
		// hostile plaintext inside a correctly sealed authenticator
		pt := bytes.Clone(pkt.Auth.PlainText)
		if kind == "inner-len0" && len(pt) >= 4 {
			binary.BigEndian.PutUint16(pt[2:], uint16(rapid.SampledFrom([]int{0, 1, 2, 3, 0xffff}).Draw(t, "innerlen")))
		} else {
			pt = rapid.SliceOfN(rapid.Byte(), 0, 200).Draw(t, "innerpt")
		}
		pkt.Auth.PlainText = pt
	}
	b := bytes.Clone(hdr[:48])
	func() {
		defer func() { _ = recover() }() // oversize constructions may not fit the encoder's buffer
		nts.EncodePacket(&b, &pkt)
	}()
	if kind == "ext-edits" {
		var note string
		b, note = mutateExtFields(t, b)
		return b, "nts:" + note
	}
	return b, "nts:" + kind
}

func csptpReplies(t *rapid.T, req []byte, port int) [][]byte {
	var q csptp.Message
	if len(req) < 44 || csptp.DecodeMessage(&q, req[:44]) != nil {
		return nil
	}
	mk := func(typ uint8, withTLV bool) []byte {
		m := csptp.Message{SdoIDMessageType: typ, PTPVersion: csptp.PTPVersion, MessageLength: 44, FlagField: csptp.FlagUnicast, SequenceID: q.SequenceID}
		b := make([]byte, 44, 200)
		if withTLV {
			tlv := csptp.ResponseTLV{Type: csptp.TLVTypeOrganizationExtension, OrganizationID: [3]uint8{csptp.OrganizationIDMeinberg0, csptp.OrganizationIDMeinberg1, csptp.OrganizationIDMeinberg2},
				OrganizationSubType: [3]uint8{csptp.OrganizationSubTypeResponse0, csptp.OrganizationSubTypeResponse1, csptp.OrganizationSubTypeResponse2},
				FlagField:           rapid.SampledFrom([]uint32{0, 1}).Draw(t, "rflag"), RequestCorrectionField: int64(rapid.Uint64().Draw(t, "corr")), UTCOffset: int16(rapid.Uint16().Draw(t, "utc"))}
			copy(tlv.RequestIngressTimestamp.Seconds[:], rapid.SliceOfN(rapid.Byte(), 6, 6).Draw(t, "ingress"))
			tlv.RequestIngressTimestamp.Nanoseconds = rapid.SampledFrom([]uint32{0, 999999999, 1000000000, 0xffffffff}).Draw(t, "ingressns")
			n := csptp.EncodedResponseTLVLength(&tlv)
			b = b[:44+n]
			csptp.EncodeResponseTLV(b[44:], &tlv)
			m.MessageLength += uint16(n)
		}
		copy(m.Timestamp.Seconds[:], rapid.SliceOfN(rapid.Byte(), 6, 6).Draw(t, "tsec"))
		m.Timestamp.Nanoseconds = rapid.SampledFrom([]uint32{0, 5, 0xffffffff}).Draw(t, "tns")
		m.CorrectionField = int64(rapid.SampledFrom([]uint64{0, 1 << 63, 1<<63 - 1, 1 << 16}).Draw(t, "cf"))
		if rapid.IntRange(0, 3).Draw(t, "lie") == 1 {
			m.MessageLength = uint16(rapid.SampledFrom([]int{0, 43, 44, 98, 99, 0xffff}).Draw(t, "ml"))
		}
		csptp.EncodeMessage(b[:44], &m)
		if rapid.IntRange(0, 5).Draw(t, "cut") == 2 {
			b = b[:rapid.IntRange(0, len(b)).Draw(t, "cutat")]
		}
		return b
	}
	var out [][]byte
	if rapid.IntRange(0, 3).Draw(t, "short-after-long") == 1 {
		// a full-size message whose length field announces k bytes, followed by a datagram of exactly k bytes:
		// the receiver's buffer still holds the first header when the short one arrives
		k := rapid.SampledFrom([]int{0, 1, 10, 20, 43}).Draw(t, "k")
		typ := rapid.SampledFrom([]uint8{csptp.MessageTypeFollowUp, csptp.MessageTypeSync}).Draw(t, "stype")
		m := csptp.Message{SdoIDMessageType: typ, PTPVersion: csptp.PTPVersion, MessageLength: uint16(k), FlagField: csptp.FlagUnicast, SequenceID: q.SequenceID}
		b := make([]byte, 44)
		csptp.EncodeMessage(b, &m)
		return [][]byte{b, rapid.SliceOfN(rapid.Byte(), k, k).Draw(t, "shortbody")}
	}
	if port == csptp.EventPortIP {
		out = append(out, mk(csptp.MessageTypeSync, false))
	} else {
		out = append(out, mk(csptp.MessageTypeFollowUp, true))
	}
	if rapid.IntRange(0, 3).Draw(t, "extra") == 1 {
		out = append(out, rapid.SliceOfN(rapid.Byte(), 0, 120).Draw(t, "junk"))
	}
	return out
}

// scionReplies wraps hostile NTP payloads into hostile SCION packets towards the client.
func scionReplies(t *rapid.T, req []byte) [][]byte {
	p, err := wire.Parse(req)
	if err != nil || !p.IsUDP {
		return [][]byte{rapid.SliceOfN(rapid.Byte(), 0, 200).Draw(t, "junk")}
	}
	pay, _ := mutateNTPReply(t, genuineNTPReply(p.UDP.Payload))
	src, _ := p.SrcAddr()
	dst, _ := p.DstAddr()
	rev, err := p.SCION.Path.Reverse()
	if err != nil {
		return nil
	}
	if q := p.UDP.Payload; len(q) >= 48 && rapid.IntRange(0, 5).Draw(t, "single-fault") == 0 {
		// an otherwise acceptable reply whose only unusual part is the (unauthenticated) timestamp option
		sec, frac := binary.BigEndian.Uint32(q[40:]), binary.BigEndian.Uint32(q[44:])
		near := time.Unix(int64(sec)-2208988800, int64(uint64(frac)*1e9>>32))
		out := wire.Pkt{SrcIA: p.SCION.DstIA, DstIA: p.SCION.SrcIA, Src: dst, Dst: src, Path: rev, SrcPort: p.UDP.DstPort, DstPort: p.UDP.SrcPort,
			Payload: genuineNTPReply(q), E2E: []*slayers.EndToEndOption{{OptType: 253, OptData: cmsgBody(t, near)}}}
		if raw, err := out.Serialize(nil, nil); err == nil {
			return [][]byte{raw}
		}
	}
	out := wire.Pkt{SrcIA: p.SCION.DstIA, DstIA: p.SCION.SrcIA, Src: dst, Dst: src, Path: rev, SrcPort: p.UDP.DstPort, DstPort: p.UDP.SrcPort, Payload: pay,
		HBH: rapid.IntRange(0, 5).Draw(t, "hbh") == 2}
	var opts []*slayers.EndToEndOption
	for i := rapid.IntRange(0, 2).Draw(t, "nopts"); i > 0; i-- {
		switch rapid.SampledFrom([]string{"ts253", "ts253", "spao-badlen", "spao-server", "other"}).Draw(t, "opt") {
		case "ts253":
			var near []time.Time
			if q := p.UDP.Payload; len(q) >= 48 {
				// the request's transmit timestamp (the client's clock reading before it sent the request)
				sec, frac := binary.BigEndian.Uint32(q[40:]), binary.BigEndian.Uint32(q[44:])
				near = []time.Time{time.Unix(int64(sec)-2208988800, int64(uint64(frac)*1e9>>32))}
			}
			opts = append(opts, &slayers.EndToEndOption{OptType: 253, OptData: cmsgBody(t, near...)})
		case "spao-badlen":
			n := rapid.IntRange(0, 40).Draw(t, "spaolen")
			d := make([]byte, n)
			if n >= 5 {
				binary.BigEndian.PutUint32(d, 1<<17|123)
			}
			opts = append(opts, &slayers.EndToEndOption{OptType: slayers.OptTypeAuthenticator, OptData: d})
		case "spao-server":
			o := wire.NewAuthOpt(1<<17|123, 0)
			copy(o.OptData[12:], rapid.SliceOfN(rapid.Byte(), 16, 16).Draw(t, "mac"))
			opts = append(opts, o)
		case "other":
			opts = append(opts, &slayers.EndToEndOption{OptType: slayers.OptionType(rapid.SampledFrom([]int{0, 1, 200, 255}).Draw(t, "ot")), OptData: rapid.SliceOfN(rapid.Byte(), 0, 20).Draw(t, "od")})
		}
	}
	if len(opts) > 0 {
		out.E2E = opts
	}
	if rapid.IntRange(0, 6).Draw(t, "scmp") == 3 {
		out.SCMP = &wire.SCMPSpec{Type: slayers.SCMPType(rapid.SampledFrom([]int{1, 2, 4, 5, 128, 129, 131}).Draw(t, "st")), Data: rapid.SliceOfN(rapid.Byte(), 0, 60).Draw(t, "sd")}
		out.E2E = nil
	}
	raw, err := out.Serialize(nil, nil)
	if err != nil {
		return nil
	}
	raw, _ = patchSCION(t, raw)
	return [][]byte{raw}
}

var recCl = ev.New("c08/clients", "rapid: the real clients run inside a child process (long-lived IPClient with interleaved mode, IPClient with NTS after a real key exchange, SCIONClient with and without packet authentication, CSPTP client, NTS-KE fetcher) against hostile servers played by the parent: NTP replies {genuine, extreme timestamps, header bytes, truncated, random, trailing bytes}; NTS replies sealed with the real session keys {genuine, extension-field edits, hostile plaintext inside a valid authenticator (field length 0/1/2/3/0xffff, garbage), 9..40 cookies, cookies of 0..1000 bytes}; SCION replies wrapping those with patched headers (address type/length nibbles, path type, length lies), end-to-end options (option 253 with crafted control messages, authenticators of 0..40 bytes, forged server authenticators), hop-by-hop extension, SCMP messages; CSPTP Sync/Follow_Up replies with field and length lies; NTS-KE record streams with lying lengths. 1..3 consecutive calls per script. Oracle: the child stays alive and every call returns (value or error) within its deadline plus slack. One evaluation = one client call. Non-trivial: replies derived from the client's actual request (origin echoed); distinct by case hash")

func TestPropClientResponses(t *testing.T) {
	h, err := getHost()
	if err != nil {
		vt.Inconclusive(t, "cannot start hostile servers: %v", err)
	}
	defer func() {
		cvMu.Lock()
		if cvictim != nil {
			cvictim.kill()
		}
		cvMu.Unlock()
	}()
	hostIP := netlab.AddrN(12).String()
	vt.Check(t, 350, 5000, func(t *rapid.T) {
		v, err := getClientVictim()
		if err != nil {
			vt.Inconclusive(t, "cannot start clients victim: %v", err)
		}
		c := clientCase{Kind: rapid.SampledFrom([]string{"ipclient", "ipclient", "ipclient-nts", "ipclient-nts", "scionclient", "scionclient", "scionclient-auth", "csptpclient", "fetch"}).Draw(t, "kind"),
			Rounds: rapid.IntRange(1, 3).Draw(t, "rounds")}
		var log []string
		derived := false
		// reply builders draw from t: they run on this (the test's) goroutine, fed through h.reqCh
		var build func(req []byte, port int) [][]byte
		callWait := 3 * time.Second
		func() {
			h.mu.Lock()
			defer h.mu.Unlock() // draws below may unwind (rapid stops a case by panicking): never leave the lock held
			h.keRecs, h.keHold = nil, false
			switch c.Kind {
			case "ipclient":
				build = func(req []byte, _ int) [][]byte {
					var out [][]byte
					for i := rapid.IntRange(1, 3).Draw(t, "nreplies"); i > 0; i-- {
						b, note := mutateNTPReply(t, genuineNTPReply(req))
						out = append(out, b)
						log = append(log, note)
						c.Replies = append(c.Replies, reply{hx(b[:min(len(b), 100)]), note})
					}
					derived = true
					return out
				}
			case "ipclient-nts":
				build = func(req []byte, _ int) [][]byte {
					h.mu.Lock()
					k := h.keys.s2c
					h.mu.Unlock()
					b, note := ntsReply(t, req, genuineNTPReply(req), k)
					log = append(log, note)
					c.Replies = append(c.Replies, reply{hx(b[:min(len(b), 160)]), note})
					derived = true
					return [][]byte{b}
				}
			case "scionclient", "scionclient-auth":
				build = func(req []byte, _ int) [][]byte {
					out := scionReplies(t, req)
					for _, b := range out {
						c.Replies = append(c.Replies, reply{hx(b[:min(len(b), 160)]), "scion"})
					}
					derived = true
					return out
				}
			case "csptpclient":
				build = func(req []byte, port int) [][]byte {
					out := csptpReplies(t, req, port)
					for _, b := range out {
						c.Replies = append(c.Replies, reply{hx(b), "csptp"})
					}
					derived = true
					return out
				}
			case "fetch":
				it := genKEItem(t)
				if it.Target == "ntske-raw" {
					it = genKEItem(t)
				}
				// one exchange in eight: the server stops there but keeps the connection open (longer than this harness waits)
				hold := rapid.IntRange(0, 7).Draw(t, "ke-hold") == 0
				h.keRecs, h.keHold = it.data(), hold
				if hold {
					c.Rounds = 1
					callWait = 12 * time.Second // connection establishment and the record exchange are bounded by 5 s each
				}
				c.Replies = append(c.Replies, reply{it.Hex, "ke-stream" + map[bool]string{true: " (connection held open)", false: ""}[hold]})
			}
		}()
		var line string
		switch c.Kind {
		case "ipclient":
			line = fmt.Sprintf("ipclient %s 123", hostIP)
		case "ipclient-nts":
			line = fmt.Sprintf("ipclient-nts %s %d", hostIP, h.ke.Addr.Port)
		case "fetch":
			line = fmt.Sprintf("fetch %s %d", hostIP, h.ke.Addr.Port)
		case "scionclient", "scionclient-auth":
			line = fmt.Sprintf("%s %s 123", c.Kind, hostIP)
		case "csptpclient":
			line = fmt.Sprintf("csptpclient %s", hostIP)
		}
		h.mu.Lock()
		h.active = build != nil
		h.mu.Unlock()
		for r := 0; r < c.Rounds; r++ {
			ok := serveCall(v, h, line, build, callWait)
			if !v.alive() {
				time.Sleep(50 * time.Millisecond)
				trace := v.stderrTail()
				sig := crashSignature(trace)
				if kf.Known("C08", sig) {
					recCl.Known(sig)
					return
				}
				t.Fatalf("the client process terminated during %q answered with %v\nsignature: %s\n%s", line, log, sig, trace)
			}
			if !ok {
				v.kill()
				t.Fatalf("client call %q did not return within %v (deadline 120 ms) when answered with %v; replies %+v", line, callWait, log, c.Replies)
			}
		}
		h.mu.Lock()
		h.active = false
		h.mu.Unlock()
		b, _ := json.Marshal(c)
		recCl.Eval(derived, ev.Hash(b), func() any { return c }, c.Kind)
		if c.Rounds > 1 {
			recCl.Count(int64(c.Rounds - 1))
		}
	})
}

var _ = strings.Contains

// serveCall sends the control line to the child and, until the child reports DONE, answers the requests its
// client sends to the hostile servers by running build on the calling (test) goroutine.
func serveCall(v *victim, h *hostile, line string, build func([]byte, int) [][]byte, timeout time.Duration) bool {
	for {
		select {
		case <-v.lines:
			continue
		default:
		}
		break
	}
	if _, err := v.stdin.Write([]byte(line + "\n")); err != nil {
		return false
	}
	deadline := time.After(timeout)
	for {
		select {
		case l := <-v.lines:
			if strings.HasPrefix(l, "DONE") {
				return true
			}
		case br := <-h.reqCh:
			var out [][]byte
			if build != nil {
				out = build(br.req, br.port)
			}
			br.resp <- out
		case <-v.dead:
			return false
		case <-deadline:
			return false
		}
	}
}
