package c08

import (
	"bytes"
	"encoding/binary"
	"encoding/hex"
	"net"
	"time"

	"github.com/miscreant/miscreant.go"
	"github.com/scionproto/scion/pkg/addr"
	"github.com/scionproto/scion/pkg/slayers"
	"golang.org/x/sys/unix"
	"pgregory.net/rapid"

	"example.com/scion-time/net/csptp"
	"example.com/scion-time/net/ntp"
	"example.com/scion-time/net/nts"
	"example.com/scion-time/net/ntske"

	"verif/internal/netlab"
	"verif/internal/wire"
)

func hx(b []byte) string { return hex.EncodeToString(b) }

var evilLens = []int{0, 1, 2, 3, 4, 5, 7, 8, 0xffff, 0xfffc, 0x8000}

func ntpHeader(t *rapid.T) []byte {
	var q ntp.Packet
	q.SetVersion(4)
	q.SetMode(ntp.ModeClient)
	q.TransmitTime = ntp.Time64{Seconds: rapid.Uint32().Draw(t, "txs"), Fraction: rapid.Uint32().Draw(t, "txf")}
	b := make([]byte, 48)
	ntp.EncodePacket(&b, &q)
	return b
}

// validNTSRequest builds a well-formed NTS request with a cookie sealed under the victim's current key.
func validNTSRequest(t *rapid.T, v *victim) ([]byte, []byte) {
	c2s := rapid.SliceOfN(rapid.Byte(), 32, 32).Draw(t, "c2s")
	s2c := rapid.SliceOfN(rapid.Byte(), 32, 32).Draw(t, "s2c")
	sc := ntske.ServerCookie{Algo: ntske.AES_SIV_CMAC_256, S2C: s2c, C2S: c2s}
	enc, err := sc.EncryptWithNonce(v.key, v.keyID)
	if err != nil {
		panic(err)
	}
	var d ntske.Data
	d.C2sKey, d.S2cKey = c2s, s2c
	for i := 0; i < rapid.IntRange(1, 8).Draw(t, "pool"); i++ {
		d.Cookie = append(d.Cookie, enc.Encode())
	}
	p, _ := nts.NewRequestPacket(d)
	b := ntpHeader(t)
	nts.EncodePacket(&b, &p)
	return b, c2s
}

// mutateExtFields applies 1..3 structure-aware edits to the extension fields of an NTS packet.
func mutateExtFields(t *rapid.T, b []byte) ([]byte, string) {
	note := ""
	for k := rapid.IntRange(1, 3).Draw(t, "nedits"); k > 0; k-- {
		// locate fields
		var offs []int
		for pos := 48; pos+4 <= len(b); {
			offs = append(offs, pos)
			l := int(binary.BigEndian.Uint16(b[pos+2:]))
			if l < 4 {
				break
			}
			pos += l
		}
		if len(offs) == 0 {
			return b, note
		}
		o := rapid.SampledFrom(offs).Draw(t, "field")
		switch rapid.SampledFrom([]string{"len", "len-rel", "type", "dup", "drop", "cookie-tlv", "cookie-rebuilt", "cookie-rebuilt", "auth-lens", "truncate", "garbage-cookie"}).Draw(t, "edit") {
		case "len":
			binary.BigEndian.PutUint16(b[o+2:], uint16(rapid.SampledFrom(evilLens).Draw(t, "evillen")))
			note += "len;"
		case "len-rel":
			l := int(binary.BigEndian.Uint16(b[o+2:]))
			binary.BigEndian.PutUint16(b[o+2:], uint16(l+rapid.SampledFrom([]int{-4, -1, 1, 4, 8}).Draw(t, "dl")))
			note += "len-rel;"
		case "type":
			binary.BigEndian.PutUint16(b[o:], rapid.SampledFrom([]uint16{0x104, 0x204, 0x304, 0x404, 0, 0xffff, 0x8204}).Draw(t, "typ"))
			note += "type;"
		case "dup":
			l := int(binary.BigEndian.Uint16(b[o+2:]))
			if l >= 4 && o+l <= len(b) {
				b = append(append(bytes.Clone(b[:o+l]), b[o:o+l]...), b[o+l:]...)
			}
			note += "dup;"
		case "drop":
			l := int(binary.BigEndian.Uint16(b[o+2:]))
			if l >= 4 && o+l <= len(b) {
				b = append(bytes.Clone(b[:o]), b[o+l:]...)
			}
			note += "drop;"
		case "cookie-tlv": // lengths inside the cookie's own TLV structure
			if binary.BigEndian.Uint16(b[o:]) == 0x204 && o+12 < len(b) {
				tl := rapid.SampledFrom([]int{2, 8, 8 + 4 + 16 + 2}).Draw(t, "tlvoff") // key id len, nonce len, ciphertext len
				if o+4+tl+2 <= len(b) {
					binary.BigEndian.PutUint16(b[o+4+tl:], uint16(rapid.SampledFrom([]int{0, 1, 15, 17, 32, 200, 0xffff}).Draw(t, "tlvlen")))
				}
			}
			note += "cookie-tlv;"
		case "garbage-cookie": // valid key id TLV followed by garbage of any length 0..40
			if binary.BigEndian.Uint16(b[o:]) == 0x204 {
				l := int(binary.BigEndian.Uint16(b[o+2:]))
				n := rapid.IntRange(0, 40).Draw(t, "glen")
				body := append(bytes.Clone(b[o+4:min(o+10, len(b))]), rapid.SliceOfN(rapid.Byte(), n, n).Draw(t, "garbage")...)
				nl := (4 + len(body) + 3) &^ 3
				f := make([]byte, nl)
				copy(f, b[o:o+2])
				binary.BigEndian.PutUint16(f[2:], uint16(4+len(body))) // deliberately not padded
				copy(f[4:], body)
				if o+l <= len(b) && l >= 4 {
					b = append(append(bytes.Clone(b[:o]), f...), b[o+l:]...)
				}
			}
			note += "garbage-cookie;"
		case "cookie-rebuilt": // a consistent cookie (key id of the live key, nonce, ciphertext) with a nonce / ciphertext of another length
			if binary.BigEndian.Uint16(b[o:]) == 0x204 {
				l := int(binary.BigEndian.Uint16(b[o+2:]))
				if l >= 4+6+4+16+4 && o+l <= len(b) {
					ck := b[o+4 : o+l]
					nn := rapid.SampledFrom([]int{0, 1, 8, 12, 15, 17, 24, 32, 64}).Draw(t, "cookie-nonce-len")
					cn := rapid.SampledFrom([]int{0, 1, 16, 78, 94, 95}).Draw(t, "cookie-ct-len")
					body := bytes.Clone(ck[:6])                              // key id TLV
					body = append(body, ck[6], ck[7], byte(nn>>8), byte(nn)) // nonce TLV header
					body = append(body, rapid.SliceOfN(rapid.Byte(), nn, nn).Draw(t, "cookie-nonce")...)
					body = append(body, ck[6+4+16], ck[6+4+16+1], byte(cn>>8), byte(cn)) // ciphertext TLV header
					body = append(body, rapid.SliceOfN(rapid.Byte(), cn, cn).Draw(t, "cookie-ct")...)
					f := make([]byte, 4+(len(body)+3)&^3)
					copy(f, b[o:o+2])
					binary.BigEndian.PutUint16(f[2:], uint16(len(f)))
					if rapid.Bool().Draw(t, "exact-len") {
						binary.BigEndian.PutUint16(f[2:], uint16(4+len(body)))
					}
					copy(f[4:], body)
					b = append(append(bytes.Clone(b[:o]), f...), b[o+l:]...)
				}
			}
			note += "cookie-rebuilt;"
		case "auth-lens":
			if binary.BigEndian.Uint16(b[o:]) == 0x404 && o+8 <= len(b) {
				binary.BigEndian.PutUint16(b[o+4:], uint16(rapid.IntRange(0, 64).Draw(t, "noncelen")))
				if rapid.Bool().Draw(t, "also-ct") {
					binary.BigEndian.PutUint16(b[o+6:], uint16(rapid.SampledFrom([]int{0, 1, 15, 16, 17, 64, 0xffff}).Draw(t, "ctlen")))
				}
			}
			note += "auth-lens;"
		case "truncate":
			if len(b) > 49 {
				b = b[:rapid.IntRange(48, len(b)-1).Draw(t, "cut")]
			}
			note += "truncate;"
		}
	}
	return b, note
}

// oddAuthenticNTS builds a request that authenticates (valid cookie under the victim's key, authenticator sealed
// with the cookie's C2S key by the harness's own encoder) but has an unusual shape: long unique identifier, many
// or large placeholder fields, extra cookie fields. Anyone can obtain such keys with a key exchange.
func oddAuthenticNTS(t *rapid.T, v *victim) []byte {
	c2s := rapid.SliceOfN(rapid.Byte(), 32, 32).Draw(t, "c2s")
	s2c := rapid.SliceOfN(rapid.Byte(), 32, 32).Draw(t, "s2c")
	sc := ntske.ServerCookie{Algo: ntske.AES_SIV_CMAC_256, S2C: s2c, C2S: c2s}
	enc, err := sc.EncryptWithNonce(v.key, v.keyID)
	if err != nil {
		panic(err)
	}
	field := func(typ uint16, body []byte) []byte {
		f := make([]byte, 4+(len(body)+3)&^3)
		binary.BigEndian.PutUint16(f, typ)
		binary.BigEndian.PutUint16(f[2:], uint16(len(f)))
		copy(f[4:], body)
		return f
	}
	b := ntpHeader(t)
	uidLen := rapid.SampledFrom([]int{32, 32, 33, 64, 200, 600, 1000, 1100, 1150, 1190, 1200, 1500, 0, 1, 4, 24, 28, 31}).Draw(t, "uidlen")
	b = append(b, field(0x104, bytes.Repeat([]byte{0x5a}, uidLen))...)
	b = append(b, field(0x204, enc.Encode())...)
	for i := rapid.SampledFrom([]int{0, 0, 1, 3}).Draw(t, "extracookies"); i > 0; i-- {
		b = append(b, field(0x204, enc.Encode())...)
	}
	np := rapid.SampledFrom([]int{0, 1, 7, 8, 9, 12, 40, 100}).Draw(t, "nplaceholders")
	pl := rapid.SampledFrom([]int{0, 4, 16, 124, 300}).Draw(t, "placeholderlen")
	for i := 0; i < np && len(b)+4+pl+48 < 2040; i++ {
		b = append(b, field(0x304, make([]byte, pl))...)
	}
	if len(b)+48 > 2048 {
		b = b[:48+4+(uidLen+3)&^3]
		b = append(b, field(0x204, enc.Encode())...)
	}
	aead, err := miscreant.NewAEAD("AES-CMAC-SIV", c2s, 16)
	if err != nil {
		panic(err)
	}
	nonce := rapid.SliceOfN(rapid.Byte(), 16, 16).Draw(t, "nonce")
	ct := aead.Seal(nil, nonce, nil, b)
	auth := make([]byte, 4+16+len(ct))
	binary.BigEndian.PutUint16(auth, 16)
	binary.BigEndian.PutUint16(auth[2:], uint16(len(ct)))
	copy(auth[4:], nonce)
	copy(auth[20:], ct)
	return append(b, field(0x404, auth)...)
}

func genNTPItem(t *rapid.T, v *victim) item {
	if rapid.IntRange(0, 3).Draw(t, "odd-authentic") == 2 {
		return item{Target: "ntp", Hex: hx(oddAuthenticNTS(t, v)), Note: "nts-authentic-odd-shape"}
	}
	switch rapid.IntRange(0, 3).Draw(t, "ntpkind") {
	case 0:
		n := rapid.SampledFrom([]int{0, 1, 47, 48, 49, 52, 64, 76, 100, 1024, 2047, 2048, 2049}).Draw(t, "len")
		return item{Target: "ntp", Hex: hx(rapid.SliceOfN(rapid.Byte(), n, n).Draw(t, "raw")), Note: "raw"}
	case 1: // header + short random tail (reaches the extension-field walker)
		b := append(ntpHeader(t), rapid.SliceOfN(rapid.Byte(), 1, 80).Draw(t, "tail")...)
		if len(b) >= 52 && rapid.Bool().Draw(t, "shape") {
			binary.BigEndian.PutUint16(b[48:], rapid.SampledFrom([]uint16{0x104, 0x204, 0x304, 0x404}).Draw(t, "typ"))
			binary.BigEndian.PutUint16(b[50:], uint16(rapid.SampledFrom(evilLens).Draw(t, "l")))
		}
		return item{Target: "ntp", Hex: hx(b), Note: "hdr+tail"}
	default:
		b, _ := validNTSRequest(t, v)
		b, note := mutateExtFields(t, b)
		return item{Target: "ntp", Hex: hx(b), Note: "nts:" + note}
	}
}

// ---------------------------------------------------------------- SCION

func genSCIONBase(t *rapid.T, v *victim, r *rig, target string) (wire.Pkt, []*slayers.EndToEndOption) {
	c := r.socks[target]
	src := c.LocalAddr().(*net.UDPAddr).AddrPort().Addr()
	p := wire.Pkt{SrcIA: addr.IA(rapid.Uint64().Draw(t, "sia")), DstIA: addr.IA(rapid.Uint64().Draw(t, "dia")), Src: src, Dst: v.ip, SrcPort: rapid.Uint16Range(1, 65535).Draw(t, "sport"), HBH: rapid.IntRange(0, 5).Draw(t, "hbh") == 3}
	ps := wire.PathSpec{Kind: rapid.SampledFrom([]string{"empty", "empty", "scion", "onehop"}).Draw(t, "pk"), Seed: rapid.Uint64().Draw(t, "pseed")}
	if ps.Kind == "scion" {
		n := rapid.IntRange(1, 3).Draw(t, "nseg")
		tot := 0
		for i := 0; i < n; i++ {
			l := rapid.IntRange(1, 5).Draw(t, "sl")
			ps.SegLens = append(ps.SegLens, l)
			tot += l
		}
		ps.CurrHF = rapid.IntRange(0, tot-1).Draw(t, "chf")
		acc := 0
		for i, l := range ps.SegLens {
			if ps.CurrHF < acc+l {
				ps.CurrINF = i
				break
			}
			acc += l
		}
	}
	p.Path, _ = ps.SlayersPath()
	switch rapid.SampledFrom([]string{"ntp", "ntp", "scmp-echo", "scmp-tr", "scmp-other", "udp-app", "nts"}).Draw(t, "l4") {
	case "ntp":
		p.Payload, p.DstPort = ntpHeader(t), vSCIONPort
		if rapid.IntRange(0, 3).Draw(t, "ntp-other-port") == 0 {
			p.DstPort = uint16(rapid.SampledFrom([]int{0, 1, 30041, 123, appPortC08}).Draw(t, "ntp-port"))
		}
	case "nts":
		b, _ := validNTSRequest(t, v)
		switch rapid.IntRange(0, 2).Draw(t, "mutnts") {
		case 1:
			b, _ = mutateExtFields(t, b)
		case 2:
			b = oddAuthenticNTS(t, v)
		}
		p.Payload, p.DstPort = b, vSCIONPort
		// time requests addressed to other UDP ports: 0 and 1 (the ports of the local addresses the forwarder
		// and the listeners were started with), the end-host port, the standard NTP port, an application's
		if target == "disp" || rapid.IntRange(0, 2).Draw(t, "nts-other-port") == 0 {
			p.DstPort = uint16(rapid.SampledFrom([]int{0, 1, 1, 30041, 123, appPortC08, vSCIONPort}).Draw(t, "nts-port"))
		}
	case "scmp-echo":
		p.SCMP = &wire.SCMPSpec{Type: slayers.SCMPTypeEchoRequest, Identifier: 7, Seq: 9, Data: rapid.SliceOfN(rapid.Byte(), 0, 64).Draw(t, "echo")}
	case "scmp-tr":
		p.SCMP = &wire.SCMPSpec{Type: slayers.SCMPTypeTracerouteRequest, Identifier: 7, Seq: 9}
	case "scmp-other":
		p.SCMP = &wire.SCMPSpec{Type: slayers.SCMPType(rapid.SampledFrom([]int{1, 2, 4, 5, 6, 129, 131, 200, 255}).Draw(t, "scmptype")), Data: rapid.SliceOfN(rapid.Byte(), 0, 40).Draw(t, "scmpdata")}
	case "udp-app":
		p.Payload, p.DstPort = rapid.SliceOfN(rapid.Byte(), 0, 60).Draw(t, "apppl"), uint16(rapid.SampledFrom([]int{appPortC08, 30041, 1, 65535}).Draw(t, "appport"))
		p.Dst = r.app.LocalAddr().(*net.UDPAddr).AddrPort().Addr()
	}
	// end-to-end options
	var opts []*slayers.EndToEndOption
	for i := rapid.IntRange(0, 2).Draw(t, "nopts"); i > 0; i-- {
		switch rapid.SampledFrom([]string{"spao", "spao-badlen", "ts253", "other"}).Draw(t, "opt") {
		case "spao":
			spi := rapid.SampledFrom([]uint32{1<<17 | 1<<16 | 123, 1<<17 | 123, 0, 0xffffffff, 1<<17 | 1<<16 | 124}).Draw(t, "spi")
			o := wire.NewAuthOpt(spi, uint8(rapid.SampledFrom([]int{0, 0, 1, 255}).Draw(t, "algo")))
			copy(o.OptData[12:], rapid.SliceOfN(rapid.Byte(), 16, 16).Draw(t, "mac"))
			opts = append(opts, o)
		case "spao-badlen":
			n := rapid.IntRange(0, 40).Draw(t, "spaolen")
			d := make([]byte, n)
			if n >= 5 {
				binary.BigEndian.PutUint32(d, 1<<17|1<<16|123)
			}
			opts = append(opts, &slayers.EndToEndOption{OptType: slayers.OptTypeAuthenticator, OptData: d})
		case "ts253":
			opts = append(opts, &slayers.EndToEndOption{OptType: 253, OptData: cmsgBody(t)})
		case "other":
			opts = append(opts, &slayers.EndToEndOption{OptType: slayers.OptionType(rapid.SampledFrom([]int{0, 1, 3, 4, 200, 254, 255}).Draw(t, "otype")), OptData: rapid.SliceOfN(rapid.Byte(), 0, 30).Draw(t, "odata")})
		}
	}
	if len(opts) > 0 && p.SCMP == nil {
		p.E2E = opts
	}
	return p, opts
}

// cmsgBody builds option-253 bodies: what udp.TimestampFromOOBData expects (a control message), well-formed or hostile.
//
// With near (the transmit timestamp of the request being answered, as a time), well-formed bodies may also
// carry an instant within nanoseconds to milliseconds of it: before, at and just after the request was sent.
func cmsgBody(t *rapid.T, near ...time.Time) []byte {
	kinds := []string{"valid", "two-stamps", "hw-and-sw", "short", "len-lie", "random", "timestampns"}
	if len(near) > 0 {
		kinds = append(kinds, "near-valid", "near-timestampns", "near-valid", "near-timestampns")
	}
	kind := rapid.SampledFrom(kinds).Draw(t, "cmsg")
	if kind == "near-valid" || kind == "near-timestampns" {
		d := rapid.SampledFrom([]int64{-1000000, -1000, -1, 0, 1, 2, 10, 100, 1000, 3000, 10000, 30000, 100000, 1000000, 10000000}).Draw(t, "near-delta-ns")
		ts := near[0].Add(time.Duration(d))
		n := 48
		if kind == "near-timestampns" {
			n = 16
		}
		b := make([]byte, unix.CmsgSpace(n))
		binary.LittleEndian.PutUint64(b[0:], uint64(unix.CmsgLen(n)))
		binary.LittleEndian.PutUint32(b[8:], uint32(unix.SOL_SOCKET))
		if n == 48 {
			binary.LittleEndian.PutUint32(b[12:], uint32(unix.SO_TIMESTAMPING_NEW))
		} else {
			binary.LittleEndian.PutUint32(b[12:], uint32(unix.SCM_TIMESTAMPNS))
		}
		binary.LittleEndian.PutUint64(b[16:], uint64(ts.Unix()))
		binary.LittleEndian.PutUint64(b[24:], uint64(ts.Nanosecond()))
		return b
	}
	b := make([]byte, unix.CmsgSpace(48))
	h := func(l uint64, level, typ int32) {
		binary.LittleEndian.PutUint64(b[0:], l)
		binary.LittleEndian.PutUint32(b[8:], uint32(level))
		binary.LittleEndian.PutUint32(b[12:], uint32(typ))
	}
	sec := uint64(rapid.SampledFrom([]int64{1, 1700000000, 4102444800, 1 << 40}).Draw(t, "sec"))
	switch kind {
	case "valid":
		h(uint64(unix.CmsgSpace(48)), unix.SOL_SOCKET, unix.SO_TIMESTAMPING_NEW)
		binary.LittleEndian.PutUint64(b[16:], sec)
		binary.LittleEndian.PutUint64(b[24:], 5)
	case "two-stamps": // software and hardware timestamps both set: "unexpected timestamping behavior"
		h(uint64(unix.CmsgSpace(48)), unix.SOL_SOCKET, unix.SO_TIMESTAMPING_NEW)
		binary.LittleEndian.PutUint64(b[16:], sec)
		binary.LittleEndian.PutUint64(b[16+32:], sec)
	case "hw-and-sw":
		h(uint64(unix.CmsgSpace(48)), unix.SOL_SOCKET, unix.SO_TIMESTAMPING_NEW)
		binary.LittleEndian.PutUint64(b[16:], 0)
		binary.LittleEndian.PutUint64(b[16+16:], sec)
	case "short":
		return b[:rapid.IntRange(0, 20).Draw(t, "short")]
	case "len-lie":
		h(uint64(rapid.SampledFrom([]int{0, 1, 15, 16, 17, 63, 65, 1 << 20}).Draw(t, "clen")), unix.SOL_SOCKET, unix.SO_TIMESTAMPING_NEW)
	case "timestampns":
		b = make([]byte, unix.CmsgSpace(16))
		binary.LittleEndian.PutUint64(b[0:], uint64(unix.CmsgSpace(16)))
		binary.LittleEndian.PutUint32(b[8:], uint32(unix.SOL_SOCKET))
		binary.LittleEndian.PutUint32(b[12:], uint32(unix.SCM_TIMESTAMPNS))
		binary.LittleEndian.PutUint64(b[16:], sec)
	default:
		return rapid.SliceOfN(rapid.Byte(), 0, 80).Draw(t, "rnd")
	}
	return b
}

// patchSCION applies byte-level lies to a serialized SCION packet.
func patchSCION(t *rapid.T, raw []byte) ([]byte, string) {
	note := ""
	for k := rapid.IntRange(0, 2).Draw(t, "npatch"); k > 0 && len(raw) > 12; k-- {
		switch rapid.SampledFrom([]string{"addrtypes", "svc-src", "svc-dst", "pathtype", "hdrlen", "payloadlen", "nexthdr", "udplen", "truncate", "version", "bytes"}).Draw(t, "patch") {
		case "svc-src": // a service address where a host address is expected: same length as IPv4, everything else intact
			if raw[9]&0x0f == 0x00 {
				raw[9] |= 0x04
			}
			note += "svc-src;"
		case "svc-dst":
			if raw[9]&0xf0 == 0x00 {
				raw[9] |= 0x40
			}
			note += "svc-dst;"
		case "addrtypes":
			// address type/length nibbles (destination, source): IPv4, IPv6, service address (same length as IPv4,
			// so the packet stays well-formed), unassigned types and lengths
			nib := rapid.SampledFrom([]byte{0x0, 0x3, 0x4, 0x4, 0x1, 0x2, 0x5, 0x7, 0x8, 0xc, 0xf})
			raw[9] = nib.Draw(t, "dtdl")<<4 | nib.Draw(t, "stsl")
			if rapid.IntRange(0, 3).Draw(t, "anybyte") == 0 {
				raw[9] = rapid.Byte().Draw(t, "dtdlstsl")
			}
			note += "addrtypes;"
		case "pathtype":
			raw[8] = byte(rapid.SampledFrom([]int{0, 1, 2, 3, 4, 5, 100, 255}).Draw(t, "ptype"))
			note += "pathtype;"
		case "hdrlen":
			raw[5] = byte(rapid.SampledFrom([]int{0, 1, 8, 9, int(raw[5]) - 1, int(raw[5]) + 1, 255}).Draw(t, "hl"))
			note += "hdrlen;"
		case "payloadlen":
			binary.BigEndian.PutUint16(raw[6:], uint16(rapid.SampledFrom([]int{0, 1, 7, 8, 0xffff, int(binary.BigEndian.Uint16(raw[6:])) - 1, int(binary.BigEndian.Uint16(raw[6:])) + 1}).Draw(t, "pl")))
			note += "payloadlen;"
		case "nexthdr":
			raw[4] = byte(rapid.SampledFrom([]int{0, 6, 17, 200, 201, 202, 253, 255}).Draw(t, "nh"))
			note += "nexthdr;"
		case "udplen": // the UDP length field sits 4 bytes into the L4 header: search from the end for our payload start
			if p, err := wire.Parse(raw); err == nil && p.IsUDP {
				off := len(raw) - len(p.L4Bytes)
				binary.BigEndian.PutUint16(raw[off+4:], uint16(rapid.SampledFrom([]int{0, 1, 7, 8, 9, len(p.L4Bytes) - 1, len(p.L4Bytes) + 1, 0xffff}).Draw(t, "ul")))
			}
			note += "udplen;"
		case "truncate":
			raw = raw[:rapid.IntRange(0, len(raw)-1).Draw(t, "cut")]
			note += "truncate;"
		case "version":
			raw[0] = rapid.Byte().Draw(t, "b0")
			note += "version;"
		case "bytes":
			for i := rapid.IntRange(1, 4).Draw(t, "nb"); i > 0; i-- {
				raw[rapid.IntRange(0, len(raw)-1).Draw(t, "pos")] = rapid.Byte().Draw(t, "val")
			}
			note += "bytes;"
		}
	}
	return raw, note
}

func genSCIONItem(t *rapid.T, v *victim, r *rig, target string) item {
	if rapid.IntRange(0, 7).Draw(t, "rawscion") == 3 {
		n := rapid.SampledFrom([]int{0, 1, 11, 12, 35, 36, 37, 48, 100, 1400, 9000}).Draw(t, "len")
		return item{Target: target, Hex: hx(rapid.SliceOfN(rapid.Byte(), n, n).Draw(t, "raw")), Note: "raw"}
	}
	p, _ := genSCIONBase(t, v, r, target)
	raw, err := p.Serialize(nil, nil)
	if err != nil {
		return item{Target: target, Hex: "", Note: "unserializable"}
	}
	raw, note := patchSCION(t, raw)
	return item{Target: target, Hex: hx(raw), Note: note}
}

// ---------------------------------------------------------------- CSPTP, NTS-KE

func genCSPTPItem(t *rapid.T, target string) item {
	if rapid.IntRange(0, 3).Draw(t, "rawcsptp") == 2 {
		n := rapid.SampledFrom([]int{0, 1, 43, 44, 45, 57, 58, 80, 97, 98, 99, 200}).Draw(t, "len")
		return item{Target: target, Hex: hx(rapid.SliceOfN(rapid.Byte(), n, n).Draw(t, "raw")), Note: "raw"}
	}
	typ := rapid.SampledFrom([]uint8{csptp.MessageTypeSync, csptp.MessageTypeFollowUp, 1, 9, 0xff}).Draw(t, "mtype")
	msg := csptp.Message{SdoIDMessageType: typ, PTPVersion: csptp.PTPVersion, MessageLength: csptp.MinMessageLength, FlagField: csptp.FlagUnicast, SequenceID: rapid.Uint16().Draw(t, "seq")}
	b := make([]byte, csptp.MinMessageLength, 200)
	if typ == csptp.MessageTypeFollowUp || rapid.Bool().Draw(t, "withtlv") {
		tlv := csptp.RequestTLV{Type: csptp.TLVTypeOrganizationExtension, OrganizationID: [3]uint8{csptp.OrganizationIDMeinberg0, csptp.OrganizationIDMeinberg1, csptp.OrganizationIDMeinberg2},
			OrganizationSubType: [3]uint8{csptp.OrganizationSubTypeRequest0, csptp.OrganizationSubTypeRequest1, csptp.OrganizationSubTypeRequest2},
			FlagField:           rapid.SampledFrom([]uint32{0, 1, 0xffffffff}).Draw(t, "tlvflag")}
		n := csptp.EncodedRequestTLVLength(&tlv)
		b = b[:csptp.MinMessageLength+n]
		csptp.EncodeRequestTLV(b[csptp.MinMessageLength:], &tlv)
		msg.MessageLength += uint16(n)
		if rapid.Bool().Draw(t, "tlvcut") {
			b = b[:rapid.IntRange(csptp.MinMessageLength, len(b)).Draw(t, "cut")]
		}
	}
	switch rapid.IntRange(0, 3).Draw(t, "lenlie") {
	case 0:
		msg.MessageLength = uint16(rapid.SampledFrom([]int{0, 1, 43, 44, 45, 98, 99, 0xffff}).Draw(t, "ml"))
	case 1:
		msg.MessageLength = uint16(len(b))
	}
	csptp.EncodeMessage(b[:csptp.MinMessageLength], &msg)
	// a prefix of a well-formed message, shorter than the fixed header, whose length field agrees with what is left
	// (a consistent truncation passes every "length field == datagram length" test on its way)
	if rapid.IntRange(0, 4).Draw(t, "short-consistent") == 0 {
		n := rapid.IntRange(4, csptp.MinMessageLength-1).Draw(t, "short-len")
		b = b[:n:n]
		b[2], b[3] = 0, byte(n)
		return item{Target: target, Hex: hx(b), Note: "csptp short, consistent length field"}
	}
	return item{Target: target, Hex: hx(b), Note: "csptp"}
}

// a TLS 1.3 ClientHello record as Go's client sends it is ~250 bytes; a prefix of a well-formed record header makes
// the peer wait for the rest
var clientHelloPrefix = []byte{0x16, 0x03, 0x01, 0x00, 0xf8, 0x01, 0x00, 0x00, 0xf4, 0x03, 0x03}

func genKEItem(t *rapid.T) item {
	it := genKEItem0(t)
	// a slow or silent peer: the connection stays open while the listener's liveness is checked
	it.Hold = rapid.IntRange(0, 3).Draw(t, "hold") == 0
	if it.Hold {
		it.Note += " (held open)"
	}
	return it
}

func genKEItem0(t *rapid.T) item {
	switch rapid.IntRange(0, 8).Draw(t, "rawtcp") {
	case 2:
		return item{Target: "ntske-raw", Hex: hx(rapid.SliceOfN(rapid.Byte(), 0, 300).Draw(t, "raw")), Note: "raw tcp"}
	case 3: // nothing at all, or the beginning of a handshake
		n := rapid.IntRange(0, len(clientHelloPrefix)).Draw(t, "hello-prefix")
		return item{Target: "ntske-raw", Hex: hx(clientHelloPrefix[:n]), Note: "partial ClientHello"}
	}
	var recs []netlab.Rec
	for i := rapid.IntRange(0, 6).Draw(t, "nrecs"); i > 0; i-- {
		recs = append(recs, netlab.Rec{
			Type:     rapid.SampledFrom([]uint16{0, 1, 2, 3, 4, 5, 6, 7, 8, 100, 0x7fff}).Draw(t, "rtype"),
			Critical: rapid.Bool().Draw(t, "crit"),
			Body:     rapid.SliceOfN(rapid.Byte(), 0, rapid.SampledFrom([]int{0, 1, 2, 3, 4, 40, 300}).Draw(t, "bmax")).Draw(t, "body"),
		})
	}
	b := netlab.EncodeRecs(recs)
	switch rapid.IntRange(0, 3).Draw(t, "kelie") {
	case 0: // a body length field that lies
		if len(b) >= 4 {
			binary.BigEndian.PutUint16(b[2:], uint16(rapid.SampledFrom([]int{0, 1, 0xffff, len(b), len(b) + 1}).Draw(t, "ll")))
		}
	case 1:
		if len(b) > 0 {
			b = b[:rapid.IntRange(0, len(b)-1).Draw(t, "cut")]
		}
	}
	return item{Target: "ntske", Hex: hx(b), Note: "records"}
}
