package c10

import (
	"bytes"
	"context"
	crand "crypto/rand"
	"encoding/binary"
	"encoding/hex"
	"encoding/json"
	"fmt"
	"os"
	"path/filepath"
	"testing"
	"time"

	"github.com/miscreant/miscreant.go"
	"pgregory.net/rapid"

	"example.com/scion-time/net/nts"
	"example.com/scion-time/net/ntske"

	"verif/internal/ev"
	"verif/internal/vt"
)

func TestMain(m *testing.M) { vt.Main(m) }

func hx(b []byte) string { return hex.EncodeToString(b) }

func pad4(n int) int { return (n + 3) &^ 3 }

// ---------------------------------------------------------------- independent packet walk + AEAD

type layout struct {
	authPos            int // start of the authenticator extension field
	nonceOff, nonceLen int
	ctOff, ctLen       int
	cookies            [][]byte
	uid                []byte
}

// walkOwn parses a packet produced by the project's encoder (harness's own reading of RFC 8915 §5).
func walkOwn(b []byte) (l layout, ok bool) {
	pos := 48
	for pos+4 <= len(b) {
		typ, n := binary.BigEndian.Uint16(b[pos:]), int(binary.BigEndian.Uint16(b[pos+2:]))
		if typ == 0x404 {
			// the authenticator's own extension length is neither authenticated nor needed to find its parts
			n = len(b) - pos
		}
		if n < 4 || pos+n > len(b) {
			return l, false
		}
		body := b[pos+4 : pos+n]
		switch typ {
		case 0x104:
			l.uid = body
		case 0x204:
			l.cookies = append(l.cookies, body)
		case 0x404:
			if len(body) < 4 {
				return l, false
			}
			l.authPos = pos
			l.nonceLen, l.ctLen = int(binary.BigEndian.Uint16(body)), int(binary.BigEndian.Uint16(body[2:]))
			l.nonceOff = pos + 8
			l.ctOff = l.nonceOff + pad4(l.nonceLen)
			if l.ctOff+l.ctLen > pos+n {
				return l, false
			}
			return l, true
		}
		pos += n
	}
	return l, false
}

// verifyOwn: does the packet authenticate under key (harness-side AES-SIV over all bytes before the authenticator)?
func verifyOwn(b []byte, key []byte) ([]byte, bool) {
	l, ok := walkOwn(b)
	if !ok || l.nonceLen != 16 {
		return nil, false
	}
	a, err := miscreant.NewAEAD("AES-CMAC-SIV", key, 16)
	if err != nil {
		return nil, false
	}
	pt, err := a.Open(nil, b[l.nonceOff:l.nonceOff+16], b[l.ctOff:l.ctOff+l.ctLen], b[:l.authPos])
	return pt, err == nil
}

// ---------------------------------------------------------------- real paths, panic-safe

type verdict struct {
	accepted bool
	panicked any
	cookies  [][]byte // response: cookies stored in the client's pool
	uid      []byte   // the unique identifier the code decoded (what a server echoes / a client compares)
	cookie   []byte   // request: the cookie the server would open
	nplace   int      // request: number of cookie + placeholder fields the server would answer
}

func realRequest(b, key []byte) (v verdict) {
	defer func() {
		if r := recover(); r != nil {
			v = verdict{panicked: r}
		}
	}()
	var p nts.Packet
	if err := nts.DecodePacket(&p, b); err != nil {
		return
	}
	ck, err := p.FirstCookie()
	if err != nil {
		return
	}
	if err := nts.ProcessRequest(b, key, &p); err != nil {
		return
	}
	return verdict{accepted: true, uid: p.UniqueID.ID, cookie: ck, nplace: len(p.Cookies) + len(p.CookiePlaceholders)}
}

func realResponse(b, key, reqID []byte) (v verdict) {
	defer func() {
		if r := recover(); r != nil {
			v = verdict{panicked: r}
		}
	}()
	var p nts.Packet
	if err := nts.DecodePacket(&p, b); err != nil {
		return
	}
	var f ntske.Fetcher
	if err := nts.ProcessResponse(b, key, &f, &p, reqID); err != nil {
		return
	}
	v.accepted = true
	v.uid = p.UniqueID.ID
	// read the pool back through the public API (no key exchange happens while cookies are stored)
	func() {
		defer func() { _ = recover() }()
		d, err := f.FetchData(context.Background())
		if err == nil {
			v.cookies = d.Cookie
		}
	}()
	return
}

// ---------------------------------------------------------------- cases

type pktCase struct {
	Kind      string `json:"kind"` // "request" | "response"
	C2S       string `json:"c2s"`
	S2C       string `json:"s2c"`
	Header    string `json:"ntp_header"`
	CookieLen int    `json:"cookie_len"`
	Pool      int    `json:"pool_level"`    // request: cookies in the pool before sending (placeholders = 8 - pool)
	NCookies  int    `json:"reply_cookies"` // response
	Seed      uint64 `json:"seed"`
	Nonce     uint64 `json:"nonce_stream"` // selects the deterministic crypto/rand stream
	// byte patterns at the edges of opaque values (cookies, request identifier): opaque means any bytes, including
	// 0x00 / 0xff runs where padding or terminators would be
	ZeroTail int `json:"zero_tail"` // last n bytes of every cookie and of the identifier are 0x00
	ZeroHead int `json:"zero_head"` // first n bytes likewise
	FFTail   int `json:"ff_tail"`
}

// edges applies the case's edge patterns to an opaque value.
func (c pktCase) edges(b []byte) []byte {
	for i := 0; i < c.ZeroHead && i < len(b); i++ {
		b[i] = 0
	}
	for i := 0; i < c.FFTail && i < len(b); i++ {
		b[len(b)-1-i] = 0xff
	}
	for i := 0; i < c.ZeroTail && i < len(b); i++ {
		b[len(b)-1-i] = 0
	}
	return b
}

type failer interface {
	Fatalf(format string, args ...any)
}

func mix(x uint64) uint64 {
	x += 0x9e3779b97f4a7c15
	x = (x ^ (x >> 30)) * 0xbf58476d1ce4e5b9
	x = (x ^ (x >> 27)) * 0x94d049bb133111eb
	return x ^ (x >> 31)
}

func bytesOf(seed uint64, n int) []byte {
	b := make([]byte, n)
	for i := range b {
		b[i] = byte(mix(seed+uint64(i/8)) >> (8 * uint(i%8)))
	}
	return b
}

func dh(s string) []byte { b, _ := hex.DecodeString(s); return b }

// build returns the encoded packet, the key it must verify under, the other-direction key and (response) the request id and cookies.
// detReader makes the code under test's crypto/rand draws (unique id, nonce) a pure function of the case.
type detReader struct{ ctr uint64 }

func (r *detReader) Read(p []byte) (int, error) {
	for i := range p {
		if i%8 == 0 {
			r.ctr++
		}
		p[i] = byte(mix(r.ctr) >> (8 * uint(i%8)))
	}
	return len(p), nil
}

func build(c pktCase) (b, key, otherKey, reqID []byte, cookies [][]byte) {
	oldR := crand.Reader
	crand.Reader = &detReader{ctr: c.Seed ^ c.Nonce<<20}
	defer func() { crand.Reader = oldR }()
	c2s, s2c := dh(c.C2S), dh(c.S2C)
	b = dh(c.Header)
	if c.Kind == "request" {
		var d ntske.Data
		d.C2sKey, d.S2cKey = c2s, s2c
		for i := 0; i < c.Pool; i++ {
			d.Cookie = append(d.Cookie, c.edges(bytesOf(c.Seed+uint64(1000*i), c.CookieLen)))
		}
		pkt, id := nts.NewRequestPacket(d)
		nts.EncodePacket(&b, &pkt)
		return b, c2s, s2c, id, [][]byte{d.Cookie[0]}
	}
	reqID = c.edges(bytesOf(c.Seed+7, 32))
	for i := 0; i < c.NCookies; i++ {
		cookies = append(cookies, c.edges(bytesOf(c.Seed+uint64(2000*i), c.CookieLen)))
	}
	pkt := nts.NewResponsePacket(cookies, s2c, reqID)
	nts.EncodePacket(&b, &pkt)
	return b, s2c, c2s, reqID, cookies
}

type sweepStats struct{ flips, fieldEdits, keyEdits int }

func zeroPaddedEq(got, want []byte) bool {
	if len(got) < len(want) || !bytes.Equal(got[:len(want)], want) {
		return false
	}
	for _, x := range got[len(want):] {
		if x != 0 {
			return false
		}
	}
	return true
}

func sameCookies(got, want [][]byte) bool {
	if len(got) != len(want) {
		return false
	}
	for i := range got {
		if len(got[i]) != pad4(len(want[i])) || !bytes.Equal(got[i][:len(want[i])], want[i]) {
			return false
		}
	}
	return true
}

func checkPacket(t failer, c pktCase, fullSweep bool) (st sweepStats) {
	b, key, other, reqID, cookies := build(c)
	real := func(m []byte, k []byte, id []byte) verdict {
		if c.Kind == "request" {
			return realRequest(m, k)
		}
		return realResponse(m, k, id)
	}
	// completeness
	v := real(b, key, reqID)
	if v.panicked != nil || !v.accepted {
		t.Fatalf("%s produced by the project's encoder is not accepted under its own key (panic=%v)", c.Kind, v.panicked)
	}
	if _, ok := verifyOwn(b, key); !ok {
		t.Fatalf("harness walker/AEAD does not verify the project's own %s (harness or encoder disagree with RFC 8915 layout)", c.Kind)
	}
	// a cookie is good for one request: a client keeps one copy of a cookie that a response carries several times
	// (edge patterns can make the generated cookies identical)
	var distinct [][]byte
	for _, ck := range cookies {
		dup := false
		for _, d := range distinct {
			dup = dup || bytes.Equal(d, ck)
		}
		if !dup {
			distinct = append(distinct, ck)
		}
	}
	if c.Kind == "response" && !sameCookies(v.cookies, distinct) {
		t.Fatalf("accepted response: client pool holds %d cookies, %d distinct ones were sealed (or contents differ)", len(v.cookies), len(distinct))
	}
	if c.Kind == "request" && !zeroPaddedEq(v.cookie, cookies[0]) {
		t.Fatalf("accepted request: the cookie the server would open (%x) is not the one the client sent (%x)", v.cookie, cookies[0])
	}
	if c.Kind == "request" && !zeroPaddedEq(v.uid, reqID) {
		t.Fatalf("accepted request: decoded identifier %x, sent %x", v.uid, reqID)
	}
	l, _ := walkOwn(b)
	mustReject := func(i int) bool { // byte index -> change must be rejected
		switch {
		case i < l.authPos: // authenticated bytes
			return true
		case i < l.authPos+2: // authenticator type
			return true
		case i < l.authPos+4: // authenticator's own extension length: not covered, not used
			return false
		case i < l.authPos+8: // nonce / ciphertext length fields: change the nonce / ciphertext taken
			return true
		default:
			return i < l.ctOff+l.ctLen // nonce, ciphertext (padding after it, if any, is not covered)
		}
	}
	judge := func(m []byte, what string, must bool) {
		v := real(m, key, reqID)
		if v.panicked != nil {
			t.Fatalf("%s with %s: panic instead of an error: %v", c.Kind, what, v.panicked)
		}
		if v.accepted && must {
			t.Fatalf("%s with %s was accepted (%d bytes, authenticator at %d)", c.Kind, what, len(b), l.authPos)
		}
		if v.accepted {
			// anything accepted must also verify for the independent implementation, with the sealed content
			if _, ok := verifyOwn(m, key); !ok {
				t.Fatalf("%s with %s accepted by the code but not authentic for the independent walker + AES-SIV", c.Kind, what)
			}
			if c.Kind == "response" && !sameCookies(v.cookies, distinct) {
				t.Fatalf("%s with %s accepted and delivered different cookies", c.Kind, what)
			}
		}
	}
	// single-bit sweep
	m := make([]byte, len(b))
	step := 1
	if !fullSweep {
		step = 7
	}
	for bit := int(c.Seed % uint64(step)); bit < 8*len(b); bit += step {
		copy(m, b)
		m[bit/8] ^= 1 << (bit % 8)
		judge(m, fmt.Sprintf("bit %d of byte %d flipped", bit%8, bit/8), mustReject(bit/8))
		st.flips++
	}
	// field-level edits
	pos := 48
	for pos+4 <= len(b) {
		n := int(binary.BigEndian.Uint16(b[pos+2:]))
		for _, nl := range []int{0, 1, 2, 3, 4, n - 4, n + 4, n - 1, n + 1, 0xffff} {
			if nl < 0 || nl == n {
				continue
			}
			copy(m, b)
			binary.BigEndian.PutUint16(m[pos+2:], uint16(nl))
			judge(m, fmt.Sprintf("extension length at %d set to %d (was %d)", pos, nl, n), pos < l.authPos)
			st.fieldEdits++
		}
		pos += n
	}
	for nl := 0; nl <= 40; nl++ { // nonce length field
		if nl == 16 {
			continue
		}
		copy(m, b)
		binary.BigEndian.PutUint16(m[l.authPos+4:], uint16(nl))
		judge(m, fmt.Sprintf("nonce length field set to %d", nl), true)
		st.fieldEdits++
	}
	for _, cl := range []int{0, 1, 15, 16, l.ctLen - 1, l.ctLen + 1, l.ctLen + 4, 0xffff} {
		if cl == l.ctLen || cl < 0 {
			continue
		}
		copy(m, b)
		binary.BigEndian.PutUint16(m[l.authPos+6:], uint16(cl))
		judge(m, fmt.Sprintf("ciphertext length field set to %d (was %d)", cl, l.ctLen), true)
		st.fieldEdits++
	}
	for cut := 1; cut <= 20 && cut < len(b)-48; cut++ { // truncated ciphertext
		judge(bytes.Clone(b[:len(b)-cut]), fmt.Sprintf("last %d bytes cut off", cut), true)
		st.fieldEdits++
	}
	{ // an extra (unknown) extension field inserted right before the authenticator
		extra := []byte{0x7f, 0x01, 0x00, 0x08, 1, 2, 3, 4}
		ins := append(append(bytes.Clone(b[:l.authPos]), extra...), b[l.authPos:]...)
		judge(ins, "an extension field inserted before the authenticator", true)
		// authenticator moved in front of the first field after the unique identifier
		uidLen := int(binary.BigEndian.Uint16(b[50:]))
		if l.authPos > 48+uidLen { // (a response has no field between identifier and authenticator)
			mv := append(append(bytes.Clone(b[:48+uidLen]), b[l.authPos:]...), b[48+uidLen:l.authPos]...)
			judge(mv, "the authenticator moved before the cookie fields", true)
			st.fieldEdits++
		}
		st.fieldEdits++
	}
	// fields appended behind the authenticator are not authenticated: they must not change what is accepted
	{
		nfields := 0
		fsOwn := 0
		for pos := 48; pos+4 <= l.authPos; pos += int(binary.BigEndian.Uint16(b[pos+2:])) {
			if t := binary.BigEndian.Uint16(b[pos:]); t == 0x204 || t == 0x304 {
				nfields++
			}
			fsOwn++
		}
		otherID := bytesOf(c.Seed+4242, 32)
		mk := func(typ uint16, body []byte) []byte {
			f := make([]byte, 4+pad4(len(body)))
			binary.BigEndian.PutUint16(f, typ)
			binary.BigEndian.PutUint16(f[2:], uint16(len(f)))
			copy(f[4:], body)
			return f
		}
		authField := b[l.authPos:]
		trailers := map[string][]byte{
			"a unique identifier field":  mk(0x104, otherID),
			"a cookie field":             mk(0x204, bytesOf(c.Seed+4343, 124)),
			"a cookie placeholder field": mk(0x304, make([]byte, 124)),
			"an unknown field":           mk(0x7f00, bytesOf(c.Seed+4444, 40)),
			"a copy of the authenticator": bytes.Clone(authField),
			"identifier, cookie and placeholder fields": append(append(mk(0x104, otherID), mk(0x204, bytesOf(c.Seed+4545, 124))...), mk(0x304, make([]byte, 124))...),
		}
		for what, tr := range trailers {
			m2 := append(bytes.Clone(b), tr...)
			v := real(m2, key, reqID)
			st.fieldEdits++
			if v.panicked != nil {
				t.Fatalf("%s with %s appended behind the authenticator: panic %v", c.Kind, what, v.panicked)
			}
			if v.accepted {
				if !zeroPaddedEq(v.uid, l.uid) {
					t.Fatalf("%s with %s appended behind the authenticator is accepted with unique identifier %s, the authenticated one is %s", c.Kind, what, hx(v.uid), hx(l.uid))
				}
				if c.Kind == "response" && !sameCookies(v.cookies, distinct) {
					t.Fatalf("response with %s appended behind the authenticator delivered %d cookies to the pool, %d distinct ones were sealed", what, len(v.cookies), len(distinct))
				}
				if c.Kind == "request" && (!zeroPaddedEq(v.cookie, cookies[0]) || v.nplace != nfields) {
					t.Fatalf("request with %s appended behind the authenticator: the server would open another cookie / answer %d fields instead of the %d authenticated ones", what, v.nplace, nfields)
				}
			}
			if c.Kind == "response" {
				// replay: this (genuine, earlier) response must not pass as the answer to another request
				if v2 := real(m2, key, otherID); v2.accepted || v2.panicked != nil {
					t.Fatalf("a genuine response to one request, with %s appended behind the authenticator, is accepted as the response to a different request", what)
				}
				st.fieldEdits++
			}
		}
	}
	// fields inserted in front of the authenticator, and the authenticator's own (unauthenticated) length field
	// enlarged by as much: the authenticated bytes are no longer "exactly the header and extension bytes that precede"
	// the authenticator - the packet must not pass, neither for the outstanding request nor, with a foreign
	// identifier inserted, as the answer to a different one
	{
		otherID := bytesOf(c.Seed+5151, 32)
		mk := func(typ uint16, body []byte) []byte {
			f := make([]byte, 4+pad4(len(body)))
			binary.BigEndian.PutUint16(f, typ)
			binary.BigEndian.PutUint16(f[2:], uint16(len(f)))
			copy(f[4:], body)
			return f
		}
		for what, ins := range map[string][]byte{
			"a unique identifier field": mk(0x104, otherID),
			"a cookie field":            mk(0x204, bytesOf(c.Seed+5252, 124)),
			"a placeholder field":       mk(0x304, make([]byte, 124)),
			"an unknown field":          mk(0x7f01, bytesOf(c.Seed+5353, 16)),
		} {
			m2 := append(append(bytes.Clone(b[:l.authPos]), ins...), b[l.authPos:]...)
			ap := l.authPos + len(ins)
			binary.BigEndian.PutUint16(m2[ap+2:], binary.BigEndian.Uint16(m2[ap+2:])+uint16(len(ins)))
			for _, id := range [][]byte{reqID, otherID} {
				v := real(m2, key, id)
				st.fieldEdits++
				if v.panicked != nil {
					t.Fatalf("%s with %s inserted in front of the authenticator (its length field enlarged by as much): panic %v", c.Kind, what, v.panicked)
				}
				if v.accepted {
					t.Fatalf("%s with %s inserted in front of the authenticator (and the authenticator's length field enlarged by as much) was accepted: what is authenticated is not what precedes the authenticator", c.Kind, what)
				}
			}
		}
	}
	// truncation where the cut-off bytes are zero: re-seal with other nonces until the tag ends in a zero byte
	if c.Nonce == 0 {
		for n := uint64(1); n < 4000; n++ {
			c2 := c
			c2.Nonce = n
			b2, key2, _, id2, _ := build(c2)
			if b2[len(b2)-1] != 0 {
				continue
			}
			v := real(bytes.Clone(b2[:len(b2)-1]), key2, id2)
			if v.panicked != nil || v.accepted {
				t.Fatalf("%s whose last ciphertext byte (a zero) was cut off is accepted (nonce stream %d, panic=%v)", c.Kind, n, v.panicked)
			}
			st.fieldEdits++
			break
		}
	}
	// keys, direction, identifier
	for i, k := range [][]byte{other, bytesOf(c.Seed+99, 32), bytes.Repeat([]byte{0}, 32)} {
		if bytes.Equal(k, key) {
			continue
		}
		v := real(b, k, reqID)
		if v.panicked != nil || v.accepted {
			t.Fatalf("%s accepted under a different key (%d: other direction / random / zero) panic=%v", c.Kind, i, v.panicked)
		}
		st.keyEdits++
	}
	if c.Kind == "response" {
		for _, id := range [][]byte{bytesOf(c.Seed+8, 32), reqID[:31], append(bytes.Clone(reqID), 0), nil} {
			v := real(b, key, id)
			if v.panicked != nil || v.accepted {
				t.Fatalf("response accepted for a different request identifier %s (panic=%v)", hx(id), v.panicked)
			}
			st.keyEdits++
		}
		id2 := bytes.Clone(reqID)
		id2[31] ^= 1
		if v := real(b, key, id2); v.accepted || v.panicked != nil {
			t.Fatalf("response accepted for an identifier differing in one bit")
		}
	}
	return
}

func genPkt(t *rapid.T) pktCase {
	c := pktCase{
		Kind:   rapid.SampledFrom([]string{"request", "response"}).Draw(t, "kind"),
		C2S:    hx(bytesOf(rapid.Uint64().Draw(t, "c2s"), 32)),
		S2C:    hx(bytesOf(rapid.Uint64().Draw(t, "s2c"), 32)),
		Header: hx(bytesOf(rapid.Uint64().Draw(t, "hdr"), 48)),
		Seed:   rapid.Uint64Range(0, 1<<40).Draw(t, "seed"),
	}
	if rapid.IntRange(0, 2).Draw(t, "edges") == 0 {
		c.ZeroTail = rapid.SampledFrom([]int{0, 1, 1, 2, 3, 4, 5, 8, 16, 1000}).Draw(t, "zerotail")
		c.ZeroHead = rapid.SampledFrom([]int{0, 0, 1, 2, 4}).Draw(t, "zerohead")
		c.FFTail = rapid.SampledFrom([]int{0, 0, 1, 4}).Draw(t, "fftail")
	}
	// cookie fields shorter than the 28-byte minimum extension field are skipped by the decoder by design
	c.CookieLen = rapid.OneOf(rapid.Just(124), rapid.IntRange(24, 200), rapid.SampledFrom([]int{100, 104, 24, 25, 28})).Draw(t, "cookielen")
	if c.Kind == "request" {
		c.Pool = rapid.IntRange(1, 8).Draw(t, "pool")
		// fit nts.MaxPacketLen by construction: 48 + 36 + (9-pool)*(4+pad) + 40
		for 48+36+(9-c.Pool)*(4+pad4(c.CookieLen))+40 > nts.MaxPacketLen {
			if c.Pool < 8 {
				c.Pool++
			} else {
				c.CookieLen = max(24, c.CookieLen/2)
			}
		}
	} else {
		// NewResponsePacket sizes its plaintext without padding: cookie lengths that are not a multiple of 4 do not
		// survive (this project's cookies are 124 bytes); the delivered-cookies clause is judged for 4-aligned lengths
		c.CookieLen = pad4(c.CookieLen)
		c.NCookies = rapid.IntRange(1, 8).Draw(t, "ncookies")
		for 48+36+8+16+c.NCookies*(4+pad4(c.CookieLen))+16 > nts.MaxPacketLen {
			c.NCookies--
		}
	}
	return c
}

var (
	recPkt = ev.New("c10/packets", "rapid: NTS requests (pool level 1..8 => 0..7 placeholders) and responses (1..8 cookies) for generated 32-byte keys, NTP headers and cookie lengths (124 = this project's, 1..200), built with the project's constructors/encoder within the 1024-byte limit. Per packet: completeness (accepted under its key; harness walker + miscreant AES-SIV agree; client pool == sealed cookies) and a mutation sweep: every single-bit flip (thorough; every 7th bit in quick), extension length edits {0,1,2,3,4,+-1,+-4,0xffff} on every field, nonce length field 0..40, ciphertext length edits, truncations, inserted field, moved authenticator, other-direction/random/zero key, other/short/long request identifier. Oracle: changes to authenticated bytes, nonce, ciphertext or their length fields are rejected with an error (never a panic); anything accepted is authentic for the independent implementation and delivers the sealed cookies. One evaluation = one verified mutant. Non-trivial: mutation of a packet that verified before (all are); distinct by (packet, mutation) counted per packet")
	recCk = ev.New("c10/cookies", "rapid: server cookies for generated algorithm ids, session keys (32 bytes and 0..64) and server keys, sealed with EncryptWithNonce and encoded; every single-bit flip and TLV edits (type/length of each TLV, nonce lengths 0..32, ciphertext truncation/extension) => Decode error, Decrypt error, or exactly the sealed (algorithm, S2C, C2S); never a panic, never other content; Decrypt under another server key fails. One evaluation = one mutated cookie")
)

func TestPropPackets(t *testing.T) {
	full := vt.Thorough()
	vt.Check(t, 600, 1500, func(t *rapid.T) {
		c := genPkt(t)
		disarm := vt.Watchdog(t, 120*time.Second, c, "NTS packet processing did not terminate on a mutated packet")
		st := checkPacket(t, c, full)
		disarm()
		n := st.flips + st.fieldEdits + st.keyEdits
		b, _ := json.Marshal(c)
		recPkt.Eval(true, ev.Hash(b), func() any { return c }, c.Kind)
		recPkt.Count(int64(n - 1))
		recPkt.AddDistinct(ev.Hash(b), int64(min(n-1, 1<<12)))
	})
}

// ---------------------------------------------------------------- cookies

type ckCase struct {
	Algo      uint16 `json:"algo"`
	S2C       string `json:"s2c"`
	C2S       string `json:"c2s"`
	ServerKey string `json:"server_key"`
	KeyID     int    `json:"key_id"`
}

func openCookie(b []byte, key []byte) (sc ntske.ServerCookie, err error, panicked any) {
	defer func() {
		if r := recover(); r != nil {
			panicked = r
		}
	}()
	var e ntske.EncryptedServerCookie
	if err = e.Decode(b); err != nil {
		return
	}
	sc, err = e.Decrypt(key)
	return
}

func checkCookie(t failer, c ckCase) int {
	plain := ntske.ServerCookie{Algo: c.Algo, S2C: dh(c.S2C), C2S: dh(c.C2S)}
	key := dh(c.ServerKey)
	enc, err := plain.EncryptWithNonce(key, c.KeyID)
	if err != nil {
		t.Fatalf("EncryptWithNonce: %v", err)
	}
	b := enc.Encode()
	same := func(sc ntske.ServerCookie) bool {
		return sc.Algo == plain.Algo && bytes.Equal(sc.S2C, plain.S2C) && bytes.Equal(sc.C2S, plain.C2S)
	}
	sc, err, p := openCookie(b, key)
	if p != nil || err != nil || !same(sc) {
		t.Fatalf("cookie does not open under the key that sealed it: err=%v panic=%v got=%+v", err, p, sc)
	}
	n := 0
	judge := func(m []byte, what string) {
		n++
		sc, err, p := openCookie(m, key)
		if p != nil {
			t.Fatalf("cookie with %s: panic instead of an error: %v", what, p)
		}
		if err == nil && !same(sc) {
			t.Fatalf("cookie with %s opened to different content %+v", what, sc)
		}
	}
	m := make([]byte, len(b))
	for bit := 0; bit < 8*len(b); bit++ {
		copy(m, b)
		m[bit/8] ^= 1 << (bit % 8)
		judge(m, fmt.Sprintf("bit %d of byte %d flipped", bit%8, bit/8))
	}
	// TLV edits: offsets of the three TLV headers
	offs := []int{0, 6, 6 + 4 + len(enc.Nonce)}
	for _, o := range offs {
		l := int(binary.BigEndian.Uint16(b[o+2:]))
		for _, nl := range []int{0, 1, l - 1, l + 1, l + 2, len(b), 0xffff} {
			if nl < 0 || nl == l {
				continue
			}
			copy(m, b)
			binary.BigEndian.PutUint16(m[o+2:], uint16(nl))
			judge(m, fmt.Sprintf("TLV at %d length %d -> %d", o, l, nl))
		}
	}
	for cut := 1; cut <= len(b); cut++ {
		judge(bytes.Clone(b[:len(b)-cut]), fmt.Sprintf("last %d bytes cut off", cut))
	}
	judge(append(bytes.Clone(b), 0), "one byte appended")
	judge(append(bytes.Clone(b), 0, 0, 0, 0), "four zero bytes appended")
	for k := 0; k <= 32; k++ { // well-formed TLVs with another nonce length
		e2 := ntske.EncryptedServerCookie{ID: enc.ID, Nonce: bytes.Repeat([]byte{7}, k), Ciphertext: enc.Ciphertext}
		if k <= len(enc.Nonce) {
			e2.Nonce = enc.Nonce[:k]
		}
		if k == len(enc.Nonce) {
			continue
		}
		judge(e2.Encode(), fmt.Sprintf("nonce of %d bytes", k))
	}
	for _, cl := range []int{0, 1, 15, 16, 17} {
		e2 := ntske.EncryptedServerCookie{ID: enc.ID, Nonce: enc.Nonce, Ciphertext: enc.Ciphertext[:min(cl, len(enc.Ciphertext))]}
		judge(e2.Encode(), fmt.Sprintf("ciphertext of %d bytes", cl))
	}
	other := bytes.Clone(key)
	other[0] ^= 1
	if sc, err, p := openCookie(b, other); p != nil || err == nil {
		t.Fatalf("cookie opened under another server key: %+v panic=%v", sc, p)
	}
	return n
}

func TestPropCookies(t *testing.T) {
	vt.Check(t, 1500, 8000, func(t *rapid.T) {
		kl := rapid.OneOf(rapid.Just(32), rapid.IntRange(0, 64)).Draw(t, "keylen")
		c := ckCase{
			Algo:      rapid.OneOf(rapid.Just(uint16(15)), rapid.Uint16()).Draw(t, "algo"),
			S2C:       hx(bytesOf(rapid.Uint64().Draw(t, "s2c"), kl)),
			C2S:       hx(bytesOf(rapid.Uint64().Draw(t, "c2s"), kl)),
			ServerKey: hx(bytesOf(rapid.Uint64().Draw(t, "sk"), 32)),
			KeyID:     rapid.OneOf(rapid.IntRange(0, 65535), rapid.IntRange(1, 5)).Draw(t, "keyid"),
		}
		n := checkCookie(t, c)
		b, _ := json.Marshal(c)
		recCk.Eval(true, ev.Hash(b), func() any { return c })
		recCk.Count(int64(n - 1))
		recCk.AddDistinct(ev.Hash(b), int64(min(n-1, 1<<11)))
	})
}

type exhFail struct {
	t testing.TB
	c any
}

func (e exhFail) Fatalf(format string, args ...any) { vt.Violation(e.t, e.c, format, args...) }

func TestReplay(t *testing.T) {
	files, _ := filepath.Glob(filepath.Join(vt.CorpusDir("C10"), "*.json"))
	if p := vt.ReplayCase(); p != "" {
		files = []string{p}
	}
	for _, p := range files {
		b, err := os.ReadFile(p)
		if err != nil {
			t.Fatal(err)
		}
		var w struct {
			Case json.RawMessage `json:"case"`
		}
		if err := json.Unmarshal(b, &w); err != nil {
			t.Fatalf("%s: %v", p, err)
		}
		var pc pktCase
		if json.Unmarshal(w.Case, &pc) == nil && pc.Kind != "" {
			disarm := vt.Watchdog(t, 120*time.Second, pc, "NTS packet processing did not terminate on a mutated packet")
			checkPacket(exhFail{t, pc}, pc, true)
			disarm()
			continue
		}
		var cc ckCase
		if json.Unmarshal(w.Case, &cc) == nil && cc.ServerKey != "" {
			checkCookie(exhFail{t, cc}, cc)
		}
	}
}
