package c10

// "Use of a different key or direction is rejected" with the keys a session really has: both ends of a TLS 1.3
// session (over an in-memory pipe) derive them with ntske.ExportKeys. A packet sealed for one direction, sent back
// unchanged, must not authenticate for the other - which holds only if the two exported keys differ.

import (
	"bytes"
	"crypto/tls"
	"fmt"
	"net"
	"testing"

	"pgregory.net/rapid"

	"example.com/scion-time/net/nts"
	"example.com/scion-time/net/ntske"

	"verif/internal/ev"
	"verif/internal/netlab"
	"verif/internal/vt"
)

var recExp = ev.New("c10/exported-keys-direction", "rapid: a TLS 1.3 session over an in-memory pipe (run-time self-signed certificate, ALPN ntske/1); both ends call ntske.ExportKeys; the client's request (project's encoder: 1..8 cookies of a generated length in the pool) is sealed under the exported C2S key, a response with 1..8 generated cookies under the exported S2C key. Oracle: both ends export the same pair; C2S != S2C; the request verifies along the server's path under C2S and the response along the client's path under S2C (controls); the request reflected to the client is refused by ProcessResponse under S2C although it carries the right identifier; the response reflected to the server is refused by ProcessRequest under C2S. One evaluation = one session. Non-trivial: every session (both reflections judged); distinct by session keys")

func TestPropExportedKeyDirection(t *testing.T) {
	cert, err := netlab.SelfSigned()
	if err != nil {
		vt.Inconclusive(t, "certificate: %v", err)
	}
	vt.Check(t, 300, 3000, func(t *rapid.T) {
		c1, c2 := net.Pipe()
		defer c1.Close()
		defer c2.Close()
		srv := tls.Server(c2, &tls.Config{Certificates: []tls.Certificate{cert}, NextProtos: []string{"ntske/1"}, MinVersion: tls.VersionTLS13})
		cli := tls.Client(c1, &tls.Config{InsecureSkipVerify: true, NextProtos: []string{"ntske/1"}, MinVersion: tls.VersionTLS13})
		errc := make(chan error, 1)
		go func() { errc <- srv.Handshake() }()
		if err := cli.Handshake(); err != nil {
			t.Fatalf("harness: handshake: %v", err)
		}
		if err := <-errc; err != nil {
			t.Fatalf("harness: handshake: %v", err)
		}
		var dc, ds ntske.Data
		if err := ntske.ExportKeys(cli.ConnectionState(), &dc); err != nil {
			t.Fatalf("ExportKeys (client): %v", err)
		}
		if err := ntske.ExportKeys(srv.ConnectionState(), &ds); err != nil {
			t.Fatalf("ExportKeys (server): %v", err)
		}
		if !bytes.Equal(dc.C2sKey, ds.C2sKey) || !bytes.Equal(dc.S2cKey, ds.S2cKey) {
			t.Fatalf("the two ends of one session export different keys")
		}
		if bytes.Equal(dc.C2sKey, dc.S2cKey) {
			t.Fatalf("client-to-server and server-to-client key of a session are identical: direction cannot be told apart")
		}
		ncookies := rapid.IntRange(1, 8).Draw(t, "pool")
		clen := rapid.SampledFrom([]int{100, 104, 124}).Draw(t, "cookie-len")
		for i := 0; i < ncookies; i++ {
			ck := bytes.Repeat([]byte{byte(0x30 + i)}, clen)
			dc.Cookie = append(dc.Cookie, ck)
		}
		req, uid := nts.NewRequestPacket(dc)
		breq := make([]byte, 48)
		breq[0] = 0x23
		nts.EncodePacket(&breq, &req)
		// control: the server's path accepts it under C2S
		var dreq nts.Packet
		if err := nts.DecodePacket(&dreq, breq); err != nil {
			t.Fatalf("DecodePacket(request): %v", err)
		}
		if err := nts.ProcessRequest(breq, ds.C2sKey, &dreq); err != nil {
			t.Fatalf("request sealed under the exported C2S key does not verify under the server's C2S key: %v", err)
		}
		// the request sent back to the client unchanged
		var refl nts.Packet
		if err := nts.DecodePacket(&refl, breq); err == nil {
			if err := nts.ProcessResponse(breq, dc.S2cKey, &ntske.Fetcher{}, &refl, uid); err == nil {
				t.Fatalf("the client's own request, reflected, was accepted as an authenticated response (identifier %x)", uid[:4])
			}
		}
		var cookies [][]byte
		for i := rapid.IntRange(1, 8).Draw(t, "fresh"); i > 0; i-- {
			cookies = append(cookies, bytes.Repeat([]byte{byte(0x60 + i)}, clen))
		}
		rsp := nts.NewResponsePacket(cookies, ds.S2cKey, uid)
		brsp := make([]byte, 48)
		brsp[0] = 0x24
		nts.EncodePacket(&brsp, &rsp)
		var drsp nts.Packet
		if err := nts.DecodePacket(&drsp, brsp); err != nil {
			t.Fatalf("DecodePacket(response): %v", err)
		}
		if err := nts.ProcessResponse(brsp, dc.S2cKey, &ntske.Fetcher{}, &drsp, uid); err != nil {
			t.Fatalf("response sealed under the exported S2C key does not verify under the client's S2C key: %v", err)
		}
		var refl2 nts.Packet
		if err := nts.DecodePacket(&refl2, brsp); err == nil {
			if err := nts.ProcessRequest(brsp, ds.C2sKey, &refl2); err == nil {
				t.Fatalf("a response, reflected to the server, verifies as a request under the C2S key")
			}
		}
		recExp.Eval(true, ev.Hash(fmt.Sprintf("%x", dc.C2sKey[:8])), func() any {
			return map[string]any{"pool": ncookies, "cookie_len": clen, "fresh": len(cookies)}
		})
	})
}
