package c10

import (
	"bytes"
	"encoding/json"
	"fmt"
	"runtime"
	"sync"
	"testing"

	"pgregory.net/rapid"

	"example.com/scion-time/net/ntske"

	"verif/internal/ev"
	"verif/internal/vt"
)

// Histories of cookie openings: a server opens the cookies of many sessions, one after the other and (on the
// goroutines that share a listening socket) at the same time, and uses what each opening yielded afterwards -
// to verify the request, to seal the reply, to seal fresh cookies. What an opening yielded has to stay what
// was sealed, whatever is opened later.

type ckSession struct {
	S2C, C2S string
	Key      int // index into the case's server keys
}

type ckHistCase struct {
	ServerKeys []string
	Sessions   []ckSession
	// Order: indices into Sessions (>= 0: open that session's cookie; -1-i: try to open session i's cookie under
	// another server key, which fails)
	Order      []int
	Concurrent bool
}

var recCkHist = ev.New("c10/cookie-opening-histories", "rapid: 2..10 sessions (AES-SIV-CMAC-256, generated 32-byte keys) sealed into cookies under 1..3 server keys; a generated order of 2..24 openings (repeats, openings under another server key that fail in between), sequential or on concurrent goroutines that yield between opening and use. Oracle: every opening under the sealing key yields exactly the sealed algorithm and keys, and everything yielded so far still equals what was sealed after each later opening (results are values, not views of shared scratch space). One evaluation = one opening. Non-trivial: an opening that follows an opening of another session's cookie; distinct by case hash")

func checkCookieHistory(t failer, c ckHistCase) (n, nt int) {
	type sealed struct {
		plain ntske.ServerCookie
		wire  []byte
		key   []byte
	}
	var ss []sealed
	for i, s := range c.Sessions {
		key := dh(c.ServerKeys[s.Key])
		plain := ntske.ServerCookie{Algo: 15, S2C: dh(s.S2C), C2S: dh(s.C2S)}
		enc, err := plain.EncryptWithNonce(key, s.Key+1)
		if err != nil {
			t.Fatalf("session %d: EncryptWithNonce: %v", i, err)
		}
		ss = append(ss, sealed{plain: ntske.ServerCookie{Algo: 15, S2C: dh(s.S2C), C2S: dh(s.C2S)}, wire: enc.Encode(), key: key})
	}
	same := func(a, b ntske.ServerCookie) bool {
		return a.Algo == b.Algo && bytes.Equal(a.S2C, b.S2C) && bytes.Equal(a.C2S, b.C2S)
	}
	if c.Concurrent {
		var wg sync.WaitGroup
		var mu sync.Mutex
		var msg string
		start := make(chan struct{})
		for k, o := range c.Order {
			if o < 0 {
				continue
			}
			wg.Add(1)
			go func(k, o int) {
				defer wg.Done()
				<-start
				for rep := 0; rep < 20; rep++ {
					sc, err, p := openCookie(ss[o].wire, ss[o].key)
					runtime.Gosched() // the listener verifies the request and builds the reply here
					if p != nil || err != nil || !same(sc, ss[o].plain) {
						mu.Lock()
						msg = fmt.Sprintf("opening %d (session %d) on a goroutine of its own, while other cookies are being opened: err=%v panic=%v yielded %x/%x, sealed %x/%x", k, o, err, p, sc.S2C, sc.C2S, ss[o].plain.S2C, ss[o].plain.C2S)
						mu.Unlock()
						return
					}
				}
			}(k, o)
			n++
			nt++
		}
		close(start)
		wg.Wait()
		if msg != "" {
			t.Fatalf("%s", msg)
		}
		return
	}
	type got struct {
		sess int
		sc   ntske.ServerCookie
	}
	var kept []got
	prev := -1
	for k, o := range c.Order {
		n++
		if o < 0 {
			i := -1 - o
			other := bytes.Clone(ss[i].key)
			other[len(other)-1] ^= 0x80
			if sc, err, p := openCookie(ss[i].wire, other); p != nil || err == nil {
				t.Fatalf("opening %d: session %d's cookie opened under another server key: %+v panic=%v", k, i, sc, p)
			}
		} else {
			sc, err, p := openCookie(ss[o].wire, ss[o].key)
			if p != nil || err != nil || !same(sc, ss[o].plain) {
				t.Fatalf("opening %d: session %d's cookie under its sealing key: err=%v panic=%v yielded %+v", k, o, err, p, sc)
			}
			if prev >= 0 && prev != o {
				nt++
			}
			prev = o
			kept = append(kept, got{o, sc})
		}
		for j, g := range kept {
			if !same(g.sc, ss[g.sess].plain) {
				t.Fatalf("after opening %d (%d): what the %d-th successful opening yielded for session %d has changed: now %x/%x, sealed %x/%x", k, o, j, g.sess, g.sc.S2C, g.sc.C2S, ss[g.sess].plain.S2C, ss[g.sess].plain.C2S)
			}
		}
	}
	return
}

func TestPropCookieHistories(t *testing.T) {
	vt.Check(t, 1500, 12000, func(t *rapid.T) {
		var c ckHistCase
		nk := rapid.IntRange(1, 3).Draw(t, "server-keys")
		for i := 0; i < nk; i++ {
			c.ServerKeys = append(c.ServerKeys, hx(bytesOf(rapid.Uint64().Draw(t, "sk"), 32)))
		}
		ns := rapid.IntRange(2, 10).Draw(t, "sessions")
		for i := 0; i < ns; i++ {
			c.Sessions = append(c.Sessions, ckSession{
				S2C: hx(bytesOf(rapid.Uint64().Draw(t, "s2c"), 32)), C2S: hx(bytesOf(rapid.Uint64().Draw(t, "c2s"), 32)),
				Key: rapid.IntRange(0, nk-1).Draw(t, "key"),
			})
		}
		no := rapid.IntRange(2, 24).Draw(t, "openings")
		for i := 0; i < no; i++ {
			o := rapid.IntRange(0, ns-1).Draw(t, "session")
			if rapid.IntRange(0, 5).Draw(t, "under-another-key") == 0 {
				o = -1 - o
			}
			c.Order = append(c.Order, o)
		}
		c.Concurrent = rapid.IntRange(0, 3).Draw(t, "concurrent") == 0
		n, nt := checkCookieHistory(t, c)
		b, _ := json.Marshal(c)
		label := "sequential"
		if c.Concurrent {
			label = "concurrent"
		}
		recCkHist.Eval(nt > 0, ev.Hash(b), func() any { return c }, label)
		if n > 1 {
			recCkHist.Count(int64(n - 1))
		}
	})
}
