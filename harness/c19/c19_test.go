package c19

import (
	"encoding/json"
	"io"
	"log/slog"
	"math"
	"testing"
	"time"

	"pgregory.net/rapid"

	"example.com/scion-time/core/sync/adjustments"

	"verif/internal/ev"
	"verif/internal/fakeclk"
	"verif/internal/gen"
	"verif/internal/vt"
)

func TestMain(m *testing.M) { vt.Main(m) }

type update struct {
	Dt       int64   `json:"dt_ns"` // clock advance before this update
	Dt2      int64   `json:"dt2_ns,omitempty"` // a second advance: together more than a duration can express (~292 years)
	Offset   int64   `json:"offset_ns"`
	Weight   float64 `json:"weight"`
	External bool    `json:"external_step,omitempty"` // the clock epoch changes (step by someone else) before this update
}

type hcase struct {
	StepBumpsEpoch bool     `json:"step_bumps_epoch"`
	U              []update `json:"updates"`
}

type failer interface {
	Fatalf(format string, args ...any)
}

type stats struct {
	steps, adjusts, clamped, epochWhileTracking, hugeGaps int
}

func checkPLL(t failer, c hcase) (st stats) {
	clk := fakeclk.New(time.Unix(1700000000, 0))
	clk.StepBumpsEpoch = c.StepBumpsEpoch
	pll := adjustments.NewPLL(slog.New(slog.NewTextHandler(io.Discard, nil)), clk)

	var (
		seenEpoch   uint64
		first       = true
		epochFirst  time.Time // clock reading of the first update in the current epoch
		prev        time.Time // clock reading of the previous update
		stepped     bool      // a step was made in the current epoch
		adjusted    bool      // an adjustment was made in the current epoch (=> tracking)
	)
	for i, u := range c.U {
		clk.Advance(time.Duration(u.Dt))
		clk.Advance(time.Duration(u.Dt2))
		if u.External {
			clk.BumpEpoch()
		}
		now := clk.Now()
		if first || clk.Epoch() != seenEpoch {
			if adjusted {
				st.epochWhileTracking++
			}
			seenEpoch, epochFirst, stepped, adjusted, first = clk.Epoch(), now, false, false, false
		}
		pll.Do(time.Duration(u.Offset), u.Weight)
		calls := clk.TakeCalls()
		if len(calls) > 1 {
			t.Fatalf("update %d: %d actuations in one update: %+v", i, len(calls), calls)
		}
		sinceEpoch := now.Sub(epochFirst)
		for _, call := range calls {
			switch call.Kind {
			case "step":
				st.steps++
				if stepped || adjusted {
					t.Fatalf("update %d: clock stepped although the discipline is past its initial step in this epoch (stepped=%v tracking=%v)", i, stepped, adjusted)
				}
				if !(sinceEpoch > 2*time.Second) {
					t.Fatalf("update %d: step %v after the first update of the clock epoch (needs > 2 s)", i, sinceEpoch)
				}
				if !(u.Weight > 3) {
					t.Fatalf("update %d: step at weight %v (needs > 3)", i, u.Weight)
				}
				if a := time.Duration(u.Offset).Abs(); !(a > time.Millisecond) {
					t.Fatalf("update %d: step for offset %d ns (needs > 1 ms)", i, u.Offset)
				}
				if u.Offset != math.MinInt64 && int64(call.Offset) != u.Offset {
					t.Fatalf("update %d: stepped by %d, measured offset %d", i, call.Offset, u.Offset)
				}
				// the most negative offset cannot be negated: one nanosecond of saturation is tolerated, the direction is not
				if u.Offset == math.MinInt64 && int64(call.Offset) > math.MinInt64+1 {
					t.Fatalf("update %d: stepped by %d, measured offset %d (the most negative one)", i, call.Offset, u.Offset)
				}
				stepped = true
			case "adjust":
				st.adjusts++
				if !(sinceEpoch > 2*time.Second) {
					t.Fatalf("update %d: slewing %v after the first update of the clock epoch, before the start-up sequence could have passed its step phase", i, sinceEpoch)
				}
				if call.Duration <= 0 {
					t.Fatalf("update %d: adjustment with duration %v", i, call.Duration)
				}
				if math.IsNaN(call.Frequency) || math.IsInf(call.Frequency, 0) {
					t.Fatalf("update %d: adjustment with frequency %v", i, call.Frequency)
				}
				el := now.Sub(prev)
				wantDur := time.Duration(math.Ceil(el.Seconds())) * time.Second
				if math.Ceil(el.Seconds()) >= math.MaxInt64/1e9 {
					// the elapsed whole seconds do not fit a duration: any positive duration up to the largest
					// one is admissible; the slew bound below is taken from the duration asked for
					st.hugeGaps++
				} else if diff := float64(call.Duration - wantDur); math.Abs(diff) > math.Nextafter(float64(wantDur), math.Inf(1))-float64(wantDur) || wantDur < 1<<53 && diff != 0 {
					// (beyond 2^53 ns, ~104 days, whole seconds are not exact in the discipline's float arithmetic: one ulp)
					t.Fatalf("update %d: adjustment duration %v, elapsed since previous update %v (want whole seconds, rounded up: %v)", i, call.Duration, el, wantDur)
				}
				// elapsed whole seconds, rounded up, in integers (the difference of far-apart readings saturates)
				whole := now.Unix() - prev.Unix()
				if now.Nanosecond() > prev.Nanosecond() {
					whole++
				}
				lim := 500e-6*float64(whole)*1e9*(1+1e-12) + 1
				if math.Abs(float64(call.Offset)) > lim {
					t.Fatalf("update %d: slew %d ns over %d elapsed whole seconds (duration asked for: %v) exceeds 500 ppm (%.0f ns)", i, call.Offset, whole, call.Duration, lim)
				}
				if math.Abs(float64(call.Offset)) >= lim-2 {
					st.clamped++
				}
				adjusted = true
			}
		}
		if len(calls) == 0 && now.Equal(prev) {
			// nothing elapsed: no adjustment is the only admissible behaviour; already satisfied
		}
		if c.StepBumpsEpoch && stepped {
			// the discipline's own step changed the epoch: the next update starts a new start-up sequence
		}
		prev = now
	}
	return
}

func genCase(t *rapid.T) hcase {
	c := hcase{StepBumpsEpoch: rapid.IntRange(0, 4).Draw(t, "bump") > 0}
	n := rapid.OneOf(rapid.IntRange(1, 60), rapid.IntRange(10, 40)).Draw(t, "n")
	dtg := rapid.OneOf(
		rapid.SampledFrom([]int64{0, 1000, int64(400 * time.Millisecond), int64(time.Second), int64(time.Second) + 1, int64(2 * time.Second),
			int64(2*time.Second) + 1, int64(6 * time.Second), int64(6*time.Second) + 1, int64(64 * time.Second), int64(301 * time.Second), int64(100000 * time.Second)}),
		rapid.Int64Range(0, int64(10*time.Second)),
		rapid.Int64Range(int64(time.Second), int64(3*time.Second)),
	)
	offg := rapid.OneOf(gen.Int64Mix(), gen.Near(int64(time.Millisecond), 2), gen.Near(-int64(time.Millisecond), 2),
		rapid.Int64Range(-int64(time.Second), int64(time.Second)), rapid.Int64Range(-int64(100*time.Microsecond), int64(100*time.Microsecond)),
		rapid.Int64Range(-int64(time.Hour), int64(time.Hour)))
	wg := rapid.OneOf(rapid.SampledFrom([]float64{0, 1, 3, math.Nextafter(3, 4), 49.9, 50, 149.9, 150, 1e6, math.Inf(1), math.Inf(-1), math.NaN(), -1, math.Copysign(0, -1)}), rapid.Float64Range(0, 200), rapid.Float64Range(3.5, 1000))
	for i := 0; i < n; i++ {
		c.U = append(c.U, update{
			Dt: dtg.Draw(t, "dt"), Offset: offg.Draw(t, "offset"), Weight: wg.Draw(t, "weight"),
			External: i > 0 && rapid.IntRange(0, 29).Draw(t, "external") == 0,
		})
	}
	// one gap of about 292 years or more between two clock readings (the elapsed time no longer fits a duration)
	if n > 4 && rapid.IntRange(0, 7).Draw(t, "huge-gap") == 0 {
		i := rapid.IntRange(n/2, n-1).Draw(t, "huge-gap-at")
		c.U[i].Dt = rapid.SampledFrom([]int64{math.MaxInt64, 9223372036_000000000, 9223372036_000000001, 9223372036_854775807, 9000000000_000000000}).Draw(t, "huge-dt")
		c.U[i].Dt2 = rapid.SampledFrom([]int64{0, 1, 1_000_000, 145224193, 854775807, int64(time.Hour), math.MaxInt64}).Draw(t, "huge-dt2")
	}
	return c
}

var rec = ev.New("c19/pll", "rapid state histories: 1..60 updates (dt from {0, 1 us, 0.4 s, 1 s, 1 s+1 ns, 2 s, 2 s+1 ns, 6 s, 6 s+1 ns, 64 s, 301 s, 1e5 s} and ranges, and in one of eight longer histories one gap of 285..584 years, at and beyond what a duration can express; offset from an int64 mixture dense at +-1 ms; weight from {0,-0,-1,1,3,nextafter(3),49.9,50,149.9,150,1e6,+Inf,-Inf,NaN} and ranges), external epoch changes at any point, clock whose Step does / does not bump the epoch; clock readings non-decreasing. The real Pll drives a recording fake clock. Oracle (from the statement): a step only > 2 s after the first update of the clock epoch, weight > 3, |offset| > 1 ms, by exactly the offset, at most one per epoch and never after slewing began in that epoch; every adjustment has duration = ceil(elapsed s) > 0 (any positive duration when the elapsed seconds do not fit one), |slew| <= 500 ppm x duration, finite frequency, and none before the step phase of a (re)started start-up sequence could have passed. One evaluation = one history. Non-trivial: history that reaches tracking with a clamped slew, or with an epoch change while tracking; distinct by history hash")

func TestPropPLL(t *testing.T) {
	vt.Check(t, 150000, 600000, func(t *rapid.T) {
		c := genCase(t)
		st := checkPLL(t, c)
		b, _ := json.Marshal(struct {
			B bool
			U []update
		}{c.StepBumpsEpoch, wireSafe(c.U)})
		var ls []string
		if st.steps > 0 {
			ls = append(ls, "stepped")
		}
		if st.adjusts > 0 {
			ls = append(ls, "reached-tracking")
		}
		if st.hugeGaps > 0 {
			ls = append(ls, "adjustment-after-a-gap-beyond-292-years")
		}
		if st.clamped > 0 {
			ls = append(ls, "clamped-slew")
		}
		if st.epochWhileTracking > 0 {
			ls = append(ls, "epoch-change-while-tracking")
		}
		rec.Eval(st.clamped > 0 || st.epochWhileTracking > 0, ev.Hash(b), func() any {
			u := wireSafe(c.U)
			if len(u) > 8 {
				u = u[:8]
			}
			return map[string]any{"step_bumps_epoch": c.StepBumpsEpoch, "updates": len(c.U), "first_updates": u, "steps": st.steps, "adjustments": st.adjusts, "clamped": st.clamped}
		}, ls...)
	})
}

// wireSafe replaces +Inf weights (not representable in JSON) by MaxFloat64 for hashing/samples.
func wireSafe(us []update) []update {
	out := make([]update, len(us))
	copy(out, us)
	for i := range out {
		if math.IsInf(out[i].Weight, 1) {
			out[i].Weight = math.MaxFloat64
		} else if math.IsInf(out[i].Weight, -1) {
			out[i].Weight = -math.MaxFloat64
		} else if math.IsNaN(out[i].Weight) {
			out[i].Weight = -12345.678 // stands for NaN in samples and hashes
		}
	}
	return out
}
