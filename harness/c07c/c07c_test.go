package c07c

// C07 part C: concurrent request handling and transmit-timestamp updates,
// built with -race; linearizability per client with porcupine against a
// nondeterministic sequential model that encodes only what the property states.

import (
	"fmt"
	"runtime"
	"sort"
	"strings"
	"sync"
	"sync/atomic"
	"testing"
	"time"

	"github.com/anishathalye/porcupine"
	"pgregory.net/rapid"

	"example.com/scion-time/core/server"
	"example.com/scion-time/core/timebase"
	"example.com/scion-time/net/ntp"

	"verif/internal/ev"
	"verif/internal/fakeclk"
	"verif/internal/vt"
)

var (
	clk     = fakeclk.New(time.Unix(1700000000, 0))
	base    = time.Unix(1700000000, 0)
	tick    atomic.Int64
	nowCall atomic.Int64
	yieldAt atomic.Int64
)

func TestMain(m *testing.M) {
	clk.NowFunc = func() time.Time {
		// the handler reads the clock before it takes the store lock: yield there to diversify interleavings
		n := nowCall.Add(1)
		if y := yieldAt.Load(); y > 0 && n%y == 0 {
			runtime.Gosched()
		}
		return base.Add(time.Duration(tick.Add(1) * 64))
	}
	timebase.RegisterClock(clk)
	vt.Main(m)
}

type opSpec struct {
	Kind   string `json:"k"`           // "req" | "upd"
	Client int    `json:"c"`           // client index
	Cite   int    `json:"cite"`        // req: -1 none, else cite my (k mod n)-th earlier reply to this client
	SameRT bool   `json:"same_rx_tx"`  // req: receive field == transmit field
	Which  int    `json:"which"`       // upd: which of my pending exchanges
	Lost   bool   `json:"lost"`        // upd: transmit timestamp unreadable
}

// porcupine inputs/outputs
type reqIn struct {
	client       string
	origin       ntp.Time64
	fieldsDiffer bool
	rxt64In      ntp.Time64
}
type reqOut struct {
	origin, rx, tx ntp.Time64
	sw             ntp.Time64 // transmit time of this reply (recorded for it)
	reqTx, reqRx   ntp.Time64
}
type updIn struct {
	client string
	rx     ntp.Time64
	k      ntp.Time64 // value offered to the store
	lost   bool
}

// state: set of (rx,tx) pairs on record for one client, canonical string
type pair struct{ rx, tx ntp.Time64 }

func enc(ps []pair) string {
	sort.Slice(ps, func(i, j int) bool {
		if ps[i].rx != ps[j].rx {
			return ps[i].rx.Before(ps[j].rx)
		}
		return ps[i].tx.Before(ps[j].tx)
	})
	var b strings.Builder
	for _, p := range ps {
		fmt.Fprintf(&b, "%d.%d:%d.%d;", p.rx.Seconds, p.rx.Fraction, p.tx.Seconds, p.tx.Fraction)
	}
	return b.String()
}

func dec(s string) []pair {
	var ps []pair
	for _, f := range strings.Split(s, ";") {
		if f == "" {
			continue
		}
		var p pair
		fmt.Sscanf(f, "%d.%d:%d.%d", &p.rx.Seconds, &p.rx.Fraction, &p.tx.Seconds, &p.tx.Fraction)
		ps = append(ps, p)
	}
	return ps
}

var model = porcupine.NondeterministicModel{
	Partition: func(h []porcupine.Operation) [][]porcupine.Operation {
		by := map[string][]porcupine.Operation{}
		for _, o := range h {
			var c string
			switch in := o.Input.(type) {
			case reqIn:
				c = in.client
			case updIn:
				c = in.client
			}
			by[c] = append(by[c], o)
		}
		var out [][]porcupine.Operation
		for _, v := range by {
			out = append(out, v)
		}
		return out
	},
	Init: func() []interface{} { return []interface{}{""} },
	Step: func(state, input, output interface{}) []interface{} {
		ps := dec(state.(string))
		switch in := input.(type) {
		case reqIn:
			out := output.(reqOut)
			for _, p := range ps {
				if p.rx == out.rx {
					return nil // receive timestamp must differ from all kept for the client
				}
			}
			interleaved := in.fieldsDiffer && out.origin == out.reqRx && !(out.origin == out.reqTx && out.tx == out.sw)
			if interleaved {
				ok := false
				for _, p := range ps {
					if p.rx == in.origin && p.tx == out.tx {
						ok = true
					}
				}
				if !ok {
					return nil
				}
			} else if out.origin != out.reqTx || out.tx != out.sw {
				return nil
			}
			// any kept pair may have been displaced; the new pair is on record
			var next []interface{}
			n := len(ps)
			for mask := 0; mask < 1<<n; mask++ {
				keep := []pair{{out.rx, out.sw}}
				for i := 0; i < n; i++ {
					if mask&(1<<i) != 0 {
						keep = append(keep, ps[i])
					}
				}
				next = append(next, enc(keep))
			}
			return next
		case updIn:
			var keep []pair
			for _, p := range ps {
				if p.rx == in.rx {
					if in.lost && p.tx == in.k {
						continue // dropped from the record
					}
					p.tx = in.k
				}
				keep = append(keep, p)
			}
			return []interface{}{enc(keep)}
		}
		return nil
	},
	Equal: func(a, b interface{}) bool { return a.(string) == b.(string) },
}

var rec = ev.New("c07/concurrent", "rapid-generated per-goroutine operation lists (8 or 16 goroutines, private and shared client ids, <= 6 exchanges per client so displacement choices stay enumerable) run concurrently against the real handler and tx-timestamp update, built with -race; the clock read (before the store lock is taken) yields the processor at a generated rate. Oracle: no race report; structural walk of the quiescent store; linearizability per client (porcupine) against a nondeterministic sequential model: an interleaved reply must be justified by a kept pair with the cited receive timestamp and exactly that transmit time, a basic reply echoes the transmit field, the reply's receive timestamp differs from all kept, any kept pair may have been displaced, a delivered update overwrites, an unreadable one drops. One evaluation = one operation. Non-trivial: batch in which >= 2 goroutines touched the same client; distinct by batch hash")

func TestPropConcurrent(t *testing.T) {
	vt.Check(t, 250, 2500, func(t *rapid.T) {
		server.ResetV()
		ng := rapid.SampledFrom([]int{8, 16}).Draw(t, "goroutines")
		nshared := rapid.IntRange(1, 4).Draw(t, "shared")
		yieldAt.Store(int64(rapid.SampledFrom([]int{0, 1, 2, 3, 7}).Draw(t, "yield")))
		perClientBudget := 6
		lists := make([][]opSpec, ng)
		used := map[int]int{} // client index -> number of requests (bounded)
		for g := range lists {
			n := rapid.IntRange(1, 8).Draw(t, "nops")
			for i := 0; i < n; i++ {
				var o opSpec
				if rapid.IntRange(0, 3).Draw(t, "isupd") == 0 {
					o = opSpec{Kind: "upd", Which: rapid.IntRange(0, 7).Draw(t, "which"), Lost: rapid.IntRange(0, 2).Draw(t, "lost") == 0}
				} else {
					c := 100 + g // private
					if rapid.Bool().Draw(t, "shared?") {
						c = rapid.IntRange(0, nshared-1).Draw(t, "sc")
					}
					if used[c] >= perClientBudget {
						continue
					}
					used[c]++
					o = opSpec{Kind: "req", Client: c, Cite: rapid.IntRange(-1, 5).Draw(t, "cite"), SameRT: rapid.IntRange(0, 5).Draw(t, "samert") == 0}
				}
				lists[g] = append(lists[g], o)
			}
		}
		var clock atomic.Int64
		var mu sync.Mutex
		var hist []porcupine.Operation
		touched := map[int]map[int]bool{}
		var wg sync.WaitGroup
		start := make(chan struct{})
		for g := range lists {
			wg.Add(1)
			go func(g int) {
				defer wg.Done()
				type mine struct {
					client string
					rxt    time.Time
					txt    time.Time
					rx64   ntp.Time64
					done   bool
				}
				var my []mine
				var local []porcupine.Operation
				<-start
				for _, o := range lists[g] {
					switch o.Kind {
					case "req":
						c := fmt.Sprintf("k%d", o.Client)
						var r ntp.Packet
						r.SetVersion(4)
						r.SetMode(ntp.ModeClient)
						r.TransmitTime = ntp.Time64{Seconds: uint32(g + 1), Fraction: uint32(len(my) + 1)}
						r.ReceiveTime = ntp.Time64{Seconds: 9, Fraction: uint32(g)}
						if o.SameRT {
							r.ReceiveTime = r.TransmitTime
						}
						if o.Cite >= 0 {
							var own []mine
							for _, m := range my {
								if m.client == c {
									own = append(own, m)
								}
							}
							if len(own) > 0 {
								r.OriginTime = own[o.Cite%len(own)].rx64
							}
						}
						rxt := base.Add(time.Duration(tick.Add(1) * 64))
						var txt time.Time
						var resp ntp.Packet
						in := reqIn{client: c, origin: r.OriginTime, fieldsDiffer: r.ReceiveTime != r.TransmitTime, rxt64In: ntp.Time64FromTime(rxt)}
						call := clock.Add(1)
						server.HandleRequestV(c, &r, &rxt, &txt, &resp)
						ret := clock.Add(1)
						local = append(local, porcupine.Operation{ClientId: g, Input: in, Call: call, Return: ret,
							Output: reqOut{origin: resp.OriginTime, rx: resp.ReceiveTime, tx: resp.TransmitTime, sw: ntp.Time64FromTime(txt), reqTx: r.TransmitTime, reqRx: r.ReceiveTime}})
						my = append(my, mine{client: c, rxt: rxt, txt: txt, rx64: resp.ReceiveTime})
					case "upd":
						var pend []int
						for i, m := range my {
							if !m.done {
								pend = append(pend, i)
							}
						}
						if len(pend) == 0 {
							continue
						}
						i := pend[o.Which%len(pend)]
						m := my[i]
						k := m.txt
						if !o.Lost {
							k = m.txt.Add(time.Duration(1 + o.Which))
						}
						in := updIn{client: m.client, rx: m.rx64, k: ntp.Time64FromTime(k), lost: o.Lost}
						call := clock.Add(1)
						server.UpdateTXTimestampV(m.client, m.rxt, &k)
						ret := clock.Add(1)
						local = append(local, porcupine.Operation{ClientId: g, Input: in, Call: call, Return: ret, Output: nil})
						my[i].done = true
					}
				}
				mu.Lock()
				hist = append(hist, local...)
				for _, o := range lists[g] {
					if o.Kind == "req" {
						if touched[o.Client] == nil {
							touched[o.Client] = map[int]bool{}
						}
						touched[o.Client][g] = true
					}
				}
				mu.Unlock()
			}(g)
		}
		close(start)
		wg.Wait()
		// quiescent structural invariants
		nmap, nq := server.LenV()
		if nmap != nq {
			t.Fatalf("after the batch: client map %d entries, queue %d", nmap, nq)
		}
		msg := ""
		server.VisitV(func(pos int, it server.ItemV, inMap bool) bool {
			if !inMap || it.Qidx != pos || len(it.Pairs) < 1 || len(it.Pairs) > server.TssItemCapV {
				msg = fmt.Sprintf("after the batch: queue position %d: client %s inMap=%v qidx=%d pairs=%d", pos, it.Key, inMap, it.Qidx, len(it.Pairs))
				return false
			}
			for i, p := range it.Pairs {
				if server.LessV(it.Qval, p.Rx) {
					msg = fmt.Sprintf("after the batch: client %s ranked by %v, older than stored exchange %v", it.Key, it.Qval, p.Rx)
				}
				for _, q := range it.Pairs[:i] {
					if q.Rx == p.Rx {
						msg = fmt.Sprintf("after the batch: client %s keeps receive timestamp %v twice", it.Key, p.Rx)
					}
				}
			}
			return msg == ""
		})
		if msg != "" {
			t.Fatalf("%s", msg)
		}
		res := porcupine.CheckOperationsTimeout(model.ToModel(), hist, 20*time.Second)
		if res == porcupine.Illegal {
			var lines []string
			sort.Slice(hist, func(i, j int) bool { return hist[i].Call < hist[j].Call })
			for _, o := range hist {
				lines = append(lines, fmt.Sprintf("g%d [%d,%d] %+v -> %+v", o.ClientId, o.Call, o.Return, o.Input, o.Output))
			}
			t.Fatalf("concurrent history is not equivalent to any sequential order of the same operations:\n%s", strings.Join(lines, "\n"))
		}
		if res == porcupine.Unknown {
			rec.Label("linearizability-check-timeout")
		}
		contended := false
		for _, gs := range touched {
			if len(gs) >= 2 {
				contended = true
			}
		}
		rec.Eval(contended, ev.Hash(fmt.Sprint(lists), ng), func() any { return map[string]any{"goroutines": ng, "ops": lists[:min(3, len(lists))]} })
		if len(hist) > 1 {
			rec.Count(int64(len(hist) - 1))
		}
	})
}
