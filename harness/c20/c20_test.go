package c20

import (
	"bytes"
	"context"
	"crypto/tls"
	"encoding/hex"
	"encoding/json"
	"fmt"
	"net"
	"os"
	"strconv"
	"testing"
	"time"

	"pgregory.net/rapid"

	"example.com/scion-time/net/ntske"

	"verif/internal/ev"
	"verif/internal/netlab"
	"verif/internal/vt"
)

var ke *netlab.KEServer

func TestMain(m *testing.M) {
	var err error
	ke, err = netlab.NewKEServer(&net.TCPAddr{IP: netlab.Addr(0).AsSlice(), Port: 0})
	if err != nil {
		fmt.Println("VERIF-INCONCLUSIVE: cannot start the scripted NTS-KE server:", err)
		os.Exit(0)
	}
	vt.Main(m)
}

// script: what the scripted key-exchange server does on one connection.
type script struct {
	ALPN     string       `json:"alpn"` // "ntske/1" | "other" | "none" | "both"
	Recs     []netlab.Rec `json:"-"`
	RecsDesc []string     `json:"records"`
	CutAt    int          `json:"cut_at"`   // -1: whole stream; else only the first CutAt bytes are sent
	Segments []int        `json:"segments"` // write sizes
	Reset    string       `json:"reset"`    // "": close normally; "after-handshake": reset before sending anything; "after-send": reset after sending; "stall": keep the connection open, silent, for 5.5 s
}

func (s *script) stream() []byte {
	b := netlab.EncodeRecs(s.Recs)
	if s.CutAt >= 0 && s.CutAt < len(b) {
		b = b[:s.CutAt]
	}
	return b
}

type expectation struct {
	success      bool // the statement's necessary conditions hold
	mustSucceed  bool // ... and nothing questionable is in the stream: the exchange has to succeed
	cookies      [][]byte
	server       string
	port         uint16
	portUnjudged bool // a port record of a length other than 2 was sent
}

// expect is the harness's own reading of the statement, evaluated on the bytes actually sent.
func expect(s *script, keHost string) expectation {
	var e expectation
	if s.ALPN != "ntske/1" && s.ALPN != "both" {
		return e
	}
	if s.Reset == "after-handshake" {
		return e
	}
	rs, _ := netlab.ParseRecs(s.stream())
	aead, ended, questionable := -1, false, false
	e.server, e.port = keHost, 123
	for _, r := range rs {
		if ended {
			break
		}
		switch r.Type {
		case netlab.RecEnd:
			ended = true
		case netlab.RecNextProto:
			if len(r.Body) != 2 {
				questionable = true
			}
		case netlab.RecAEAD:
			if len(r.Body) == 2 {
				aead = int(r.Body[0])<<8 | int(r.Body[1])
			} else {
				// the body is a list of 16-bit identifiers; a reply that lists more than one (or has an odd
				// trailing byte) is malformed, but if the list names algorithm 15 a client that takes it as the
				// selection has not broken the statement: success is admissible, not required
				questionable = true
				for i := 0; i+2 <= len(r.Body); i += 2 {
					if r.Body[i] == 0 && r.Body[i+1] == 15 {
						aead = 15
					}
				}
			}
		case netlab.RecCookie:
			// a cookie is good for one request: the pool holds one copy of a cookie the server sends twice
			dup := false
			for _, c := range e.cookies {
				dup = dup || bytes.Equal(c, r.Body)
			}
			if !dup {
				e.cookies = append(e.cookies, r.Body)
			}
		case netlab.RecServer:
			e.server = string(r.Body)
		case netlab.RecPort:
			if len(r.Body) == 2 {
				e.port = uint16(r.Body[0])<<8 | uint16(r.Body[1])
			} else {
				questionable, e.portUnjudged = true, true
			}
		case netlab.RecError:
			return expectation{}
		case netlab.RecWarning:
			questionable = true // a client may treat a warning as an error
		default:
			if r.Critical {
				return expectation{}
			}
		}
	}
	if !ended || aead != 15 || len(e.cookies) == 0 {
		return expectation{}
	}
	e.success = true
	// a connection reset right after sending may destroy data the client has not read yet: either outcome is admissible
	e.mustSucceed = !questionable && s.Reset != "after-send"
	return e
}

// install makes the scripted server play s on the next connections; keys of each connection are reported on ch.
type connKeys struct{ c2s, s2c []byte }

func install(s *script, ch chan connKeys) {
	var alpn []string
	switch s.ALPN {
	case "ntske/1":
		alpn = []string{"ntske/1"}
	case "other":
		alpn = []string{"http/1.1"}
	case "both":
		alpn = []string{"http/1.1", "ntske/1"}
	}
	ke.Set(alpn, func(c *netlab.KEConn) {
		if s.Reset == "after-handshake" {
			reset(c)
			return
		}
		c.ReadRequest()
		c2s, s2c, _ := c.Keys()
		select {
		case ch <- connKeys{c2s, s2c}:
		default:
		}
		c.WriteSegments(s.stream(), s.Segments)
		if s.Reset == "after-send" {
			reset(c)
		}
		if s.Reset == "stall" {
			time.Sleep(5500 * time.Millisecond)
		}
	})
}

func reset(c *netlab.KEConn) {
	if tc, ok := c.Conn.NetConn().(*net.TCPConn); ok {
		tc.SetLinger(0)
		tc.Close()
	}
}

func newFetcher() *ntske.Fetcher {
	capt := &netlab.Capture{}
	return &ntske.Fetcher{
		Log: capt.Logger(),
		TLSConfig: tls.Config{
			NextProtos: []string{"ntske/1"}, InsecureSkipVerify: true,
			ServerName: ke.Addr.IP.String(), MinVersion: tls.VersionTLS13,
		},
		Port: strconv.Itoa(ke.Addr.Port),
	}
}

// ---------------------------------------------------------------- generator

// genFraming builds streams in which a record of a known type has a body that is not two bytes long, followed by
// bytes arranged so that a reader which consumes two body bytes regardless of the declared length finds plausible
// records again: every one of them fails the statement's conditions when read with the declared lengths.
func genFraming(t *rapid.T) []netlab.Rec {
	np := netlab.Rec{Type: netlab.RecNextProto, Critical: true, Body: netlab.U16(0)}
	aead := netlab.Rec{Type: netlab.RecAEAD, Critical: true, Body: netlab.U16(15)}
	ck := netlab.Rec{Type: netlab.RecCookie, Body: rapid.SliceOfN(rapid.Byte(), 1, 124).Draw(t, "fcookie")}
	end := netlab.Rec{Type: netlab.RecEnd, Critical: true}
	switch rapid.IntRange(0, 3).Draw(t, "framing") {
	case 0: // no algorithm selected (empty AEAD body), no cookie: the next record's type field reads as algorithm 15,
		// its length field as the type of a cookie record
		c := rapid.SliceOfN(rapid.Byte(), 1, 40).Draw(t, "shadowcookie")
		body := append([]byte{byte(len(c) >> 8), byte(len(c))}, c...)
		// the unknown record's body length must read as record type 5 (cookie): pad the body to 5 bytes or use 5
		if len(body) != 5 {
			c = c[:min(len(c), 3)]
			for len(c) < 3 {
				c = append(c, 0xc0)
			}
			body = append([]byte{0, 3}, c...)
		}
		return []netlab.Rec{np, {Type: netlab.RecAEAD, Critical: true, Body: nil}, {Type: 15, Body: body}, end}
	case 1: // an error record hidden behind a next-protocol record with a long body
		code := rapid.SampledFrom([]uint16{0, 1, 2, 77}).Draw(t, "hidden-error")
		return []netlab.Rec{{Type: netlab.RecNextProto, Critical: true, Body: []byte{0, 0, 0, 0x63, 0, 6}},
			{Type: netlab.RecError, Critical: true, Body: netlab.U16(code)}, aead, ck, end}
	case 2: // a critical unknown record hidden behind an empty port record
		return []netlab.Rec{np, aead, ck, {Type: netlab.RecPort, Body: nil}, {Type: 0x1234, Critical: true, Body: []byte{0, 2, 0, 15}}, end}
	default: // an error record with an empty body: still an error record
		return []netlab.Rec{np, aead, ck, {Type: netlab.RecError, Critical: true, Body: nil}, {Type: 9, Body: []byte{0, 0}}, end}
	}
}

func genScript(t *rapid.T) *script {
	s := &script{CutAt: -1}
	s.ALPN = rapid.SampledFrom([]string{"ntske/1", "ntske/1", "ntske/1", "ntske/1", "ntske/1", "both", "other", "none"}).Draw(t, "alpn")
	if rapid.IntRange(0, 7).Draw(t, "framing-script") == 0 {
		s.ALPN = "ntske/1"
		s.Recs = genFraming(t)
		for _, r := range s.Recs {
			s.RecsDesc = append(s.RecsDesc, fmt.Sprintf("type=%d critical=%v len=%d", r.Type, r.Critical, len(r.Body)))
		}
		s.Segments = []int{1 << 20}
		return s
	}
	ncookies := rapid.OneOf(rapid.IntRange(1, 8), rapid.Just(8), rapid.Just(1)).Draw(t, "ncookies")
	aead := uint16(15)
	var recs []netlab.Rec
	recs = append(recs, netlab.Rec{Type: netlab.RecNextProto, Critical: true, Body: netlab.U16(0)})
	hasAEAD := true
	switch rapid.IntRange(0, 11).Draw(t, "aead-variant") {
	case 0:
		aead = rapid.SampledFrom([]uint16{0, 14, 16, 17, 0x0f00}).Draw(t, "aead")
	case 1:
		hasAEAD = false
	}
	if hasAEAD {
		body := netlab.U16(aead)
		// a list of identifiers instead of the single one a server should send: with 15 first, 15 second, or 15
		// followed by a stray byte (success admissible); or a list without 15 (success forbidden)
		switch rapid.IntRange(0, 19).Draw(t, "aead-list") {
		case 0:
			body = append(netlab.U16(15), netlab.U16(rapid.SampledFrom([]uint16{14, 16, 17}).Draw(t, "aead2"))...)
		case 1:
			body = append(netlab.U16(rapid.SampledFrom([]uint16{14, 16, 17}).Draw(t, "aead2")), netlab.U16(15)...)
		case 2:
			body = append(netlab.U16(15), rapid.Byte().Draw(t, "stray"))
		case 3:
			body = []byte{0x0f, 0x00, 0x0f, 0x10} // 15 only at an odd position
		}
		recs = append(recs, netlab.Rec{Type: netlab.RecAEAD, Critical: true, Body: body})
	}
	if rapid.Bool().Draw(t, "has-server") {
		recs = append(recs, netlab.Rec{Type: netlab.RecServer, Body: []byte(rapid.SampledFrom([]string{netlab.Addr(2).String(), netlab.Addr(3).String(), "127.0.0.9"}).Draw(t, "server"))})
	}
	if rapid.Bool().Draw(t, "has-port") {
		recs = append(recs, netlab.Rec{Type: netlab.RecPort, Body: netlab.U16(rapid.Uint16Range(1, 65535).Draw(t, "port"))})
	}
	if rapid.IntRange(0, 11).Draw(t, "zero-cookies") == 7 {
		ncookies = 0
	}
	for i := 0; i < ncookies; i++ {
		l := rapid.OneOf(rapid.Just(124), rapid.IntRange(1, 300)).Draw(t, "cookie-len")
		c := make([]byte, l)
		v := rapid.Uint64().Draw(t, "cookie-fill")
		for j := range c {
			c[j] = byte(v>>(8*uint(j%8))) ^ byte(j)
		}
		recs = append(recs, netlab.Rec{Type: netlab.RecCookie, Body: c})
	}
	// optional reordering of everything before the end record
	if rapid.IntRange(0, 3).Draw(t, "reorder") == 2 {
		perm := rapid.Permutation(recs).Draw(t, "perm")
		recs = perm
	}
	// inserted records at arbitrary positions
	nins := rapid.IntRange(0, 2).Draw(t, "ninserted")
	for i := 0; i < nins; i++ {
		var r netlab.Rec
		switch rapid.SampledFrom([]string{"unknown-noncritical", "unknown-noncritical", "unknown-critical", "error", "warning"}).Draw(t, "inserted") {
		case "unknown-noncritical":
			// type 15 reads as "AES-SIV-CMAC-256" when a record boundary is lost; small types sit next to the known ones
			r = netlab.Rec{Type: rapid.OneOf(rapid.SampledFrom([]uint16{15, 15, 8, 9, 16, 0x0100}), rapid.Uint16Range(8, 0x7fff)).Draw(t, "utype"), Body: make([]byte, rapid.IntRange(0, 40).Draw(t, "ulen"))}
		case "unknown-critical":
			r = netlab.Rec{Type: rapid.Uint16Range(8, 0x7fff).Draw(t, "utype"), Critical: true, Body: make([]byte, rapid.IntRange(0, 40).Draw(t, "ulen"))}
		case "error":
			r = netlab.Rec{Type: netlab.RecError, Critical: true, Body: netlab.U16(rapid.SampledFrom([]uint16{0, 1, 2, 77}).Draw(t, "ecode"))}
		case "warning":
			r = netlab.Rec{Type: netlab.RecWarning, Critical: true, Body: netlab.U16(rapid.SampledFrom([]uint16{0, 1}).Draw(t, "wcode"))}
		}
		pos := rapid.IntRange(0, len(recs)).Draw(t, "inspos")
		recs = append(recs[:pos], append([]netlab.Rec{r}, recs[pos:]...)...)
	}
	// records of known types whose body is not the two bytes their type prescribes (an empty AEAD record is what a
	// server sends when it supports none of the offered algorithms), and bodies that look like record headers: a
	// reader that does not consume exactly the declared body length loses the record boundaries
	hdrLike := rapid.SliceOfN(rapid.SampledFrom([]byte{0x00, 0x00, 0x80, 0x01, 0x02, 0x03, 0x04, 0x05, 0x06, 0x07, 0x0f, 0x10, 0xc0}), 0, 12)
	if rapid.IntRange(0, 2).Draw(t, "odd-known-bodies") == 0 {
		for n := rapid.IntRange(1, 3).Draw(t, "nodd"); n > 0 && len(recs) > 0; n-- {
			i := rapid.IntRange(0, len(recs)-1).Draw(t, "oddpos")
			switch recs[i].Type {
			case netlab.RecNextProto, netlab.RecAEAD, netlab.RecPort, netlab.RecError, netlab.RecWarning:
				recs[i].Body = hdrLike.Draw(t, "oddbody")
			default:
				if recs[i].Type >= 8 { // unknown record: a body that looks like records
					recs[i].Body = hdrLike.Draw(t, "ubody")
				}
			}
		}
	}
	if rapid.IntRange(0, 9).Draw(t, "no-end") != 3 {
		recs = append(recs, netlab.Rec{Type: netlab.RecEnd, Critical: true})
		if rapid.IntRange(0, 5).Draw(t, "after-end") == 2 {
			recs = append(recs, netlab.Rec{Type: netlab.RecError, Critical: true, Body: netlab.U16(1)},
				netlab.Rec{Type: 0x1234, Critical: true, Body: []byte{1, 2, 3}})
		}
	}
	s.Recs = recs
	total := len(netlab.EncodeRecs(recs))
	if rapid.IntRange(0, 4).Draw(t, "truncate") == 1 && total > 0 {
		s.CutAt = rapid.IntRange(0, total-1).Draw(t, "cut")
	}
	switch rapid.IntRange(0, 4).Draw(t, "segkind") {
	case 0:
		s.Segments = []int{1}
	case 1:
		s.Segments = []int{rapid.IntRange(1, 20).Draw(t, "seg")}
	case 2:
		s.Segments = rapid.SliceOfN(rapid.IntRange(1, 200), 1, 20).Draw(t, "segs")
	default:
		s.Segments = []int{1 << 20}
	}
	switch rapid.IntRange(0, 14).Draw(t, "reset") {
	case 3:
		s.Reset = "after-handshake"
	case 9:
		s.Reset = "after-send"
	case 12:
		if rapid.IntRange(0, 9).Draw(t, "stall") == 0 {
			s.Reset = "stall" // the server stops there and keeps the connection open for longer than the exchange may take
		}
	}
	for _, r := range recs {
		s.RecsDesc = append(s.RecsDesc, fmt.Sprintf("type=%d critical=%v len=%d", r.Type, r.Critical, len(r.Body)))
	}
	return s
}

// ---------------------------------------------------------------- oracle

type failer interface {
	Fatalf(format string, args ...any)
}

// exchangeOutcome performs one FetchData on f expecting a key exchange with script s.
type model struct {
	pool     [][]byte
	c2s, s2c []byte
	server   string
	port     uint16
}

func sameCookies(a, b [][]byte) bool {
	if len(a) != len(b) {
		return false
	}
	for i := range a {
		if !bytes.Equal(a[i], b[i]) {
			return false
		}
	}
	return true
}

// fetch calls FetchData once and checks it against the model; returns a label.
func fetch(t failer, f *ntske.Fetcher, m *model, s *script, hist *[]string) string {
	ch := make(chan connKeys, 4)
	install(s, ch)
	before := ke.Conns()
	ctx, cancel := context.WithTimeout(context.Background(), 3*time.Second)
	data, err := f.FetchData(ctx)
	cancel()
	ke.Wait()
	opened := ke.Conns() - before
	keHost := ke.Addr.IP.String()
	if len(m.pool) > 0 {
		*hist = append(*hist, fmt.Sprintf("fetch with %d cookies in the pool -> err=%v conns=%d", len(m.pool), err, opened))
		if opened != 0 {
			t.Fatalf("a new key exchange was performed although %d cookies were left in the pool (history %v)", len(m.pool), *hist)
		}
		if err != nil {
			t.Fatalf("FetchData failed with cookies in the pool: %v", err)
		}
		if !sameCookies(data.Cookie, m.pool) || !bytes.Equal(data.C2sKey, m.c2s) || !bytes.Equal(data.S2cKey, m.s2c) || data.Server != m.server || data.Port != m.port {
			t.Fatalf("cached data differs from what the successful exchange delivered: %d cookies (want %d), server %s:%d (want %s:%d)", len(data.Cookie), len(m.pool), data.Server, data.Port, m.server, m.port)
		}
		m.pool = m.pool[1:]
		return "served-from-pool"
	}
	e := expect(s, keHost)
	*hist = append(*hist, fmt.Sprintf("exchange alpn=%s recs=%v cut=%d reset=%q seg=%v -> err=%v conns=%d (expect success=%v must=%v)", s.ALPN, s.RecsDesc, s.CutAt, s.Reset, s.Segments[:min(3, len(s.Segments))], err, opened, e.success, e.mustSucceed))
	if opened != 1 {
		t.Fatalf("empty pool: expected exactly one new key-exchange connection, saw %d (err=%v; history %v)", opened, err, *hist)
	}
	if err == nil && !e.success {
		t.Fatalf("key exchange succeeded although the statement's conditions do not hold (history %v)", *hist)
	}
	if err != nil && e.mustSucceed {
		t.Fatalf("well-formed key exchange failed: %v (history %v)", err, *hist)
	}
	if err != nil {
		if len(data.Cookie) != 0 || data.C2sKey != nil {
			t.Fatalf("failed exchange returned data")
		}
		return "exchange-failed"
	}
	var k connKeys
	select {
	case k = <-ch:
	default:
		t.Fatalf("successful exchange but the scripted server saw no request")
	}
	if !bytes.Equal(data.C2sKey, k.c2s) || !bytes.Equal(data.S2cKey, k.s2c) {
		t.Fatalf("client keys differ from the RFC 8915 exporter values of the server's side of the session")
	}
	if bytes.Equal(data.C2sKey, data.S2cKey) || len(data.C2sKey) != 32 {
		t.Fatalf("C2S and S2C keys are equal or not 32 bytes")
	}
	if !sameCookies(data.Cookie, e.cookies) {
		t.Fatalf("cookie pool after the exchange has %d cookies, %d were issued (or contents/order differ) (history %v)", len(data.Cookie), len(e.cookies), *hist)
	}
	if data.Server != e.server || (data.Port != e.port && !e.portUnjudged) {
		t.Fatalf("NTP server to use is %s:%d, the exchange named %s:%d", data.Server, data.Port, e.server, e.port)
	}
	if data.Algo != 15 {
		t.Fatalf("negotiated algorithm %d", data.Algo)
	}
	m.pool, m.c2s, m.s2c, m.server, m.port = e.cookies[1:], k.c2s, k.s2c, e.server, e.port
	return "exchange-succeeded"
}

var rec = ev.New("c20/fetcher-histories", "rapid state machine on one real ntske.Fetcher (TLS) against the harness's scripted TLS 1.3 key-exchange server (run-time self-signed certificate): each step is one FetchData call; when the model pool is empty the server plays a generated script: ALPN {ntske/1, both, other, none}; record stream from a grammar (next protocol, AEAD 15 / other / missing, optional server and port records, 0..8 cookies of 1..300 bytes, optional reordering, inserted unknown non-critical / unknown critical / error (0,1,2,77) / warning records at any position, end record present or missing, records after the end; known record types with bodies of 0..12 bytes instead of 2 and bodies that look like record headers), truncation at any byte offset, write segmentation {1 byte, n bytes, random sizes, all at once}, connection reset after the handshake or after sending, or (rarely) left open and silent for longer than the exchange's time limit. Oracle: success only if the statement's conditions hold on the bytes sent (own record parser); plain well-formed streams (with unknown non-critical records, extra records after the end, any segmentation) must succeed; on success keys == exporter values of the server's side of the same TLS session (label and contexts written out independently), C2S != S2C, pool == the distinct issued cookies in order, server/port as named or KE host:123; following calls are served from the pool without a new connection, one cookie each, same keys; after a failure the next call opens exactly one new connection and depends on the new script only. One evaluation = one FetchData call. Non-trivial: history with a script that delivers >= 1 cookie and then fails, a success after a failure, or a segmented record; distinct by history hash")

func TestPropFetcherHistories(t *testing.T) {
	vt.Check(t, 250, 2500, func(t *rapid.T) {
		f := newFetcher()
		m := &model{}
		var hist []string
		labels := map[string]int{}
		failedBefore := false
		n := rapid.IntRange(1, 14).Draw(t, "steps")
		for i := 0; i < n; i++ {
			s := genScript(t)
			if len(m.pool) == 0 {
				e := expect(s, "")
				rs, _ := netlab.ParseRecs(s.stream())
				ncook := 0
				for _, r := range rs {
					if r.Type == netlab.RecCookie {
						ncook++
					}
				}
				if !e.success && ncook > 0 {
					labels["cookies-then-failure"]++
				}
				if len(s.Segments) > 0 && s.Segments[0] < 100 {
					labels["segmented"]++
				}
			}
			l := fetch(t, f, m, s, &hist)
			labels[l]++
			if l == "exchange-failed" {
				failedBefore = true
			} else if l == "exchange-succeeded" && failedBefore {
				labels["success-after-failure"]++
			}
		}
		var ls []string
		for l := range labels {
			ls = append(ls, l)
		}
		nt := labels["cookies-then-failure"] > 0 || labels["success-after-failure"] > 0 || labels["segmented"] > 0
		rec.Eval(nt, ev.Hash(fmt.Sprint(hist)), func() any { return hist[:min(len(hist), 6)] }, ls...)
		if n > 1 {
			rec.Count(int64(n - 1))
		}
	})
}

// TestExhaustiveTruncation: a valid 8-cookie message cut at every byte offset, each on a fresh fetcher and as
// the first step of a two-step history (failure, then a complete exchange).
var recTr = ev.New("c20/truncation-sweep", "enumeration: the valid message (next protocol, AEAD 15, server, port, 8 cookies of 124 bytes, end) truncated at every byte offset (thorough: every offset; quick: every 5th, rotating with VERIF_SEED), written in one segment and in 7-byte segments; each followed by a complete exchange on the same fetcher. Oracle as c20/fetcher-histories. Non-trivial: cut inside or after the first cookie record; distinct by (offset, segmentation)")

func TestExhaustiveTruncation(t *testing.T) {
	base := &script{ALPN: "ntske/1", CutAt: -1, Segments: []int{1 << 20}}
	base.Recs = []netlab.Rec{
		{Type: netlab.RecNextProto, Critical: true, Body: netlab.U16(0)},
		{Type: netlab.RecAEAD, Critical: true, Body: netlab.U16(15)},
		{Type: netlab.RecServer, Body: []byte(netlab.Addr(2).String())},
		{Type: netlab.RecPort, Body: netlab.U16(4123)},
	}
	for i := 0; i < 8; i++ {
		base.Recs = append(base.Recs, netlab.Rec{Type: netlab.RecCookie, Body: bytes.Repeat([]byte{byte(0x10 + i)}, 124)})
	}
	base.Recs = append(base.Recs, netlab.Rec{Type: netlab.RecEnd, Critical: true})
	total := len(netlab.EncodeRecs(base.Recs))
	step, start := 5, vt.Seed()%5
	if vt.Thorough() {
		step, start = vt.Shards(), vt.Shard()
		recTr.Exhaustive = true
	}
	var n, nt int64
	for cut := start; cut < total; cut += step {
		for _, seg := range [][]int{{1 << 20}, {7}} {
			s := *base
			s.CutAt, s.Segments = cut, seg
			f := newFetcher()
			m := &model{}
			var hist []string
			c := map[string]any{"cut_at": cut, "segments": seg}
			fetch(exhFail{t, c}, f, m, &s, &hist)
			fetch(exhFail{t, c}, f, m, base, &hist) // a complete new exchange must follow
			if len(m.pool) != 7 {
				vt.Violation(t, c, "after a truncated exchange (cut at %d) and a complete one the pool holds %d cookies, want 7 (history %v)", cut, len(m.pool), hist)
			}
			n += 2
			if cut > 40 {
				nt++
			}
		}
	}
	recTr.Count(n)
	recTr.AddDistinct(uint64(start), nt)
	recTr.Sample(map[string]any{"stream_bytes": total, "offsets_from": start, "stride": step})
}

type exhFail struct {
	t testing.TB
	c any
}

func (e exhFail) Fatalf(format string, args ...any) { vt.Violation(e.t, e.c, format, args...) }

var _ = hex.EncodeToString
var _ = json.Marshal
