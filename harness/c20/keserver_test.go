package c20

// The server's half of "On success client and server hold identical client-to-server and server-to-client keys (the
// RFC 8915 exporter values of that TLS session)": the project's key-exchange server (real accept loop and handler,
// verif hook) against a harness client that is not this project's - it offers several AEAD algorithms in any order,
// as RFC 8915 allows. The keys the server holds are the ones it seals into its cookies.

import (
	"bytes"
	"context"
	"crypto/tls"
	"encoding/binary"
	"fmt"
	"io"
	"log/slog"
	"net"
	"sync"
	"testing"
	"time"

	"pgregory.net/rapid"

	"example.com/scion-time/core/server"
	"example.com/scion-time/net/ntske"

	"verif/internal/ev"
	"verif/internal/netlab"
	"verif/internal/vt"
)

type pipeTCP struct{ net.Conn }

func (c pipeTCP) LocalAddr() net.Addr  { return &net.TCPAddr{IP: net.IPv4(127, 0, 0, 1), Port: 4460} }
func (c pipeTCP) RemoteAddr() net.Addr { return &net.TCPAddr{IP: net.IPv4(127, 0, 0, 2), Port: 40000} }

type pipeListener struct{ ch chan net.Conn }

func (l *pipeListener) Accept() (net.Conn, error) { return <-l.ch, nil }
func (l *pipeListener) Close() error              { return nil }
func (l *pipeListener) Addr() net.Addr            { return &net.TCPAddr{IP: net.IPv4(127, 0, 0, 1), Port: 4460} }

var (
	keSrvOnce sync.Once
	keSrvL    *pipeListener
	keSrvProv *ntske.Provider
	keSrvCert tls.Certificate
	keSrvErr  error
)

var generousLeft = 6

var recKESrv = ev.New("c20/key-exchange-server-keys", "rapid: the project's NTS-KE server (real accept loop and handler through the verif hook, in-memory connections, real TLS 1.3) serves a harness client whose request lists 1..3 AEAD algorithms in any order (15 alone, 15 first, 15 behind 17 / 30 / 16, without 15), with the next-protocol record before or after the AEAD record. Oracle: if the server's response selects algorithm 15 and ends properly, every cookie opens under the provider's key to exactly the RFC 8915 exporter values of the client's side of the session for NTPv4 / AEAD 15 (label and contexts written out in the harness), C2S != S2C; whether the server should refuse an offer without algorithm 15 is not judged. One evaluation = one exchange. Non-trivial: algorithm 15 offered but not first; distinct by offer")

func TestPropKeyExchangeServerKeys(t *testing.T) {
	keSrvOnce.Do(func() {
		keSrvCert, keSrvErr = netlab.SelfSigned()
		if keSrvErr != nil {
			return
		}
		keSrvL = &pipeListener{ch: make(chan net.Conn)}
		keSrvProv = ntske.NewProvider()
		go server.RunNTSKEServerTLSV(context.Background(), slog.New(slog.NewTextHandler(io.Discard, nil)), keSrvL, 123, keSrvProv)
	})
	if keSrvErr != nil {
		vt.Inconclusive(t, "certificate: %v", keSrvErr)
	}
	offers := [][]uint16{{15}, {15}, {15, 17}, {17, 15}, {30, 15}, {16, 17, 15}, {15, 15}, {17}, {30, 16}}
	vt.Check(t, 200, 2000, func(t *rapid.T) {
		offer := rapid.SampledFrom(offers).Draw(t, "aead-offer")
		protoFirst := rapid.Bool().Draw(t, "next-protocol-first")
		var body []byte
		for _, a := range offer {
			body = binary.BigEndian.AppendUint16(body, a)
		}
		np := netlab.Rec{Type: netlab.RecNextProto, Critical: true, Body: netlab.U16(0)}
		ae := netlab.Rec{Type: netlab.RecAEAD, Critical: true, Body: body}
		recs := []netlab.Rec{np, ae}
		if !protoFirst {
			recs = []netlab.Rec{ae, np}
		}
		recs = append(recs, netlab.Rec{Type: netlab.RecEnd, Critical: true})
		// one exchange on a fresh in-memory connection, bounded by d
		var cli *tls.Conn
		exchange := func(d time.Duration) ([]byte, bool) {
			c1, c2 := net.Pipe()
			keSrvL.ch <- tls.Server(pipeTCP{c2}, &tls.Config{Certificates: []tls.Certificate{keSrvCert}, NextProtos: []string{"ntske/1"}, MinVersion: tls.VersionTLS13})
			cli = tls.Client(c1, &tls.Config{InsecureSkipVerify: true, NextProtos: []string{"ntske/1"}, MinVersion: tls.VersionTLS13})
			c1.SetDeadline(time.Now().Add(d))
			if err := cli.Handshake(); err != nil {
				c1.Close()
				return nil, false
			}
			if _, err := cli.Write(netlab.EncodeRecs(recs)); err != nil {
				c1.Close()
				return nil, false
			}
			rsp, err := io.ReadAll(cli)
			c1.Close()
			return rsp, err == nil
		}
		// in memory a handler that answers does so within milliseconds; a silent one is given a second, generous chance
		// (a stall of this process) before its silence counts
		rsp, complete := exchange(700 * time.Millisecond)
		if !complete && generousLeft > 0 {
			generousLeft-- // a handler that is silent again and again is silent for a reason: a few second chances per run
			rsp, _ = exchange(6 * time.Second)
		}
		rrs, _ := netlab.ParseRecs(rsp)
		selected, ended, isErr := -1, false, false
		var cookies [][]byte
		for _, r := range rrs {
			switch r.Type {
			case netlab.RecAEAD:
				if len(r.Body) >= 2 {
					selected = int(binary.BigEndian.Uint16(r.Body))
				}
			case netlab.RecCookie:
				cookies = append(cookies, r.Body)
			case netlab.RecEnd:
				ended = true
			case netlab.RecError:
				isErr = true
			}
		}
		has15 := false
		for _, a := range offer {
			has15 = has15 || a == 15
		}
		label := "refused-or-nothing-selected"
		if len(cookies) > 0 && !isErr {
			if selected != 15 || !ended {
				t.Fatalf("offer %v: the server issued %d cookies but selected algorithm %d (end of message: %v)", offer, len(cookies), selected, ended)
			}
			if !has15 {
				// the project's server always answers with algorithm 15; what a client that never offered it makes of
				// that is not part of the statement (it will not count the exchange as a success)
				recKESrv.Label("algorithm-15-selected-though-not-offered")
			}
			cs := cli.ConnectionState()
			const exporterLabel = "EXPORTER-network-time-security"
			c2s, err1 := cs.ExportKeyingMaterial(exporterLabel, []byte{0, 0, 0, 15, 0}, 32)
			s2c, err2 := cs.ExportKeyingMaterial(exporterLabel, []byte{0, 0, 0, 15, 1}, 32)
			if err1 != nil || err2 != nil || bytes.Equal(c2s, s2c) {
				t.Fatalf("harness: exporter: %v %v", err1, err2)
			}
			for i, ck := range cookies {
				var e ntske.EncryptedServerCookie
				if err := e.Decode(ck); err != nil {
					t.Fatalf("offer %v: cookie %d does not decode: %v", offer, i, err)
				}
				k, ok := keSrvProv.Get(int(e.ID))
				if !ok {
					t.Fatalf("offer %v: cookie %d names key %d, which the provider does not hold", offer, i, e.ID)
				}
				sc, err := e.Decrypt(k.Value)
				if err != nil {
					t.Fatalf("offer %v: cookie %d does not open under the provider's key: %v", offer, i, err)
				}
				if sc.Algo != 15 || !bytes.Equal(sc.C2S, c2s) || !bytes.Equal(sc.S2C, s2c) {
					t.Fatalf("client offered AEAD algorithms %v, the server selected 15: the keys the server sealed into cookie %d (algorithm %d) are not the RFC 8915 exporter values of this session for AEAD 15 - client and server do not hold identical keys", offer, i, sc.Algo)
				}
			}
			label = "exchange-succeeded"
		} else if has15 && len(offer) > 0 && offer[0] == 15 {
			t.Fatalf("offer %v (algorithm 15 first) was not served: %d cookies, error record %v", offer, len(cookies), isErr)
		}
		recKESrv.Eval(has15 && offer[0] != 15, ev.Hash(fmt.Sprint(offer), protoFirst), func() any { return map[string]any{"offer": offer, "outcome": label} }, label)
	})
}
