package c20d

// C20, last clause of the success case: "NTP requests go to the server and port named in the exchange (by default the
// key-exchange host and the standard NTP port)". A real IPClient with NTS performs its key exchange with the harness's
// server and then sends its request; harness sockets on every candidate (address, port) show where it went.

import (
	"context"
	"crypto/tls"
	"fmt"
	"io"
	"log/slog"
	"net"
	"os"
	"strconv"
	"testing"
	"time"

	"pgregory.net/rapid"

	"example.com/scion-time/core/client"
	"example.com/scion-time/core/timebase"
	"example.com/scion-time/driver/clocks"
	"example.com/scion-time/net/ntske"

	"verif/internal/ev"
	"verif/internal/netlab"
	"verif/internal/vt"
)

var (
	ke    *netlab.KEServer
	socks = map[string]*net.UDPConn{} // "ip:port" -> listener
	altIP = netlab.Addr(2)
	altPt = 12399
)

func TestMain(m *testing.M) {
	timebase.RegisterClock(clocks.NewSystemClock(slog.New(slog.NewTextHandler(io.Discard, nil)), clocks.UnknownDrift))
	var err error
	// on 127.0.0.1, so that the name "localhost" designates the key-exchange host
	ke, err = netlab.NewKEServer(&net.TCPAddr{IP: net.IPv4(127, 0, 0, 1), Port: 0})
	if err == nil {
		for _, ip := range []string{"127.0.0.1", altIP.String()} {
			for _, port := range []int{123, altPt} {
				var c *net.UDPConn
				if c, err = net.ListenUDP("udp", &net.UDPAddr{IP: net.ParseIP(ip), Port: port}); err != nil {
					break
				}
				socks[net.JoinHostPort(ip, strconv.Itoa(port))] = c
			}
		}
	}
	if err != nil {
		fmt.Println("VERIF-INCONCLUSIVE: cannot set up the key-exchange server and the candidate NTP sockets:", err)
		os.Exit(0)
	}
	vt.Main(m)
}

type destCase struct {
	Host   string `json:"configured_key_exchange_host"` // what the client is configured with
	Server string `json:"server_record"`                // "": no server record
	Port   int    `json:"port_record"`                  // 0: no port record
}

var rec = ev.New("c20/request-destination", "rapid: a real IPClient with NTS, configured with the key-exchange host as IP literal or as the name localhost, exchanges keys with the harness's server, whose response has / has not a server record (IP literal of this or another host) and a port record; harness UDP sockets listen on {key-exchange host, other host} x {123, other port}. Oracle: exactly one NTS request arrives, at (server record or else the key-exchange host's address, port record or else 123). One evaluation = one measurement call. Non-trivial: a default is used (no server or no port record) or the host is configured by name; distinct by case")

func TestPropRequestDestination(t *testing.T) {
	vt.Check(t, 60, 600, func(t *rapid.T) {
		c := destCase{
			Host:   rapid.SampledFrom([]string{"127.0.0.1", "localhost", "localhost"}).Draw(t, "host"),
			Server: rapid.SampledFrom([]string{"", "", "127.0.0.1", altIP.String(), "localhost"}).Draw(t, "server"),
			Port:   rapid.SampledFrom([]int{0, 0, 123, altPt}).Draw(t, "port"),
		}
		ke.Set([]string{"ntske/1"}, func(kc *netlab.KEConn) {
			kc.ReadRequest()
			recs := []netlab.Rec{{Type: netlab.RecNextProto, Critical: true, Body: netlab.U16(0)}, {Type: netlab.RecAEAD, Critical: true, Body: netlab.U16(15)}}
			if c.Server != "" {
				recs = append(recs, netlab.Rec{Type: netlab.RecServer, Body: []byte(c.Server)})
			}
			if c.Port != 0 {
				recs = append(recs, netlab.Rec{Type: netlab.RecPort, Body: netlab.U16(uint16(c.Port))})
			}
			for i := 0; i < 8; i++ {
				ck := make([]byte, 124)
				ck[0], ck[1] = byte(i), 0x77
				recs = append(recs, netlab.Rec{Type: netlab.RecCookie, Body: ck})
			}
			recs = append(recs, netlab.Rec{Type: netlab.RecEnd, Critical: true})
			kc.WriteSegments(netlab.EncodeRecs(recs), nil)
		})
		buf := make([]byte, 4096)
		for _, s := range socks { // drain
			for {
				s.SetReadDeadline(time.Now().Add(200 * time.Microsecond))
				if _, _, err := s.ReadFromUDP(buf); err != nil {
					break
				}
			}
		}
		cl := &client.IPClient{Log: slog.New(slog.NewTextHandler(io.Discard, nil))}
		cl.Auth.Enabled = true
		cl.Auth.NTSKEFetcher = ntske.Fetcher{Log: cl.Log, Port: strconv.Itoa(ke.Addr.Port),
			TLSConfig: tls.Config{NextProtos: []string{"ntske/1"}, InsecureSkipVerify: true, ServerName: c.Host, MinVersion: tls.VersionTLS13}}
		var err error
		// the configured remote address belongs to the caller, who may hand the same object to other clients (the
		// benchmark gives one to ten concurrent clients, each with its own key exchange): where this client's exchange
		// sends it must not be written into it
		configured := &net.UDPAddr{IP: net.IPv4(127, 0, 0, 1), Port: 9}
		attempt := func(d time.Duration) {
			ctx, cancel := context.WithTimeout(context.Background(), d)
			// the configured NTP address is irrelevant once the exchange names one; give it a port nobody listens on
			_, _, err = client.MeasureClockOffsetIP(ctx, cl.Log, cl, &net.UDPAddr{IP: net.IPv4(127, 0, 0, 1)}, configured)
			cancel()
			ke.Wait()
			if !configured.IP.Equal(net.IPv4(127, 0, 0, 1)) || configured.Port != 9 {
				t.Fatalf("the client wrote the server of its own key exchange (%v) into the remote address object of its caller (configured 127.0.0.1:9): another client given the same object sends its request, with its own cookie, there", configured)
			}
		}
		attempt(150 * time.Millisecond)
		wantIP := "127.0.0.1"
		if c.Server != "" && c.Server != "localhost" {
			wantIP = c.Server
		}
		wantPort := 123
		if c.Port != 0 {
			wantPort = c.Port
		}
		want := net.JoinHostPort(wantIP, strconv.Itoa(wantPort))
		got := map[string]int{}
		collect := func() {
			for name, s := range socks {
				for {
					s.SetReadDeadline(time.Now().Add(2 * time.Millisecond))
					n, _, rerr := s.ReadFromUDP(buf)
					if rerr != nil {
						break
					}
					if n > 48 {
						got[name]++
					}
				}
			}
		}
		collect()
		if len(got) == 0 {
			// nothing arrived anywhere: the short deadline may have run out before the request was sent; once more, generously
			attempt(time.Second)
			collect()
		}
		if got[want] != 1 || len(got) != 1 {
			t.Fatalf("configured key-exchange host %q, server record %q, port record %d: NTS request expected at %s, requests seen %v (client error: %v)", c.Host, c.Server, c.Port, want, got, err)
		}
		rec.Eval(c.Server == "" || c.Port == 0 || c.Host == "localhost", ev.Hash(c.Host, c.Server, c.Port), func() any { return c })
	})
}
