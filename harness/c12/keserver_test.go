package c12

// The key-exchange server's use of the provider: "At every instant the key handed out for sealing new cookies is
// within its validity period and was generated no more than the renewal interval (24 h) before ... a cookie remains
// usable for at least two days after it was issued". The cookies of a key exchange are sealed when the response is
// built - which may be long after the connection was accepted, if the peer takes its time. The real accept loop and
// handler (hook RunNTSKEServerTLSV) run inside a synctest bubble on in-memory connections with real TLS 1.3.

import (
	"context"
	"crypto/tls"
	"fmt"
	"io"
	"log/slog"
	"net"
	"runtime"
	"sync"
	"testing"
	"testing/synctest"
	"time"

	"pgregory.net/rapid"

	"example.com/scion-time/core/server"
	"example.com/scion-time/net/ntske"

	"verif/internal/ev"
	"verif/internal/netlab"
	"verif/internal/vt"
)

// tcpConn makes an in-memory connection look like the TCP connection the handler expects.
type tcpConn struct{ net.Conn }

func (c tcpConn) LocalAddr() net.Addr  { return &net.TCPAddr{IP: net.IPv4(127, 0, 0, 1), Port: 4460} }
func (c tcpConn) RemoteAddr() net.Addr { return &net.TCPAddr{IP: net.IPv4(127, 0, 0, 2), Port: 40000} }

type memListener struct {
	ch   chan net.Conn
	done chan struct{}
}

func (l *memListener) Accept() (net.Conn, error) {
	select {
	case c := <-l.ch:
		return c, nil
	case <-l.done:
		runtime.Goexit() // the accept loop has no way out of its own: end its goroutine with the scenario
		return nil, io.EOF
	}
}
func (l *memListener) Close() error   { return nil }
func (l *memListener) Addr() net.Addr { return &net.TCPAddr{IP: net.IPv4(127, 0, 0, 1), Port: 4460} }

type keConn struct {
	Gap   int64 `json:"gap_before_connect"` // virtual time since the previous connection ended
	Pause int64 `json:"pause_before_request"`
}

var recKE = ev.New("c12/key-exchange-server", "rapid: the real NTS-KE accept loop and handler (verif hook) under virtual time: 1..4 client connections over in-memory pipes with real TLS 1.3, each after a gap (0..80 h, dense at 24 h and 72 h +-1 s) and with the client pausing between the handshake and its request (0, seconds, 2 min, 23 h 59 min .. 24 h 1 min, 30 h, 80 h - a peer may take as long as it likes). Oracle, at the instant the response arrives (no virtual time passes while the server builds it): every cookie decodes, names a key that is valid and was generated no more than 24 h before, opens under it, and can still be redeemed 48 h later (redeemed as the listeners do). One evaluation = one connection. Non-trivial: pause or gap of more than 24 h, or a pause that straddles a rotation; distinct by scenario")

func TestPropKeyExchangeServer(tt *testing.T) {
	cert, err := netlab.SelfSigned()
	_ = cert
	if err != nil {
		vt.Inconclusive(tt, "certificate: %v", err)
	}
	durs := []int64{0, int64(time.Second), int64(2 * time.Minute), int64(23*time.Hour + 59*time.Minute), int64(24*time.Hour - time.Second), int64(24*time.Hour + time.Second), int64(24*time.Hour + time.Minute), int64(30 * time.Hour), int64(72*time.Hour - time.Second), int64(72*time.Hour + time.Second), int64(80 * time.Hour)}
	vt.Check(tt, 300, 3000, func(t *rapid.T) {
		var sc []keConn
		for n := rapid.IntRange(1, 4).Draw(t, "connections"); n > 0; n-- {
			sc = append(sc, keConn{
				Gap:   rapid.OneOf(rapid.SampledFrom(durs), rapid.Int64Range(0, int64(80*time.Hour))).Draw(t, "gap"),
				Pause: rapid.OneOf(rapid.SampledFrom(durs), rapid.SampledFrom(durs), rapid.Int64Range(0, int64(80*time.Hour))).Draw(t, "pause"),
			})
		}
		msg, labels := runKE(sc)
		if msg != "" {
			t.Fatalf("%s (scenario %+v)", msg, sc)
		}
		nt := false
		for _, c := range sc {
			nt = nt || c.Pause > int64(24*time.Hour) || c.Gap > int64(24*time.Hour)
		}
		recKE.Eval(nt || len(labels) > 0, ev.Hash(fmt.Sprint(sc)), func() any { return sc }, labels...)
		if len(sc) > 1 {
			recKE.Count(int64(len(sc) - 1))
		}
	})
}

func runKE(sc []keConn) (rmsg string, rlabels []string) {
	var mu sync.Mutex
	var msg string
	var labels []string
	fail := func(format string, args ...any) {
		if msg == "" {
			msg = fmt.Sprintf(format, args...)
		}
	}
	defer func() {
		if r := recover(); r != nil {
			rmsg = fmt.Sprintf("scenario did not run to its end: %v", r)
			return
		}
		mu.Lock()
		rmsg, rlabels = msg, labels
		mu.Unlock()
	}()
	synctest.Run(func() {
		mu.Lock()
		defer mu.Unlock()
		// the bubble's clock starts in the year 2000: the certificate has to be valid there
		cert, err := netlab.SelfSigned()
		if err != nil {
			fail("harness: %v", err)
			return
		}
		p := ntske.NewProvider()
		l := &memListener{ch: make(chan net.Conn), done: make(chan struct{})}
		log := slog.New(slog.NewTextHandler(io.Discard, nil))
		go server.RunNTSKEServerTLSV(context.Background(), log, l, 123, p)
		defer close(l.done)
		for i, c := range sc {
			time.Sleep(time.Duration(c.Gap))
			c1, c2 := net.Pipe()
			l.ch <- tls.Server(tcpConn{c2}, &tls.Config{Certificates: []tls.Certificate{cert}, NextProtos: []string{"ntske/1"}, MinVersion: tls.VersionTLS13})
			cli := tls.Client(c1, &tls.Config{InsecureSkipVerify: true, NextProtos: []string{"ntske/1"}, MinVersion: tls.VersionTLS13})
			if err := cli.Handshake(); err != nil {
				fail("connection %d: TLS handshake: %v", i, err)
				return
			}
			before := p.Current() // what a prompt client would get now (this call is what every listener does all the time)
			time.Sleep(time.Duration(c.Pause))
			req := netlab.EncodeRecs([]netlab.Rec{{Type: netlab.RecNextProto, Critical: true, Body: netlab.U16(0)}, {Type: netlab.RecAEAD, Critical: true, Body: netlab.U16(15)}, {Type: netlab.RecEnd, Critical: true}})
			if _, err := cli.Write(req); err != nil {
				fail("connection %d: write: %v", i, err)
				return
			}
			rsp, _ := io.ReadAll(cli)
			cli.Close()
			now := time.Now()
			recs, _ := netlab.ParseRecs(rsp)
			ncookies := 0
			for _, r := range recs {
				if r.Type == netlab.RecError {
					fail("connection %d: the server answered a well-formed request with an error record", i)
					return
				}
				if r.Type != netlab.RecCookie {
					continue
				}
				ncookies++
				var e ntske.EncryptedServerCookie
				if err := e.Decode(r.Body); err != nil {
					fail("connection %d: issued cookie does not decode: %v", i, err)
					return
				}
				k, ok := lookup(p, e.ID)
				if !ok {
					fail("connection %d (client paused %v before its request): the cookie just issued names key %d, which is not valid", i, time.Duration(c.Pause), e.ID)
					return
				}
				if age := now.Sub(k.Validity.NotBefore); age > renewal {
					fail("connection %d (client paused %v before its request): cookies were sealed under key %d, generated %v before (renewal interval %v)", i, time.Duration(c.Pause), k.ID, age, renewal)
					return
				}
				if r := redeemKeys(p, r.Body, nil, nil); r != "" {
					fail("connection %d: the cookie just issued cannot be redeemed: %s", i, r)
					return
				}
			}
			if ncookies == 0 {
				fail("connection %d: no cookie in the response (%d bytes)", i, len(rsp))
				return
			}
			if before.ID != p.Current().ID {
				labels = append(labels, "rotation-during-pause")
			}
			// two days later the cookies are still good (the wait also serves as part of the next gap)
			time.Sleep(48*time.Hour - time.Second)
			for _, r := range recs {
				if r.Type == netlab.RecCookie {
					if res := redeemKeys(p, r.Body, nil, nil); res != "" {
						fail("connection %d (client paused %v before its request): a cookie cannot be redeemed 47 h 59 min 59 s after it was issued: %s", i, time.Duration(c.Pause), res)
						return
					}
				}
			}
		}
	})
	return
}

func lookup(p *ntske.Provider, id uint16) (ntske.Key, bool) {
	if l, has := any(p).(interface {
		Lookup(uint16) (ntske.Key, bool)
	}); has {
		return l.Lookup(id)
	}
	return p.Get(int(id))
}
