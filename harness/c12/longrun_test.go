package c12

// Long runs: "key identifiers never repeat" and the schedule clauses over hundreds of years of virtual time
// (tens of thousands of rotations), which short operation sequences cannot reach.

import (
	"bytes"
	"fmt"
	"sync"
	"testing"
	"testing/synctest"
	"time"

	"pgregory.net/rapid"

	"example.com/scion-time/net/ntske"

	"verif/internal/ev"
	"verif/internal/vt"
)

var recLong = ev.New("c12/long-run", "rapid: one provider driven through 66 000..80 000 rotations (180..230 years of virtual time; more than 2^16 key identifiers) inside a synctest bubble: between consecutive Current() calls virtual time advances by a gap from a per-run pattern {24 h, 24 h + 1 ns, 24..25 h, 6 h with an occasional 3..5 day gap}. Oracle at every step: the key returned is within its validity and was generated <= 24 h ago, its identifier was never returned for another key before (all identifiers kept), Get of the identifier succeeds now, Get of the identifier handed out more than 3 days of key age ago fails; a cookie sealed under the key as the servers seal it (EncryptWithNonce with the key's identifier, Encode) can be redeemed the way the listeners do (Decode, key lookup by the identifier the cookie carries, Decrypt, same session keys) at once and at every later call within two days of its issue. One evaluation = one Current() call. Non-trivial: every call after the first rotation; distinct by (pattern, step)")

// The bubble's clock starts in the year 2000 and the runtime's timers overflow in 2262 (a sleep that would end
// later crashes the runtime), so a run ends after 250 years of virtual time at the latest; with gaps just above
// the renewal interval that is enough for more than 2^16 rotations (with gaps of exactly 24 h the provider rotates
// every second call only, and the run ends after ~45 000 rotations).
// A cookie as both servers issue it (core/server/ntske.go, and the fresh cookies of every NTP reply): sealed under
// the key Current() returned, carrying that key's identifier.
var sessC2S, sessS2C = bytes.Repeat([]byte{0xc2}, 32), bytes.Repeat([]byte{0x52}, 32)

func issue(k ntske.Key) ([]byte, error) {
	sc := ntske.ServerCookie{Algo: ntske.AES_SIV_CMAC_256, C2S: sessC2S, S2C: sessS2C}
	e, err := sc.EncryptWithNonce(k.Value, k.ID)
	if err != nil {
		return nil, err
	}
	return e.Encode(), nil
}

// redeem opens a cookie the way both listeners do (server_ip.go, server_scion.go): decode, look the key up by the
// identifier the cookie carries, decrypt. (The listeners' lookup is Provider.Lookup where the tree has it, else
// Provider.Get of the decoded identifier.)
func redeem(p *ntske.Provider, cookie []byte) string { return redeemKeys(p, cookie, sessC2S, sessS2C) }

// redeemKeys: with nil keys the session keys inside the cookie are not compared.
func redeemKeys(p *ntske.Provider, cookie, c2s, s2c []byte) string {
	var e ntske.EncryptedServerCookie
	if err := e.Decode(cookie); err != nil {
		return "cookie does not decode: " + err.Error()
	}
	var k ntske.Key
	var ok bool
	if l, has := any(p).(interface {
		Lookup(uint16) (ntske.Key, bool)
	}); has {
		k, ok = l.Lookup(e.ID)
	} else {
		k, ok = p.Get(int(e.ID))
	}
	if !ok {
		return fmt.Sprintf("no valid key for the identifier %d the cookie carries", e.ID)
	}
	sc, err := e.Decrypt(k.Value)
	if err != nil {
		return fmt.Sprintf("cookie does not open under key %d: %v", k.ID, err)
	}
	if c2s != nil && (!bytes.Equal(sc.C2S, c2s) || !bytes.Equal(sc.S2C, s2c)) {
		return "cookie opens to other session keys"
	}
	return ""
}

func longRun(t *testing.T, pattern int, jitter []int64, rotations int) (rmsg string, n int) {
	var mu sync.Mutex
	var msg string
	var steps int
	defer func() {
		mu.Lock()
		rmsg, n = msg, steps
		mu.Unlock()
	}()
	synctest.Run(func() {
		mu.Lock()
		defer mu.Unlock()
		p := ntske.NewProvider()
		seen := make(map[int]time.Time, rotations+16) // identifier -> NotBefore of the key it named
		type old struct {
			id  int
			gen time.Time
		}
		var window []old
		type issued struct {
			cookie []byte
			at     time.Time
			id     int
		}
		var cookies []issued // issued less than two days ago
		last := -1
		start := time.Now()
		for rot := 0; rot < rotations && msg == "" && time.Since(start) < 250*365*24*time.Hour; {
			var gap time.Duration
			j := time.Duration(jitter[steps%len(jitter)])
			switch pattern {
			case 0:
				gap = 24 * time.Hour
			case 1:
				gap = 24*time.Hour + 1
			case 2:
				gap = 24*time.Hour + j%time.Hour
			default: // several calls per key, and now and then a gap that lets more than one key expire
				gap = 6*time.Hour + j%time.Minute
				if steps%997 == 996 {
					gap = 72*time.Hour + j%(48*time.Hour)
				}
			}
			time.Sleep(gap)
			now := time.Now()
			k := p.Current()
			steps++
			if now.Before(k.Validity.NotBefore) || now.After(k.Validity.NotAfter) {
				msg = fmt.Sprintf("step %d: Current() returned key %d outside its validity", steps, k.ID)
				return
			}
			if age := now.Sub(k.Validity.NotBefore); age > renewal {
				msg = fmt.Sprintf("step %d: Current() returned key %d generated %v ago", steps, k.ID, age)
				return
			}
			if gen, ok := seen[k.ID]; ok {
				if !gen.Equal(k.Validity.NotBefore) {
					msg = fmt.Sprintf("step %d (rotation %d): identifier %d names a new key but was already used for the key generated at %v", steps, rot, k.ID, gen)
					return
				}
			} else {
				seen[k.ID] = k.Validity.NotBefore
				if last != -1 {
					rot++
				}
				window = append(window, old{k.ID, k.Validity.NotBefore})
			}
			last = k.ID
			if g, ok := p.Get(k.ID); !ok || g.ID != k.ID {
				msg = fmt.Sprintf("step %d: Get(%d) of the key just handed out failed", steps, k.ID)
				return
			}
			// "a cookie remains usable for at least two days after it was issued": one cookie per call, redeemed
			// right away and again at every later call that falls within two days of its issue
			ck, err := issue(k)
			if err != nil {
				msg = fmt.Sprintf("step %d: sealing a cookie under key %d failed: %v", steps, k.ID, err)
				return
			}
			cookies = append(cookies, issued{ck, now, k.ID})
			for len(cookies) > 0 && now.Sub(cookies[0].at) > 48*time.Hour {
				cookies = cookies[1:]
			}
			for _, c := range cookies {
				if r := redeem(p, c.cookie); r != "" {
					msg = fmt.Sprintf("step %d (rotation %d): a cookie issued %v ago under key %d cannot be redeemed: %s", steps, rot, now.Sub(c.at), c.id, r)
					return
				}
			}
			for len(window) > 0 && now.Sub(window[0].gen) > validity {
				if _, ok := p.Get(window[0].id); ok {
					msg = fmt.Sprintf("step %d: Get(%d) succeeded %v after the key was generated", steps, window[0].id, now.Sub(window[0].gen))
					return
				}
				window = window[1:]
			}
		}
	})
	return
}

func TestPropLongRun(tt *testing.T) {
	vt.Check(tt, 3, 12, func(t *rapid.T) {
		pattern := rapid.SampledFrom([]int{1, 2, 3, 3, 2, 1, 0}).Draw(t, "pattern")
		jitter := rapid.SliceOfN(rapid.Int64Range(0, int64(30*24*time.Hour)), 8, 64).Draw(t, "jitter")
		rotations := rapid.IntRange(66000, 80000).Draw(t, "rotations")
		msg, n := longRun(tt, pattern, jitter, rotations)
		if msg != "" {
			t.Fatalf("%s (pattern %d)", msg, pattern)
		}
		recLong.Count(int64(n))
		recLong.AddDistinct(uint64(pattern)<<32|uint64(rotations), int64(min(n, 4096)))
		recLong.Sample(map[string]any{"pattern": pattern, "rotations": rotations, "current_calls": n})
	})
}
