package c13k

// C13 with a real (harness-provided) DRKey hierarchy instead of USE_MOCK_KEYS:
// a fake SCION daemon (gRPC) serves host-AS and host-host keys that depend on
// every input (protocol, ISD-ASes, hosts), so "wrong key" is a genuine other key.

import (
	"bytes"
	"context"
	"crypto/sha256"
	"encoding/binary"
	"fmt"
	"io"
	"log/slog"
	"net"
	"net/netip"
	"os"
	"sync"
	"testing"
	"time"

	"github.com/prometheus/client_golang/prometheus"
	"github.com/scionproto/scion/pkg/addr"
	"github.com/scionproto/scion/pkg/drkey"
	"github.com/scionproto/scion/pkg/drkey/generic"
	sdpb "github.com/scionproto/scion/pkg/proto/daemon"
	"github.com/scionproto/scion/pkg/slayers"
	"github.com/scionproto/scion/pkg/snet"
	"google.golang.org/grpc"
	"google.golang.org/protobuf/types/known/timestamppb"
	"pgregory.net/rapid"

	"example.com/scion-time/core/client"
	"example.com/scion-time/core/server"
	"example.com/scion-time/core/timebase"
	"example.com/scion-time/driver/clocks"
	"example.com/scion-time/net/ntp"
	"example.com/scion-time/net/scion"
	"example.com/scion-time/net/udp"

	"verif/internal/ev"
	"verif/internal/netlab"
	"verif/internal/vt"
	"verif/internal/wire"
)

const svcPort = 10123

var (
	srvIP      netip.Addr
	hop        *net.UDPConn
	daemonAddr string
	fetchMu    sync.Mutex
	fetches    int
	seq        uint32
)

// ---------------------------------------------------------------- fake daemon

func hostASKey(proto uint32, srcIA, dstIA uint64, srcHost string) drkey.Key {
	h := sha256.New()
	fmt.Fprintf(h, "host-as|%d|%d|%d|%s", proto, srcIA, dstIA, srcHost)
	var k drkey.Key
	copy(k[:], h.Sum(nil))
	return k
}

func hostHostKey(proto uint32, srcIA, dstIA uint64, srcHost, dstHost string) (drkey.Key, error) {
	d := generic.Deriver{Proto: drkey.Protocol(proto)}
	return d.DeriveHostHost(dstHost, hostASKey(proto, srcIA, dstIA, srcHost))
}

type fakeDaemon struct {
	sdpb.UnimplementedDaemonServiceServer
}

func (*fakeDaemon) DRKeyHostAS(_ context.Context, r *sdpb.DRKeyHostASRequest) (*sdpb.DRKeyHostASResponse, error) {
	fetchMu.Lock()
	fetches++
	fetchMu.Unlock()
	k := hostASKey(uint32(r.ProtocolId), r.SrcIa, r.DstIa, r.SrcHost)
	now := time.Now()
	return &sdpb.DRKeyHostASResponse{EpochBegin: timestamppb.New(now.Add(-time.Hour)), EpochEnd: timestamppb.New(now.Add(time.Hour)), Key: k[:]}, nil
}

func (*fakeDaemon) DRKeyHostHost(_ context.Context, r *sdpb.DRKeyHostHostRequest) (*sdpb.DRKeyHostHostResponse, error) {
	k, err := hostHostKey(uint32(r.ProtocolId), r.SrcIa, r.DstIa, r.SrcHost, r.DstHost)
	if err != nil {
		return nil, err
	}
	now := time.Now()
	return &sdpb.DRKeyHostHostResponse{EpochBegin: timestamppb.New(now.Add(-time.Hour)), EpochEnd: timestamppb.New(now.Add(time.Hour)), Key: k[:]}, nil
}

func TestMain(m *testing.M) {
	if scion.UseMockKeys() {
		fmt.Println("VERIF-INCONCLUSIVE: this part must run without USE_MOCK_KEYS")
		os.Exit(0)
	}
	log := slog.New(slog.NewTextHandler(io.Discard, nil))
	timebase.RegisterClock(clocks.NewSystemClock(log, clocks.UnknownDrift))
	ln, err := net.Listen("tcp", net.JoinHostPort(netlab.Addr(2).String(), "0"))
	if err != nil {
		fmt.Println("VERIF-INCONCLUSIVE: cannot listen for the fake daemon:", err)
		os.Exit(0)
	}
	gs := grpc.NewServer()
	sdpb.RegisterDaemonServiceServer(gs, &fakeDaemon{})
	go gs.Serve(ln)
	daemonAddr = ln.Addr().String()
	prometheus.DefaultRegisterer = prometheus.NewRegistry()
	srvIP = netlab.Addr(0)
	server.StartSCIONServer(context.Background(), log, daemonAddr, netlab.UDPAddr(srvIP, svcPort), 46, nil) // a DSCP other than the requests' traffic class
	if hop, err = net.ListenUDP("udp", netlab.UDPAddr(netlab.Addr(1), 0)); err != nil {
		fmt.Println("VERIF-INCONCLUSIVE: cannot bind:", err)
		os.Exit(0)
	}
	vt.Main(m)
}

// ---------------------------------------------------------------- probing (sentinel-delimited, as in c13)

func drain(c *net.UDPConn) {
	buf := make([]byte, 16384)
	for {
		c.SetReadDeadline(time.Now().Add(time.Millisecond))
		if _, _, err := c.ReadFromUDP(buf); err != nil {
			return
		}
	}
}

func emptyPath() wire.PathSpec { return wire.PathSpec{Kind: "empty"} }

func probe(raw []byte) (replies [][]byte, lost bool) {
	drain(hop)
	dst := netlab.UDPAddr(srvIP, svcPort)
	hop.WriteToUDP(raw, dst)
	buf := make([]byte, 16384)
	for attempt := 0; attempt < 6; attempt++ {
		seq++
		var q ntp.Packet
		q.SetVersion(4)
		q.SetMode(ntp.ModeClient)
		q.TransmitTime = ntp.Time64{Seconds: 0xfeed0000 | seq>>16, Fraction: seq<<16 | 0xbeef}
		b := make([]byte, 48)
		ntp.EncodePacket(&b, &q)
		pth, _ := emptyPath().SlayersPath()
		sp := wire.Pkt{SrcIA: 0x1ff0000000111, DstIA: 0x1ff0000000112, Src: netlab.Addr(1), Dst: srvIP, Path: pth, SrcPort: 5555, DstPort: svcPort, Payload: b}
		s, _ := sp.Serialize(nil, nil)
		hop.WriteToUDP(s, dst)
		deadline := time.Now().Add(time.Duration(300*(attempt+1)) * time.Millisecond)
		for {
			hop.SetReadDeadline(deadline)
			n, _, err := hop.ReadFromUDP(buf)
			if err != nil {
				break
			}
			d := bytes.Clone(buf[:n])
			if p, err := wire.Parse(d); err == nil && p.IsUDP && len(p.UDP.Payload) >= 48 {
				org := ntp.Time64{Seconds: binary.BigEndian.Uint32(p.UDP.Payload[24:]), Fraction: binary.BigEndian.Uint32(p.UDP.Payload[28:])}
				if org == q.TransmitTime {
					return replies, false
				}
				if org.Seconds&0xffff0000 == 0xfeed0000 && org.Fraction&0xffff == 0xbeef {
					continue
				}
			}
			replies = append(replies, d)
		}
	}
	return replies, true
}

type reqSpec struct {
	ClientIA   uint64 `json:"client_ia"`
	ServerIA   uint64 `json:"server_ia"`
	ClientHost string `json:"client_host"`
	ServerHost string `json:"server_host"` // the SCION destination host the request is addressed to
	// the key the MAC is computed with: derived for these (possibly different) parameters
	KeyClientIA   uint64 `json:"key_client_ia"`
	KeyServerIA   uint64 `json:"key_server_ia"`
	KeyClientHost string `json:"key_client_host"`
	KeyServerHost string `json:"key_server_host"`
	TC            uint8  `json:"traffic_class"`
}

var recK = ev.New("c13/real-keys", "rapid sequences of 1..8 authenticated NTP requests to the real SCION listener connected to a harness-provided fake SCION daemon (gRPC) whose DRKeys depend on protocol, both ISD-ASes and both hosts: requests from a few client ISD-ASes and hosts, addressed to the listener under several local host addresses (IPv4, IPv6), with the packet authenticator computed under the key for exactly these parameters or for one differing parameter (other client host, other local host, other client or server ISD-AS). Oracle: a request whose MAC was computed under another key than the one for its own addresses is never served; a request under the right key is served and its reply carries a server-direction authenticator that verifies under the same key, whatever was requested before (exercises the listener's key cache); end to end, a real SCIONClient with authentication through the same daemon succeeds. One evaluation = one request. Non-trivial: sequence that addresses the listener under >= 2 local hosts from one client ISD-AS, or contains a wrong-key request; distinct by sequence hash")

func TestPropRealKeys(t *testing.T) {
	hosts := []string{netlab.Addr(1).String(), "10.1.1.1", "fd00:1::1", "fd00:1::2"}
	srvHosts := []string{srvIP.String(), "10.2.2.1", "fd00:2:2::1", "fd00:2:2::2"}
	ias := []uint64{uint64(addr.MustIAFrom(1, 0xff0000000110)), uint64(addr.MustIAFrom(1, 0xff0000000111)), uint64(addr.MustIAFrom(2, 0xff0000000220))}
	sias := []uint64{uint64(addr.MustIAFrom(9, 0xff0000000990)), uint64(addr.MustIAFrom(9, 0xff0000000991))}
	vt.Check(t, 250, 2500, func(t *rapid.T) {
		n := rapid.IntRange(1, 8).Draw(t, "n")
		var log []string
		localHosts := map[uint64]map[string]bool{}
		wrong := false
		for i := 0; i < n; i++ {
			r := reqSpec{
				ClientIA: rapid.SampledFrom(ias).Draw(t, "cia"), ServerIA: rapid.SampledFrom(sias).Draw(t, "sia"),
				ClientHost: rapid.SampledFrom(hosts).Draw(t, "chost"), ServerHost: rapid.SampledFrom(srvHosts).Draw(t, "shost"),
				TC: rapid.OneOf(rapid.Just(uint8(0)), rapid.Uint8()).Draw(t, "tc"),
			}
			r.KeyClientIA, r.KeyServerIA, r.KeyClientHost, r.KeyServerHost = r.ClientIA, r.ServerIA, r.ClientHost, r.ServerHost
			mis := rapid.SampledFrom([]string{"none", "none", "none", "client-host", "server-host", "client-ia", "server-ia"}).Draw(t, "wrong-key")
			other := func(list []string, cur string) string {
				for _, x := range list {
					if x != cur {
						return x
					}
				}
				return cur
			}
			switch mis {
			case "client-host":
				r.KeyClientHost = other(hosts, r.ClientHost)
			case "server-host":
				r.KeyServerHost = other(srvHosts, r.ServerHost)
			case "client-ia":
				r.KeyClientIA = ias[(indexOf(ias, r.ClientIA)+1)%len(ias)]
			case "server-ia":
				r.KeyServerIA = sias[(indexOf(sias, r.ServerIA)+1)%len(sias)]
			}
			if mis != "none" {
				wrong = true
			}
			if localHosts[r.ClientIA] == nil {
				localHosts[r.ClientIA] = map[string]bool{}
			}
			localHosts[r.ClientIA][r.ServerHost] = true
			// the key: host-AS key of (server IA -> client IA, server host), derived for the client host
			key, err := hostHostKey(uint32(scion.DRKeyProtocolTS), r.KeyServerIA, r.KeyClientIA, r.KeyServerHost, r.KeyClientHost)
			if err != nil {
				t.Fatalf("harness: key derivation: %v", err)
			}
			right, _ := hostHostKey(uint32(scion.DRKeyProtocolTS), r.ServerIA, r.ClientIA, r.ServerHost, r.ClientHost)
			seq++
			var q ntp.Packet
			q.SetVersion(4)
			q.SetMode(ntp.ModeClient)
			q.TransmitTime = ntp.Time64{Seconds: 0xa0000000 + seq, Fraction: seq * 7919}
			b := make([]byte, 48)
			ntp.EncodePacket(&b, &q)
			pth, _ := emptyPath().SlayersPath()
			opt := wire.NewAuthOpt(scion.PacketAuthSPIClient, scion.PacketAuthAlgorithm)
			p := wire.Pkt{SrcIA: addr.IA(r.ClientIA), DstIA: addr.IA(r.ServerIA), Src: netip.MustParseAddr(r.ClientHost), Dst: netip.MustParseAddr(r.ServerHost),
				Path: pth, SrcPort: 4444, DstPort: svcPort, Payload: b, E2E: []*slayers.EndToEndOption{opt}, TrafficClass: r.TC}
			raw, err := p.Serialize(opt, key[:])
			if err != nil {
				t.Fatalf("harness: %v", err)
			}
			replies, lost := probe(raw)
			log = append(log, fmt.Sprintf("%+v -> %d replies", r, len(replies)))
			if lost {
				t.Fatalf("listener stopped answering after %v", log)
			}
			if mis != "none" && key != right {
				if len(replies) != 0 {
					t.Fatalf("a request whose authenticator was computed under the key for another %s was served (history %v)", mis, log)
				}
				continue
			}
			if len(replies) != 1 {
				t.Fatalf("a request authenticated under the right key got %d replies (history %v)", len(replies), log)
			}
			rp, err := wire.Parse(replies[0])
			if err != nil {
				t.Fatalf("reply does not parse: %v", err)
			}
			present, spi, algo, ok, verr := rp.VerifySPAO(right[:])
			if !present || spi != scion.PacketAuthSPIServer || algo != scion.PacketAuthAlgorithm || !ok || verr != nil {
				t.Fatalf("reply authenticator present=%v spi=%#x algo=%d verifies under the requester's key=%v err=%v (history %v)", present, spi, algo, ok, verr, log)
			}
		}
		multi := false
		for _, hs := range localHosts {
			if len(hs) >= 2 {
				multi = true
			}
		}
		recK.Eval(multi || wrong, ev.Hash(fmt.Sprint(log)), func() any { return log[:min(len(log), 6)] })
		if n > 1 {
			recK.Count(int64(n - 1))
		}
	})
}

func indexOf(xs []uint64, v uint64) int {
	for i, x := range xs {
		if x == v {
			return i
		}
	}
	return 0
}

// TestEndToEndRealKeys: the real client, authenticating through the same daemon, completes exchanges.
func TestEndToEndRealKeys(t *testing.T) {
	c := &client.SCIONClient{Log: slog.New(slog.NewTextHandler(io.Discard, nil))}
	c.Auth.Enabled = true
	c.Auth.DRKeyFetcher = scion.NewFetcher(scion.NewDaemonConnector(context.Background(), daemonAddr))
	lIA := addr.MustIAFrom(1, 0xff0000000110)
	relayDown, err := net.ListenUDP("udp", netlab.UDPAddr(netlab.Addr(2), 0))
	if err != nil {
		vt.Inconclusive(t, "bind: %v", err)
	}
	defer relayDown.Close()
	go func() { // border router: forward to the listener and back
		buf := make([]byte, 16384)
		up, _ := net.DialUDP("udp", netlab.UDPAddr(netlab.Addr(2), 0), netlab.UDPAddr(srvIP, svcPort))
		for {
			n, from, err := relayDown.ReadFromUDP(buf)
			if err != nil {
				return
			}
			up.Write(buf[:n])
			up.SetReadDeadline(time.Now().Add(300 * time.Millisecond))
			if m, err := up.Read(buf); err == nil {
				relayDown.WriteToUDP(buf[:m], from)
			}
		}
	}()
	sp, _ := emptyPath().SnetPath(lIA, lIA, relayDown.LocalAddr().(*net.UDPAddr), nil)
	for i := 0; i < 3; i++ {
		c.DSCP = uint8(i * 23) // 0, 23, 46: below, and equal to, the listener's
		ctx, cancel := context.WithTimeout(context.Background(), 2*time.Second)
		_, off, err := client.MeasureClockOffsetSCION(ctx, c.Log, []*client.SCIONClient{c},
			udp.UDPAddr{IA: lIA, Host: netlab.UDPAddr(netlab.Addr(1), 0)}, udp.UDPAddr{IA: lIA, Host: netlab.UDPAddr(srvIP, svcPort)}, []snet.Path{sp})
		cancel()
		if err != nil || off > time.Second || off < -time.Second {
			vt.Violation(t, map[string]any{"exchange": i}, "authenticated end-to-end exchange through the daemon's keys failed: %v (offset %v)", err, off)
		}
	}
	recK.Count(3)
}
