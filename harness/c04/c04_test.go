package c04

import (
	"encoding/json"
	"os"
	"path/filepath"
	"testing"
	"time"

	"pgregory.net/rapid"

	"example.com/scion-time/net/ntp"

	"verif/internal/ev"
	"verif/internal/vt"
)

func TestMain(m *testing.M) { vt.Main(m) }

const (
	ntpEpochUnix = int64(-2208988800)
	era          = int64(1) << 32
	half         = int64(1) << 31
	ns           = int64(1e9)
)

type tcase struct {
	RefSec  int64 `json:"ref_unix_sec"`
	RefNsec int64 `json:"ref_nsec"`
	DSec    int64 `json:"delta_sec"`  // t - ref = DSec s + DNsec ns, DNsec in [0,1e9)
	DNsec   int64 `json:"delta_nsec"` // overall -2^31 s <= t - ref < 2^31 s
}

type failer interface {
	Fatalf(format string, args ...any)
}

func (c tcase) times() (ref, t time.Time) {
	ref = time.Unix(c.RefSec, c.RefNsec).UTC()
	tn := c.RefNsec + c.DNsec
	ts := c.RefSec + c.DSec
	if tn >= ns {
		tn -= ns
		ts++
	}
	return ref, time.Unix(ts, tn).UTC()
}

// diffNs returns a-b in ns for times at most a few seconds apart; ok=false otherwise.
func diffNs(a, b time.Time) (int64, bool) {
	ds := a.Unix() - b.Unix()
	if ds > 4 || ds < -4 {
		return 0, false
	}
	return ds*ns + int64(a.Nanosecond()) - int64(b.Nanosecond()), true
}

func roundTrip(t failer, c tcase) time.Time {
	ref, tt := c.times()
	t64 := ntp.Time64FromTime(tt)
	back := ntp.TimeFromTime64(t64, ref)
	d, ok := diffNs(tt, back)
	if !ok || d < 0 || d > 1 {
		t.Fatalf("round trip of t=%v (ref=%v, t-ref=%ds+%dns) returned %v: off by %v s (must be 0..1 ns earlier)",
			tt, ref, c.DSec, c.DNsec, back, tt.Unix()-back.Unix())
	}
	return back
}

func eraOf(sec int64) int64 {
	x := sec - ntpEpochUnix
	if x >= 0 {
		return x / era
	}
	return -((-x + era - 1) / era)
}

func nontrivial(c tcase) bool {
	ref, tt := c.times()
	if eraOf(ref.Unix()) != eraOf(tt.Unix()) {
		return true
	}
	return c.DSec <= -half+2 || c.DSec >= half-3
}

// ---- generators

func genRef(t *rapid.T) (int64, int64) {
	const y1970, y2500 = int64(0), int64(16725225600)
	var sec int64
	switch rapid.IntRange(0, 3).Draw(t, "refkind") {
	case 0:
		sec = rapid.Int64Range(y1970, y2500).Draw(t, "refsec")
	case 1: // around an era rollover
		k := rapid.Int64Range(1, 4).Draw(t, "era")
		d := rapid.SampledFrom([]int64{0, 1, -1, 2, -2, half, -half, half - 1, -half + 1, half + 1, -half - 1}).Draw(t, "refd")
		sec = ntpEpochUnix + k*era + d
	case 2:
		k := rapid.Int64Range(1, 4).Draw(t, "era")
		sec = ntpEpochUnix + k*era + rapid.Int64Range(-100000, 100000).Draw(t, "refd")
	default: // today-ish and the 2036 neighbourhood
		sec = rapid.Int64Range(1700000000, 2100000000).Draw(t, "refsec")
	}
	sec = max(y1970, min(y2500, sec))
	return sec, genNsec(t, "refns")
}

func genNsec(t *rapid.T, label string) int64 {
	return rapid.OneOf(rapid.Int64Range(0, ns-1), rapid.SampledFrom([]int64{0, 1, 2, 499999999, 500000000, 500000001, ns - 2, ns - 1})).Draw(t, label)
}

func genDelta(t *rapid.T, refSec int64) (int64, int64) {
	var ds int64
	switch rapid.IntRange(0, 4).Draw(t, "dkind") {
	case 0:
		ds = rapid.Int64Range(-half, half-1).Draw(t, "dsec")
	case 1:
		ds = rapid.SampledFrom([]int64{-half, -half + 1, -half + 2, half - 1, half - 2, half - 3, 0, -1, 1, -2}).Draw(t, "dsec")
	case 2: // land next to an era boundary
		k := rapid.Int64Range(0, 5).Draw(t, "tera")
		target := ntpEpochUnix + k*era + rapid.Int64Range(-3, 3).Draw(t, "toff")
		ds = max(-half, min(half-1, target-refSec))
	case 3:
		ds = rapid.Int64Range(-10, 10).Draw(t, "dsec")
	default:
		ds = rapid.Int64Range(-100000, 100000).Draw(t, "dsec")
	}
	return ds, genNsec(t, "dns")
}

func genCase(t *rapid.T) tcase {
	rs, rn := genRef(t)
	ds, dn := genDelta(t, rs)
	return tcase{rs, rn, ds, dn}
}

var (
	recRT  = ev.New("c04/roundtrip", "rapid: reference 1970..2500 (era-rollover dense), delta = t-ref in [-2^31 s, 2^31 s) at ns granularity (window-edge and era-boundary dense), independent sub-second parts; oracle: 0 <= t - back <= 1 ns in integer arithmetic. Non-trivial: t and ref in different NTP eras, or delta within 2 s of a window edge; distinct by (ref, delta)")
	recOrd = ev.New("c04/order", "rapid: two times in the window of one reference; oracle: t_a <= t_b implies back_a <= back_b; for t_a <= t_b less than 2^31 s apart the 64-bit timestamps compare the same way under Time64.Before/After (also across an era boundary; at exactly 2^31 s apart the earlier one compares as before the later one, as TimeFromTime64 resolves it); Time64FromTime independent of location. Non-trivial as c04/roundtrip for either time")
	recNs  = ev.New("c04/exhaustive-nanoseconds", "enumeration of nanosecond values 0..10^9-1 at seconds on both sides of the 2036 rollover (thorough: all 10^9, sharded; quick: every 101st starting at VERIF_SEED mod 101): ns-1 <= back.ns <= ns, back monotone; all counted non-trivial (era-boundary second)")
	recFr  = ev.New("c04/exhaustive-fractions", "enumeration of 32-bit fractions (thorough: all 2^32, sharded; quick: every 4099th): Time64FromTime(TimeFromTime64(f)).Fraction <= f, within 5 units, nanoseconds monotone in f")
)

func TestPropRoundTrip(t *testing.T) {
	vt.Check(t, 300000, 3000000, func(t *rapid.T) {
		c := genCase(t)
		roundTrip(t, c)
		recRT.Eval(nontrivial(c), ev.Hash(c.RefSec, c.RefNsec, c.DSec, c.DNsec), func() any { return c }, labels(c)...)
	})
}

func labels(c tcase) []string {
	ref, tt := c.times()
	var ls []string
	switch {
	case eraOf(tt.Unix()) > eraOf(ref.Unix()):
		ls = append(ls, "t-in-later-era")
	case eraOf(tt.Unix()) < eraOf(ref.Unix()):
		ls = append(ls, "t-in-earlier-era")
	default:
		ls = append(ls, "same-era")
	}
	if c.DSec <= -half+2 {
		ls = append(ls, "lower-edge")
	}
	if c.DSec >= half-3 {
		ls = append(ls, "upper-edge")
	}
	return ls
}

func TestPropOrder(t *testing.T) {
	locs := []*time.Location{time.UTC, time.FixedZone("e", 5*3600+1800), time.FixedZone("w", -11*3600)}
	vt.Check(t, 150000, 1500000, func(t *rapid.T) {
		rs, rn := genRef(t)
		ds1, dn1 := genDelta(t, rs)
		var ds2, dn2 int64
		if rapid.Bool().Draw(t, "close") {
			ds2 = max(-half, min(half-1, ds1+rapid.Int64Range(-2, 2).Draw(t, "dd")))
			dn2 = genNsec(t, "dn2")
		} else {
			ds2, dn2 = genDelta(t, rs)
		}
		a, b := tcase{rs, rn, ds1, dn1}, tcase{rs, rn, ds2, dn2}
		if ds1 > ds2 || ds1 == ds2 && dn1 > dn2 {
			a, b = b, a
		}
		ba, bb := roundTrip(t, a), roundTrip(t, b)
		if ba.After(bb) {
			t.Fatalf("order not preserved: a=%+v -> %v, b=%+v -> %v", a, ba, b, bb)
		}
		_, ta := a.times()
		_, tb := b.times()
		// the 64-bit timestamps themselves, compared with the project's own Before/After (what the server's
		// timestamp store orders by): for two times less than 2^31 s apart the order of the instants
		var ols []string
		if d := tb.Sub(ta); tb.Unix()-ta.Unix() < half-1 && d >= 0 {
			xa, xb := ntp.Time64FromTime(ta), ntp.Time64FromTime(tb)
			if xb.Before(xa) || xa.After(xb) || xa != xb && (!xa.Before(xb) || !xb.After(xa)) || xa == xb && (xa.Before(xb) || xa.After(xb)) {
				t.Fatalf("order of the timestamps differs from the order of the times: %v -> %+v, %v -> %+v", ta, xa, tb, xb)
			}
			if xa.Seconds > xb.Seconds {
				ols = append(ols, "timestamps-across-era-boundary")
			}
		}
		// exactly 2^31 s apart: the earlier time is the lower edge of the later one's window (the window is half-open,
		// [-2^31 s, 2^31 s)), and TimeFromTime64 resolves it as the earlier one; the comparison has to agree
		if rapid.IntRange(0, 15).Draw(t, "window-edge-pair") == 0 {
			early := ta
			late := time.Unix(early.Unix()+half, int64(early.Nanosecond())).UTC()
			xe, xl := ntp.Time64FromTime(early), ntp.Time64FromTime(late)
			if back := ntp.TimeFromTime64(xe, late); !back.Before(late) {
				t.Fatalf("lower window edge: %v relative to %v converts back to %v", early, late, back)
			}
			if !xe.Before(xl) || !xl.After(xe) {
				t.Fatalf("a time exactly 2^31 s before another (the lower edge of its window) does not compare as before it: %v -> %+v, %v -> %+v", early, xe, late, xl)
			}
			ols = append(ols, "pair-exactly-2^31s-apart")
		}
		loc := rapid.SampledFrom(locs).Draw(t, "loc")
		if ntp.Time64FromTime(ta) != ntp.Time64FromTime(ta.In(loc)) {
			t.Fatalf("Time64FromTime depends on location: %v", ta)
		}
		recOrd.Eval(nontrivial(a) || nontrivial(b), ev.Hash(rs, rn, a.DSec, a.DNsec, b.DSec, b.DNsec), func() any { return []tcase{a, b} }, ols...)
	})
}

type exhFail struct {
	t testing.TB
	c any
}

func (e exhFail) Fatalf(format string, args ...any) { vt.Violation(e.t, e.c, format, args...) }

func TestExhaustiveNanoseconds(t *testing.T) {
	rollover := ntpEpochUnix + era // 2036-02-07 06:28:16 UTC
	stride, start := int64(101), int64(vt.Seed()%101)
	if vt.Thorough() {
		stride, start = int64(vt.Shards()), int64(vt.Shard())
		recNs.Exhaustive = true
	}
	for _, cfg := range []struct{ refSec, tSec int64 }{
		{rollover + 5, rollover - 1}, // reference after the rollover, time before it
		{rollover - 5, rollover},     // reference before, time after
		{1700000000, 1700000000},
	} {
		ref := time.Unix(cfg.refSec, 0).UTC()
		prev := int64(-1)
		var n int64
		for v := start; v < ns; v += stride {
			tt := time.Unix(cfg.tSec, v).UTC()
			back := ntp.TimeFromTime64(ntp.Time64FromTime(tt), ref)
			bn := int64(back.Nanosecond())
			if back.Unix() != cfg.tSec || bn > v || bn < v-1 || bn < prev {
				vt.Violation(t, map[string]any{"ref_unix_sec": cfg.refSec, "t_unix_sec": cfg.tSec, "nsec": v},
					"ns=%d at second %d (ref %d): back = %d.%09d (prev ns %d)", v, cfg.tSec, cfg.refSec, back.Unix(), bn, prev)
			}
			prev = bn
			n++
		}
		recNs.Count(n)
		recNs.AddDistinct(uint64(cfg.tSec), min(n, 1<<16))
		recNs.Sample(map[string]any{"ref_unix_sec": cfg.refSec, "t_unix_sec": cfg.tSec, "nsec_from": start, "stride": stride, "count": n})
	}
}

func TestExhaustiveFractions(t *testing.T) {
	ref := time.Unix(1700000000, 0).UTC()
	sec := uint32(1700000000 - ntpEpochUnix)
	lo, hi, stride := uint64(vt.Seed()%4099), uint64(1)<<32, uint64(4099)
	if vt.Thorough() {
		per := (uint64(1) << 32) / uint64(vt.Shards())
		lo, stride = per*uint64(vt.Shard()), 1
		hi = lo + per
		if vt.Shard() == vt.Shards()-1 {
			hi = 1 << 32
		}
		recFr.Exhaustive = true
	}
	prev := -1
	var n int64
	for f := lo; f < hi; f += stride {
		tt := ntp.TimeFromTime64(ntp.Time64{Seconds: sec, Fraction: uint32(f)}, ref)
		g := ntp.Time64FromTime(tt)
		if g.Seconds != sec || uint64(g.Fraction) > f || f-uint64(g.Fraction) > 5 || tt.Nanosecond() < prev {
			vt.Violation(t, map[string]any{"fraction": f}, "fraction %d -> %v -> %+v (prev ns %d)", f, tt, g, prev)
		}
		prev = tt.Nanosecond()
		n++
	}
	recFr.Count(n)
	recFr.AddDistinct(lo, min(n, 1<<16))
	recFr.Sample(map[string]any{"fraction_from": lo, "fraction_to": hi, "stride": stride, "count": n})
}

func TestReplay(t *testing.T) {
	files, _ := filepath.Glob(filepath.Join(vt.CorpusDir("C04"), "*.json"))
	if p := vt.ReplayCase(); p != "" {
		files = []string{p}
	}
	for _, p := range files {
		b, err := os.ReadFile(p)
		if err != nil {
			t.Fatal(err)
		}
		var w struct {
			Case json.RawMessage `json:"case"`
		}
		if err := json.Unmarshal(b, &w); err != nil {
			t.Fatalf("%s: %v", p, err)
		}
		var c tcase
		if err := json.Unmarshal(w.Case, &c); err == nil && c.RefSec != 0 {
			roundTrip(exhFail{t, c}, c)
			continue
		}
		var e struct {
			Ref  int64 `json:"ref_unix_sec"`
			T    int64 `json:"t_unix_sec"`
			Nsec int64 `json:"nsec"`
		}
		if err := json.Unmarshal(w.Case, &e); err == nil && e.Ref != 0 {
			c := tcase{RefSec: e.Ref, RefNsec: 0, DSec: e.T - e.Ref, DNsec: e.Nsec}
			roundTrip(exhFail{t, c}, c)
		}
	}
}
