package c14

import (
	"bufio"
	"bytes"
	"context"
	"encoding/binary"
	"encoding/hex"
	"encoding/json"
	"fmt"
	"io"
	"log/slog"
	"os"
	"path/filepath"
	"reflect"
	"testing"

	"pgregory.net/rapid"

	"example.com/scion-time/net/csptp"
	"example.com/scion-time/net/ntp"
	"example.com/scion-time/net/nts"
	"example.com/scion-time/net/ntske"

	"verif/internal/ev"
	"verif/internal/vt"
)

func TestMain(m *testing.M) { vt.Main(m) }

type failer interface {
	Fatalf(format string, args ...any)
}

type exhFail struct {
	t testing.TB
	c any
}

func (e exhFail) Fatalf(format string, args ...any) { vt.Violation(e.t, e.c, format, args...) }

func hx(b []byte) string { return hex.EncodeToString(b) }

// splitmix64: deterministic filler for the exhaustive loops (pure function of VERIF_SEED and the index).
func mix(x uint64) uint64 {
	x += 0x9e3779b97f4a7c15
	x = (x ^ (x >> 30)) * 0xbf58476d1ce4e5b9
	x = (x ^ (x >> 27)) * 0x94d049bb133111eb
	return x ^ (x >> 31)
}

func fill(b []byte, seed uint64) {
	for i := 0; i < len(b); i += 8 {
		v := mix(seed + uint64(i))
		for j := 0; j < 8 && i+j < len(b); j++ {
			b[i+j] = byte(v >> (8 * uint(j)))
		}
	}
}

// ---------------------------------------------------------------- NTP

// refNTP is the harness's own reading of RFC 5905 figure 8.
func refNTP(b []byte) ntp.Packet {
	be16 := binary.BigEndian.Uint16
	be32 := binary.BigEndian.Uint32
	return ntp.Packet{
		LVM: b[0], Stratum: b[1], Poll: int8(b[2]), Precision: int8(b[3]),
		RootDelay:      ntp.Time32{Seconds: be16(b[4:]), Fraction: be16(b[6:])},
		RootDispersion: ntp.Time32{Seconds: be16(b[8:]), Fraction: be16(b[10:])},
		ReferenceID:    be32(b[12:]),
		ReferenceTime:  ntp.Time64{Seconds: be32(b[16:]), Fraction: be32(b[20:])},
		OriginTime:     ntp.Time64{Seconds: be32(b[24:]), Fraction: be32(b[28:])},
		ReceiveTime:    ntp.Time64{Seconds: be32(b[32:]), Fraction: be32(b[36:])},
		TransmitTime:   ntp.Time64{Seconds: be32(b[40:]), Fraction: be32(b[44:])},
	}
}

// checkNTPBytes: b is an arbitrary datagram of >= 48 bytes.
func checkNTPBytes(t failer, b []byte, dstCap int) {
	var p ntp.Packet
	if err := ntp.DecodePacket(&p, b); err != nil {
		t.Fatalf("DecodePacket refused %d bytes: %v", len(b), err)
	}
	if want := refNTP(b); p != want {
		t.Fatalf("DecodePacket(%s) = %+v, want %+v", hx(b[:48]), p, want)
	}
	if p.LeapIndicator() != b[0]>>6 || p.Version() != b[0]>>3&7 || p.Mode() != b[0]&7 {
		t.Fatalf("accessors disagree with first byte %08b: LI %d VN %d mode %d", b[0], p.LeapIndicator(), p.Version(), p.Mode())
	}
	dst := make([]byte, dstCap/2, dstCap)
	fill(dst[:cap(dst)], uint64(dstCap))
	ntp.EncodePacket(&dst, &p)
	if len(dst) != ntp.PacketLen || !bytes.Equal(dst, b[:48]) {
		t.Fatalf("EncodePacket(DecodePacket(b)) = %s (len %d), want %s", hx(dst), len(dst), hx(b[:48]))
	}
	var q ntp.Packet
	if err := ntp.DecodePacket(&q, dst); err != nil || q != p {
		t.Fatalf("Decode(Encode(p)) = %+v, %v; want %+v", q, err, p)
	}
	// setters change only their own bits
	for v := uint8(0); v < 8; v++ {
		r := p
		r.SetMode(v)
		if r.Mode() != v || r.LVM&^7 != p.LVM&^7 {
			t.Fatalf("SetMode(%d) on LVM %08b gave %08b", v, p.LVM, r.LVM)
		}
		r = p
		r.SetVersion(v)
		if r.Version() != v || r.LVM&^0x38 != p.LVM&^0x38 {
			t.Fatalf("SetVersion(%d) on LVM %08b gave %08b", v, p.LVM, r.LVM)
		}
		if v < 4 {
			r = p
			r.SetLeapIndicator(v)
			if r.LeapIndicator() != v || r.LVM&^0xc0 != p.LVM&^0xc0 {
				t.Fatalf("SetLeapIndicator(%d) on LVM %08b gave %08b", v, p.LVM, r.LVM)
			}
		}
	}
}

var (
	recNTP    = ev.New("c14/ntp-rapid", "rapid: arbitrary datagrams of 48..2048 bytes (boundary-dense 32-bit fields) and destination buffers of capacity 0..4096: decode agrees with an independent RFC 5905 field reader, accessors agree with the first byte, setters touch only their bits, encode(decode(b)) == b[:48], short buffers refused. Non-trivial: first byte has all three sub-fields non-zero; distinct by the 48 header bytes")
	recNTPExh = ev.New("c14/ntp-exhaustive-fields", "enumeration: every value of each 8-bit header field (4 fields x 256) and, thorough, of each 16-bit field (4 x 65536) and each aligned 16-bit half of the wider fields, rest filled from a deterministic mixer of VERIF_SEED; same oracle as c14/ntp-rapid; all counted non-trivial")
)

func TestPropNTP(t *testing.T) {
	vt.Check(t, 60000, 600000, func(t *rapid.T) {
		n := rapid.OneOf(rapid.IntRange(48, 2048), rapid.SampledFrom([]int{48, 49, 52, 76, 1024, 2048})).Draw(t, "len")
		b := make([]byte, n)
		fill(b, rapid.Uint64().Draw(t, "filler"))
		copy(b, rapid.SliceOfN(rapid.Byte(), 4, 4).Draw(t, "b0-3"))
		for off := 12; off < 48; off += 4 {
			if rapid.IntRange(0, 3).Draw(t, "edge") == 0 {
				binary.BigEndian.PutUint32(b[off:], rapid.SampledFrom([]uint32{0, 1, 0xffffffff, 0x80000000, 0x7fffffff, 0xff, 0xff00, 0xff0000, 0xff000000}).Draw(t, "w"))
			}
		}
		checkNTPBytes(t, b, rapid.OneOf(rapid.IntRange(0, 100), rapid.IntRange(0, 4096)).Draw(t, "dstcap"))
		short := rapid.IntRange(0, 47).Draw(t, "short")
		var p ntp.Packet
		if err := ntp.DecodePacket(&p, b[:short]); err == nil {
			t.Fatalf("DecodePacket accepted %d bytes", short)
		}
		recNTP.Eval(b[0]>>6 != 0 && b[0]>>3&7 != 0 && b[0]&7 != 0, ev.Hash(b[:48]), func() any { return hx(b[:48]) })
	})
}

func TestExhaustiveNTPFields(t *testing.T) {
	recNTPExh.Exhaustive = true
	seed := uint64(vt.Seed())
	b := make([]byte, 48)
	var n int64
	for off := 0; off < 4; off++ {
		for v := 0; v < 256; v++ {
			fill(b, seed*1000003+uint64(off*256+v))
			b[off] = byte(v)
			checkNTPBytes(exhFail{t, map[string]any{"bytes": hx(b)}}, b, 48)
			n++
		}
	}
	if vt.Thorough() {
		idx := 0
		for off := 4; off < 48; off += 2 {
			idx++
			if idx%vt.Shards() != vt.Shard() {
				continue
			}
			for v := 0; v < 65536; v++ {
				fill(b, seed*7+uint64(off*65536+v))
				binary.BigEndian.PutUint16(b[off:], uint16(v))
				checkNTPBytes(exhFail{t, map[string]any{"bytes": hx(b)}}, b, 48)
				n++
			}
		}
	}
	recNTPExh.Count(n)
	recNTPExh.AddDistinct(seed, min(n, 1<<16))
	recNTPExh.Sample(map[string]any{"fields_enumerated": n, "example": hx(b)})
}

// ---------------------------------------------------------------- CSPTP

func checkCSPTPMessage(t failer, b []byte) {
	var m csptp.Message
	if err := csptp.DecodeMessage(&m, b); err != nil {
		t.Fatalf("DecodeMessage refused %d bytes: %v", len(b), err)
	}
	out := make([]byte, csptp.MinMessageLength)
	fill(out, 99)
	csptp.EncodeMessage(out, &m)
	if !bytes.Equal(out, b[:csptp.MinMessageLength]) {
		t.Fatalf("EncodeMessage(DecodeMessage(b)) = %s, want %s", hx(out), hx(b[:44]))
	}
	var m2 csptp.Message
	if err := csptp.DecodeMessage(&m2, out); err != nil || m2 != m {
		t.Fatalf("Decode(Encode(m)) = %+v, %v; want %+v", m2, err, m)
	}
	// independent reading of a few fields (IEEE 1588 common header)
	if m.MessageLength != binary.BigEndian.Uint16(b[2:]) || m.SequenceID != binary.BigEndian.Uint16(b[30:]) ||
		uint64(m.CorrectionField) != binary.BigEndian.Uint64(b[8:]) || m.SourcePortIdentity.ClockID != binary.BigEndian.Uint64(b[20:]) ||
		m.SourcePortIdentity.Port != binary.BigEndian.Uint16(b[28:]) || m.FlagField != binary.BigEndian.Uint16(b[6:]) ||
		m.Timestamp.Nanoseconds != binary.BigEndian.Uint32(b[40:]) || !bytes.Equal(m.Timestamp.Seconds[:], b[34:40]) ||
		m.SdoIDMessageType != b[0] || m.PTPVersion != b[1] || m.DomainNumber != b[4] || m.MinorSdoID != b[5] ||
		m.ControlField != b[32] || m.LogMessageInterval != int8(b[33]) || m.MessageTypeSpecific != binary.BigEndian.Uint32(b[16:]) {
		t.Fatalf("DecodeMessage(%s) = %+v disagrees with the header layout", hx(b[:44]), m)
	}
}

func checkCSPTPResponseTLV(t failer, v csptp.ResponseTLV) {
	n := csptp.EncodedResponseTLVLength(&v)
	hasDS := v.FlagField&csptp.TLVFlagServerStateDS != 0
	if want := map[bool]int{false: 36, true: 54}[hasDS]; n != want {
		t.Fatalf("EncodedResponseTLVLength = %d, want %d", n, want)
	}
	b := make([]byte, n)
	fill(b, 7)
	csptp.EncodeResponseTLV(b, &v)
	var d csptp.ResponseTLV
	fillStruct(&d)
	if err := csptp.DecodeResponseTLV(&d, b); err != nil {
		t.Fatalf("DecodeResponseTLV refused its own encoding: %v", err)
	}
	want := v
	if !hasDS {
		want.ServerStateDS = csptp.ServerStateDS{}
	}
	if d != want {
		t.Fatalf("Decode(Encode(tlv)) = %+v, want %+v", d, want)
	}
	b2 := make([]byte, n)
	fill(b2, 8)
	csptp.EncodeResponseTLV(b2, &d)
	if !bytes.Equal(b, b2) {
		t.Fatalf("re-encoding a decoded response TLV gave %s, want %s", hx(b2), hx(b))
	}
	for short := 0; short < n; short++ {
		var x csptp.ResponseTLV
		if csptp.DecodeResponseTLV(&x, b[:short]) == nil {
			t.Fatalf("DecodeResponseTLV accepted %d of %d bytes", short, n)
		}
	}
}

func fillStruct(d *csptp.ResponseTLV) {
	d.Error, d.UTCOffset, d.RequestCorrectionField = 0xaaaa, 0x5555, -1
	d.ServerStateDS = csptp.ServerStateDS{1, 2, 3, 4, 5, 6, 7, 8, 9}
}

func checkCSPTPRequestTLV(t failer, v csptp.RequestTLV) {
	n := csptp.EncodedRequestTLVLength(&v)
	hasDS := v.FlagField&csptp.TLVFlagServerStateDS != 0
	if want := map[bool]int{false: 36, true: 54}[hasDS]; n != want {
		t.Fatalf("EncodedRequestTLVLength = %d, want %d", n, want)
	}
	b := make([]byte, n)
	fill(b, 9)
	csptp.EncodeRequestTLV(b, &v)
	var d csptp.RequestTLV
	if err := csptp.DecodeRequestTLV(&d, b); err != nil || d != v {
		t.Fatalf("Decode(Encode(request tlv)) = %+v, %v; want %+v", d, err, v)
	}
	b2 := make([]byte, n)
	fill(b2, 10)
	csptp.EncodeRequestTLV(b2, &d)
	if !bytes.Equal(b, b2) {
		t.Fatalf("re-encoding a decoded request TLV gave %s, want %s", hx(b2), hx(b))
	}
	for short := 0; short < n; short++ {
		var x csptp.RequestTLV
		if csptp.DecodeRequestTLV(&x, b[:short]) == nil {
			t.Fatalf("DecodeRequestTLV accepted %d of %d bytes", short, n)
		}
	}
}

var recCSPTP = ev.New("c14/csptp", "rapid: arbitrary 44..98-byte message headers (decode vs independent layout reader, encode(decode(b)) == b[:44]); request/response TLV values with arbitrary field contents, flag with and without the server-state data set: decode(encode(v)) == v at the declared length (absent data set decodes as zero), re-encode reproduces the bytes, every shorter buffer refused. Non-trivial: TLV with the data-set flag, or message with a non-zero correction field; distinct by value")

func TestPropCSPTP(t *testing.T) {
	u8, u16, u32, u64 := rapid.Uint8(), rapid.Uint16(), rapid.Uint32(), rapid.Uint64()
	e16 := rapid.OneOf(u16, rapid.SampledFrom([]uint16{0, 1, 0xff, 0x100, 0xffff, 0x8000}))
	vt.Check(t, 60000, 600000, func(t *rapid.T) {
		n := rapid.IntRange(csptp.MinMessageLength, csptp.MaxMessageLength).Draw(t, "len")
		b := make([]byte, n)
		fill(b, u64.Draw(t, "filler"))
		binary.BigEndian.PutUint16(b[2:], e16.Draw(t, "msglen"))
		if rapid.Bool().Draw(t, "zerocorr") {
			copy(b[8:16], make([]byte, 8))
		}
		checkCSPTPMessage(t, b)
		var m csptp.Message
		if csptp.DecodeMessage(&m, b[:rapid.IntRange(0, 43).Draw(t, "short")]) == nil {
			t.Fatalf("DecodeMessage accepted a short buffer")
		}
		flag := rapid.OneOf(u32, rapid.SampledFrom([]uint32{0, 1, 2, 3, 0xfffffffe, 0xffffffff})).Draw(t, "flag")
		req := csptp.RequestTLV{Type: e16.Draw(t, "rt"), Length: e16.Draw(t, "rl"), FlagField: flag}
		copy(req.OrganizationID[:], rapid.SliceOfN(u8, 3, 3).Draw(t, "oid"))
		copy(req.OrganizationSubType[:], rapid.SliceOfN(u8, 3, 3).Draw(t, "ost"))
		checkCSPTPRequestTLV(t, req)
		resp := csptp.ResponseTLV{Type: e16.Draw(t, "t"), Length: e16.Draw(t, "l"), FlagField: flag, Error: e16.Draw(t, "err"),
			RequestCorrectionField: int64(u64.Draw(t, "corr")), UTCOffset: int16(e16.Draw(t, "utc")),
			ServerStateDS: csptp.ServerStateDS{u8.Draw(t, "a"), u8.Draw(t, "b"), u8.Draw(t, "c"), e16.Draw(t, "d"), u8.Draw(t, "e"), u64.Draw(t, "f"), e16.Draw(t, "g"), u8.Draw(t, "h"), u8.Draw(t, "i")}}
		resp.OrganizationID, resp.OrganizationSubType = req.OrganizationID, req.OrganizationSubType
		copy(resp.RequestIngressTimestamp.Seconds[:], rapid.SliceOfN(u8, 6, 6).Draw(t, "ts"))
		resp.RequestIngressTimestamp.Nanoseconds = u32.Draw(t, "tsn")
		checkCSPTPResponseTLV(t, resp)
		recCSPTP.Eval(flag&1 != 0 || binary.BigEndian.Uint64(b[8:]) != 0, ev.Hash(b[:44], flag, resp.RequestCorrectionField), func() any {
			return map[string]any{"message": hx(b[:44]), "tlv_flag": flag, "response_tlv": fmt.Sprintf("%+v", resp)}
		})
	})
}

// ---------------------------------------------------------------- NTS extension fields

type ntsCase struct {
	UIDLen       int   `json:"uid_len"`
	CookieLens   []int `json:"cookie_lens"`
	Placeholders int   `json:"placeholders"`
	PlaceLen     int   `json:"placeholder_len"`
	PlainLen     int   `json:"plaintext_len"`
	Filler       uint64 `json:"filler"`
	// Unknown: extension fields of other types inserted between the encoded ones (never behind the authenticator).
	// A receiver must skip them (RFC 7822); their bodies must not be taken for fields of a known kind.
	Unknown []unkField `json:"unknown_fields,omitempty"`
}

type unkField struct {
	Before  int    `json:"before_field"` // index of the encoded field it is inserted in front of
	Type    uint16 `json:"type"`
	BodyLen int    `json:"body_len"` // multiple of 4
	Pattern int    `json:"pattern"`  // 0 zeros, 1 starts like a 32-byte cookie field, 2 like an authenticator field, 3 filler, 4 like a unique identifier field
}

func pad4(n int) int { return (n + 3) &^ 3 }

func (c ntsCase) size() int {
	n := 48 + 4 + pad4(c.UIDLen)
	for _, l := range c.CookieLens {
		n += 4 + pad4(l)
	}
	n += c.Placeholders * (4 + pad4(c.PlaceLen))
	n += 4 + 4 + 16 + pad4(c.PlainLen+16)
	return n
}

type extField struct {
	typ  uint16
	body []byte
	off  int
}

// walk is the harness's own RFC 7822 extension field walker.
func walk(t failer, b []byte) []extField {
	var fs []extField
	pos := 48
	for pos < len(b) {
		if len(b)-pos < 4 {
			t.Fatalf("trailing %d bytes after the last extension field", len(b)-pos)
		}
		typ, l := binary.BigEndian.Uint16(b[pos:]), int(binary.BigEndian.Uint16(b[pos+2:]))
		if pos%4 != 0 || l%4 != 0 || l < 4 || pos+l > len(b) {
			t.Fatalf("extension field at %d: type %#x length %d not aligned / out of bounds (packet %d bytes)", pos, typ, l, len(b))
		}
		fs = append(fs, extField{typ, b[pos+4 : pos+l], pos})
		pos += l
	}
	return fs
}

func zeroPadded(got, want []byte) bool {
	if len(got) != pad4(len(want)) || !bytes.Equal(got[:len(want)], want) {
		return false
	}
	for _, x := range got[len(want):] {
		if x != 0 {
			return false
		}
	}
	return true
}

func checkNTS(t failer, c ntsCase) {
	raw := make([]byte, 64+8*256+c.PlainLen+16+32)
	fill(raw, c.Filler)
	take := func(n int) []byte { r := raw[:n:n]; raw = raw[n:]; return r }
	var pkt nts.Packet
	pkt.UniqueID.ID = take(c.UIDLen)
	for _, l := range c.CookieLens {
		pkt.Cookies = append(pkt.Cookies, nts.Cookie{Cookie: take(l)})
	}
	for i := 0; i < c.Placeholders; i++ {
		pkt.CookiePlaceholders = append(pkt.CookiePlaceholders, nts.CookiePlaceholder{Cookie: make([]byte, c.PlaceLen)})
	}
	pkt.Auth.Key = take(32)
	pkt.Auth.PlainText = take(c.PlainLen)
	b := make([]byte, 48)
	fill(b, c.Filler+1)
	hdr := bytes.Clone(b)
	nts.EncodePacket(&b, &pkt)
	if len(b) != c.size() {
		t.Fatalf("encoded length %d, expected %d for %+v", len(b), c.size(), c)
	}
	if !bytes.Equal(b[:48], hdr) {
		t.Fatalf("EncodePacket changed the NTP header")
	}
	fs := walk(t, b)
	var wantTypes []uint16
	wantTypes = append(wantTypes, 0x104)
	for range c.CookieLens {
		wantTypes = append(wantTypes, 0x204)
	}
	for i := 0; i < c.Placeholders; i++ {
		wantTypes = append(wantTypes, 0x304)
	}
	wantTypes = append(wantTypes, 0x404)
	var gotTypes []uint16
	for _, f := range fs {
		gotTypes = append(gotTypes, f.typ)
	}
	if !reflect.DeepEqual(gotTypes, wantTypes) {
		t.Fatalf("field kinds on the wire %#x, encoded kinds %#x (unique id, %d cookies, %d placeholders, authenticator)", gotTypes, wantTypes, len(c.CookieLens), c.Placeholders)
	}
	if !zeroPadded(fs[0].body, pkt.UniqueID.ID) {
		t.Fatalf("unique id on the wire %s, want %s zero-padded", hx(fs[0].body), hx(pkt.UniqueID.ID))
	}
	for i, ck := range pkt.Cookies {
		if !zeroPadded(fs[1+i].body, ck.Cookie) {
			t.Fatalf("cookie %d on the wire differs", i)
		}
	}
	for i := 0; i < c.Placeholders; i++ {
		if len(fs[1+len(pkt.Cookies)+i].body) != pad4(c.PlaceLen) {
			t.Fatalf("placeholder %d has body length %d, want %d", i, len(fs[1+len(pkt.Cookies)+i].body), pad4(c.PlaceLen))
		}
	}
	auth := fs[len(fs)-1]
	nl, cl := int(binary.BigEndian.Uint16(auth.body)), int(binary.BigEndian.Uint16(auth.body[2:]))
	if nl != 16 || cl != c.PlainLen+16 || len(auth.body) != 4+pad4(nl)+pad4(cl) {
		t.Fatalf("authenticator: nonce length %d, ciphertext length %d, body %d (plaintext %d)", nl, cl, len(auth.body), c.PlainLen)
	}
	wireNonce, wireCT := auth.body[4:4+nl], auth.body[4+pad4(nl):4+pad4(nl)+cl]

	var d nts.Packet
	if err := nts.DecodePacket(&d, b); err != nil {
		t.Fatalf("DecodePacket refused the project's own encoding: %v (%+v)", err, c)
	}
	if len(d.Cookies) != len(pkt.Cookies) || len(d.CookiePlaceholders) != c.Placeholders {
		t.Fatalf("decoded %d cookies and %d placeholders, encoded %d cookies and %d placeholders", len(d.Cookies), len(d.CookiePlaceholders), len(pkt.Cookies), c.Placeholders)
	}
	if !zeroPadded(d.UniqueID.ID, pkt.UniqueID.ID) {
		t.Fatalf("decoded unique id %s, encoded %s", hx(d.UniqueID.ID), hx(pkt.UniqueID.ID))
	}
	for i := range pkt.Cookies {
		if !zeroPadded(d.Cookies[i].Cookie, pkt.Cookies[i].Cookie) {
			t.Fatalf("decoded cookie %d = %s, encoded %s", i, hx(d.Cookies[i].Cookie), hx(pkt.Cookies[i].Cookie))
		}
	}
	if !bytes.Equal(d.Auth.Nonce, wireNonce) || !bytes.Equal(d.Auth.CipherText, wireCT) {
		t.Fatalf("decoded nonce/ciphertext differ from the bytes on the wire")
	}
	// RFC 8915 5.6: the authenticator field may carry additional padding behind the ciphertext - a valid encoding of
	// the same packet (the field is the last one and not part of the associated data)
	if pad := 4 * int(c.Filler%5); pad > 0 && len(b)+pad <= nts.MaxPacketLen {
		bp := append(bytes.Clone(b), make([]byte, pad)...)
		binary.BigEndian.PutUint16(bp[auth.off+2:], uint16(4+len(auth.body)+pad))
		var dp nts.Packet
		if err := nts.DecodePacket(&dp, bp); err != nil {
			t.Fatalf("DecodePacket refused the packet with %d bytes of additional padding in the authenticator field: %v", pad, err)
		}
		if len(dp.Cookies) != len(d.Cookies) || len(dp.CookiePlaceholders) != len(d.CookiePlaceholders) || !bytes.Equal(dp.UniqueID.ID, d.UniqueID.ID) ||
			!bytes.Equal(dp.Auth.Nonce, d.Auth.Nonce) || !bytes.Equal(dp.Auth.CipherText, d.Auth.CipherText) {
			t.Fatalf("with %d bytes of additional padding in the authenticator field the packet decodes differently", pad)
		}
	}
	if len(c.Unknown) == 0 {
		return
	}
	// the same fields with unknown ones in between: every known field still decodes as the kind it was encoded as
	b2 := bytes.Clone(b[:48])
	for i, f := range fs {
		for _, u := range c.Unknown {
			if u.Before%len(fs) != i {
				continue
			}
			uf := make([]byte, 4+u.BodyLen)
			binary.BigEndian.PutUint16(uf, u.Type)
			binary.BigEndian.PutUint16(uf[2:], uint16(len(uf)))
			body := uf[4:]
			switch u.Pattern {
			case 1:
				copy(body, []byte{0x02, 0x04, 0x00, 0x20})
			case 2:
				copy(body, []byte{0x04, 0x04, 0x00, 0x1c, 0x00, 0x10, 0x00, 0x10})
			case 3:
				fill(body, c.Filler+uint64(i)+7)
			case 4:
				copy(body, []byte{0x01, 0x04, 0x00, 0x24})
			}
			b2 = append(b2, uf...)
		}
		b2 = append(b2, b[f.off:f.off+4+len(f.body)]...)
	}
	var d2 nts.Packet
	if err := nts.DecodePacket(&d2, b2); err != nil {
		t.Fatalf("DecodePacket refused a packet with extension fields of unknown types %+v between the known ones: %v", c.Unknown, err)
	}
	if len(d2.Cookies) != len(d.Cookies) || len(d2.CookiePlaceholders) != len(d.CookiePlaceholders) || !bytes.Equal(d2.UniqueID.ID, d.UniqueID.ID) ||
		!bytes.Equal(d2.Auth.Nonce, d.Auth.Nonce) || !bytes.Equal(d2.Auth.CipherText, d.Auth.CipherText) {
		t.Fatalf("with unknown fields %+v in between: decoded %d cookies, %d placeholders, identifier %s; without them %d, %d, %s", c.Unknown, len(d2.Cookies), len(d2.CookiePlaceholders), hx(d2.UniqueID.ID), len(d.Cookies), len(d.CookiePlaceholders), hx(d.UniqueID.ID))
	}
	for i := range d.Cookies {
		if !bytes.Equal(d2.Cookies[i].Cookie, d.Cookies[i].Cookie) {
			t.Fatalf("with unknown fields %+v in between: cookie %d decodes as %s instead of %s", c.Unknown, i, hx(d2.Cookies[i].Cookie), hx(d.Cookies[i].Cookie))
		}
	}
}

var recNTS = ev.New("c14/nts-extension-fields", "rapid: packets with unique id 32..64 bytes, 1..8 cookies of 1..200 bytes, 0..7 placeholders, plaintext 0..600 bytes, constrained by construction to fit the 1024-byte maximum; encoded with EncodePacket, walked by an independent RFC 7822 walker (alignment, lengths, exact kind sequence 0x104,0x204*,0x304*,0x404), decoded with DecodePacket (same kinds and counts, values equal up to zero padding, nonce/ciphertext equal to the wire); for four packets in five also with 4..16 bytes of additional padding in the authenticator field (RFC 8915 5.6): decodes to the same; for a third of the packets also with 1..3 extension fields of unknown types (bodies that look like known field headers) in between: the known fields decode unchanged. Non-trivial: >= 1 placeholder; distinct by the case parameters")

func genNTS(t *rapid.T) ntsCase {
	c := ntsCase{
		UIDLen:   rapid.OneOf(rapid.IntRange(32, 64), rapid.Just(32)).Draw(t, "uid"),
		PlainLen: rapid.OneOf(rapid.IntRange(0, 600), rapid.SampledFrom([]int{0, 1, 3, 4, 128, 256})).Draw(t, "plain"),
		Filler:   rapid.Uint64().Draw(t, "filler"),
	}
	nc := rapid.IntRange(1, 8).Draw(t, "ncookies")
	clen := rapid.OneOf(rapid.IntRange(1, 200), rapid.SampledFrom([]int{124, 100, 104, 1, 4})).Draw(t, "clen")
	for i := 0; i < nc; i++ {
		l := clen
		if rapid.IntRange(0, 4).Draw(t, "vary") == 0 {
			l = rapid.IntRange(1, 200).Draw(t, "clen_i")
		}
		c.CookieLens = append(c.CookieLens, l)
	}
	c.Placeholders = rapid.IntRange(0, 7).Draw(t, "nplace")
	c.PlaceLen = c.CookieLens[0]
	// shrink to fit (construction, not rejection)
	for c.size() > nts.MaxPacketLen {
		switch {
		case c.PlainLen > 0:
			c.PlainLen /= 2
		case c.Placeholders > 0:
			c.Placeholders--
		case len(c.CookieLens) > 1:
			c.CookieLens = c.CookieLens[:len(c.CookieLens)-1]
		default:
			c.CookieLens[0] /= 2
			c.PlaceLen = c.CookieLens[0]
		}
	}
	if rapid.IntRange(0, 2).Draw(t, "unknown-fields") == 0 {
		for n := rapid.IntRange(1, 3).Draw(t, "nunknown"); n > 0; n-- {
			c.Unknown = append(c.Unknown, unkField{
				Before:  rapid.IntRange(0, 20).Draw(t, "before"),
				Type:    rapid.SampledFrom([]uint16{0x0000, 0x0105, 0x0205, 0x0004, 0x4104, 0x8204, 0x0504, 0x2005, 0xffff, 0x0103}).Draw(t, "utype"),
				BodyLen: 4 * rapid.IntRange(0, 16).Draw(t, "ubody"),
				Pattern: rapid.IntRange(0, 4).Draw(t, "upattern"),
			})
		}
	}
	return c
}

func TestPropNTSFields(t *testing.T) {
	vt.Check(t, 20000, 200000, func(t *rapid.T) {
		c := genNTS(t)
		checkNTS(t, c)
		recNTS.Eval(c.Placeholders > 0, ev.Hash(fmt.Sprint(c)), func() any { return c })
	})
}

// ---------------------------------------------------------------- server cookies

var recCk = ev.New("c14/server-cookies", "rapid: ServerCookie (any algorithm id, key lengths 0..300) and EncryptedServerCookie (any id, nonce/ciphertext lengths 0..300): Decode(Encode(x)) == x. Non-trivial: all byte strings non-empty; distinct by value")

func TestPropServerCookies(t *testing.T) {
	bs := rapid.OneOf(rapid.SliceOfN(rapid.Byte(), 0, 300), rapid.SliceOfN(rapid.Byte(), 32, 32), rapid.SliceOfN(rapid.Byte(), 0, 4))
	vt.Check(t, 40000, 400000, func(t *rapid.T) {
		sc := ntske.ServerCookie{Algo: rapid.Uint16().Draw(t, "algo"), S2C: bs.Draw(t, "s2c"), C2S: bs.Draw(t, "c2s")}
		b := sc.Encode()
		var d ntske.ServerCookie
		if err := d.Decode(b); err != nil || d.Algo != sc.Algo || !bytes.Equal(d.S2C, sc.S2C) || !bytes.Equal(d.C2S, sc.C2S) {
			t.Fatalf("ServerCookie Decode(Encode(%+v)) = %+v, %v", sc, d, err)
		}
		ec := ntske.EncryptedServerCookie{ID: rapid.Uint16().Draw(t, "id"), Nonce: bs.Draw(t, "nonce"), Ciphertext: bs.Draw(t, "ct")}
		b = ec.Encode()
		var e ntske.EncryptedServerCookie
		if err := e.Decode(b); err != nil || e.ID != ec.ID || !bytes.Equal(e.Nonce, ec.Nonce) || !bytes.Equal(e.Ciphertext, ec.Ciphertext) {
			t.Fatalf("EncryptedServerCookie Decode(Encode(%+v)) = %+v, %v", ec, e, err)
		}
		nt := len(sc.S2C) > 0 && len(sc.C2S) > 0 && len(ec.Nonce) > 0 && len(ec.Ciphertext) > 0
		recCk.Eval(nt, ev.Hash(sc.Algo, sc.S2C, sc.C2S, ec.ID, ec.Nonce, ec.Ciphertext), func() any {
			return map[string]any{"algo": sc.Algo, "s2c": hx(sc.S2C), "c2s": hx(sc.C2S), "id": ec.ID, "nonce": hx(ec.Nonce), "ciphertext_len": len(ec.Ciphertext)}
		})
	})
}

// ---------------------------------------------------------------- NTS-KE record streams

type keCase struct {
	Server  string   `json:"server"`
	HasPort bool     `json:"has_port"`
	Port    uint16   `json:"port"`
	Cookies []string `json:"cookies_hex"`
	Unknown []int    `json:"unknown_noncritical_body_lens"` // extra non-critical unknown records before the cookies
	Chunks  []int    `json:"read_sizes"`                    // sizes returned by successive reads; the last one repeats
}

type chunkReader struct {
	b      []byte
	chunks []int
	i      int
}

func (r *chunkReader) Read(p []byte) (int, error) {
	if len(r.b) == 0 {
		return 0, io.EOF
	}
	n := r.chunks[min(r.i, len(r.chunks)-1)]
	r.i++
	n = min(n, len(p), len(r.b))
	copy(p, r.b[:n])
	r.b = r.b[n:]
	return n, nil
}

type rawRecord struct {
	typ  uint16
	body []byte
}

func buildKE(c keCase) ([]byte, [][]byte, error) {
	var msg ntske.ExchangeMsg
	msg.AddRecord(ntske.NextProto{NextProto: ntske.NTPv4})
	msg.AddRecord(ntske.Algorithm{Algo: []uint16{ntske.AES_SIV_CMAC_256}})
	if c.Server != "" {
		msg.AddRecord(ntske.Server{Addr: []byte(c.Server)})
	}
	if c.HasPort {
		msg.AddRecord(ntske.Port{Port: c.Port})
	}
	var cookies [][]byte
	for _, h := range c.Cookies {
		ck, _ := hex.DecodeString(h)
		cookies = append(cookies, ck)
		msg.AddRecord(ntske.Cookie{Cookie: ck})
	}
	msg.AddRecord(ntske.End{})
	buf, err := msg.Pack()
	if err != nil {
		return nil, nil, err
	}
	b := buf.Bytes()
	// unknown non-critical records (type 0x4000+i) are spliced in after the first two records by the harness
	if len(c.Unknown) > 0 {
		var extra []byte
		for i, l := range c.Unknown {
			h := make([]byte, 4+l)
			binary.BigEndian.PutUint16(h, uint16(0x4000+i))
			binary.BigEndian.PutUint16(h[2:], uint16(l))
			fill(h[4:], uint64(l))
			extra = append(extra, h...)
		}
		b = append(append(bytes.Clone(b[:12]), extra...), b[12:]...)
	}
	return b, cookies, nil
}

func checkKE(t failer, c keCase) {
	stream, cookies, err := buildKE(c)
	if err != nil {
		t.Fatalf("Pack: %v", err)
	}
	log := slog.New(slog.NewTextHandler(io.Discard, nil))
	read := func(chunks []int) (ntske.Data, error) {
		var d ntske.Data
		r := bufio.NewReader(&chunkReader{b: bytes.Clone(stream), chunks: chunks})
		err := ntske.ReadData(context.Background(), log, r, &d)
		return d, err
	}
	ref, err := read([]int{1 << 20})
	if err != nil {
		t.Fatalf("ReadData refused a well-formed stream delivered in one read: %v", err)
	}
	check := func(d ntske.Data, how string) {
		if d.Algo != ntske.AES_SIV_CMAC_256 || d.Server != c.Server || (c.HasPort && d.Port != c.Port) || len(d.Cookie) != len(cookies) {
			t.Fatalf("%s: decoded algo %d server %q port %d cookies %d; encoded 15 %q %d(%v) %d", how, d.Algo, d.Server, d.Port, len(d.Cookie), c.Server, c.Port, c.HasPort, len(cookies))
		}
		for i := range cookies {
			if !bytes.Equal(d.Cookie[i], cookies[i]) {
				t.Fatalf("%s: cookie %d decoded as %s, encoded %s", how, i, hx(d.Cookie[i]), hx(cookies[i]))
			}
		}
	}
	check(ref, "single read")
	d, err := read(c.Chunks)
	if err != nil {
		t.Fatalf("ReadData failed on the same stream segmented into reads %v: %v", c.Chunks, err)
	}
	check(d, fmt.Sprintf("segmented %v", c.Chunks))
}

var recKE = ev.New("c14/ntske-records", "rapid: messages (next protocol, AEAD 15, optional server, optional port, 1..16 cookies of 1..400 bytes (one message in 200 with a cookie of 4095..65535 bytes), optional unknown non-critical records, end) packed with ExchangeMsg.Pack and read by ReadData through bufio over a reader that returns rapid-chosen read sizes (1 byte, few bytes, splits inside headers and cookie bodies, everything at once): decoded Data equals the encoded values for every segmentation. Non-trivial: a read boundary falls strictly inside a cookie body; distinct by (message, segmentation)")

func splitsCookie(c keCase, stream []byte) bool {
	// positions of cookie bodies
	type span struct{ lo, hi int }
	var spans []span
	pos := 0
	for pos+4 <= len(stream) {
		typ := binary.BigEndian.Uint16(stream[pos:]) &^ 0x8000
		l := int(binary.BigEndian.Uint16(stream[pos+2:]))
		if typ == ntske.RecCookie {
			spans = append(spans, span{pos + 4, pos + 4 + l})
		}
		pos += 4 + l
	}
	off, i := 0, 0
	for off < len(stream) {
		off += c.Chunks[min(i, len(c.Chunks)-1)]
		i++
		for _, s := range spans {
			if off > s.lo && off < s.hi {
				return true
			}
		}
	}
	return false
}

func genKE(t *rapid.T) keCase {
	var c keCase
	if rapid.Bool().Draw(t, "hasserver") {
		c.Server = rapid.StringMatching(`[a-z0-9.:]{1,40}`).Draw(t, "server")
	}
	c.HasPort = rapid.Bool().Draw(t, "hasport")
	if c.HasPort {
		c.Port = rapid.Uint16().Draw(t, "port")
	}
	nc := rapid.OneOf(rapid.IntRange(1, 16), rapid.Just(8)).Draw(t, "ncookies")
	for i := 0; i < nc; i++ {
		l := rapid.OneOf(rapid.IntRange(1, 400), rapid.Just(124)).Draw(t, "clen")
		// now and then a cookie around and beyond the usual buffer sizes (a record body may have up to 65535 octets)
		if i == 0 && rapid.IntRange(0, 199).Draw(t, "bigcookie") == 0 {
			l = rapid.SampledFrom([]int{4095, 4096, 4097, 5000, 8192, 8193, 65535}).Draw(t, "biglen")
		}
		b := make([]byte, l)
		fill(b, rapid.Uint64().Draw(t, "cfill"))
		c.Cookies = append(c.Cookies, hx(b))
	}
	c.Unknown = rapid.SliceOfN(rapid.IntRange(0, 50), 0, 2).Draw(t, "unknown")
	switch rapid.IntRange(0, 4).Draw(t, "segkind") {
	case 0:
		c.Chunks = []int{1}
	case 1:
		c.Chunks = []int{rapid.IntRange(1, 20).Draw(t, "chunk")}
	case 2:
		c.Chunks = rapid.SliceOfN(rapid.IntRange(1, 300), 1, 40).Draw(t, "chunks")
	case 3:
		c.Chunks = rapid.SliceOfN(rapid.IntRange(1, 5000), 1, 10).Draw(t, "chunks")
	default:
		c.Chunks = []int{rapid.IntRange(100, 1500).Draw(t, "chunk")}
	}
	return c
}

func TestPropNTSKERecords(t *testing.T) {
	vt.Check(t, 60000, 500000, func(t *rapid.T) {
		c := genKE(t)
		checkKE(t, c)
		stream, _, _ := buildKE(c)
		recKE.Eval(splitsCookie(c, stream), ev.Hash(fmt.Sprint(c)), func() any {
			s := c
			if len(s.Cookies) > 2 {
				s.Cookies = append([]string{}, s.Cookies[:2]...)
				s.Cookies = append(s.Cookies, fmt.Sprintf("... %d more", len(c.Cookies)-2))
			}
			return s
		})
	})
}

// ---------------------------------------------------------------- replay

func TestReplay(t *testing.T) {
	files, _ := filepath.Glob(filepath.Join(vt.CorpusDir("C14"), "*.json"))
	if p := vt.ReplayCase(); p != "" {
		files = []string{p}
	}
	for _, p := range files {
		b, err := os.ReadFile(p)
		if err != nil {
			t.Fatal(err)
		}
		var w struct {
			Kind string          `json:"kind"`
			Case json.RawMessage `json:"case"`
		}
		if err := json.Unmarshal(b, &w); err != nil {
			t.Fatalf("%s: %v", p, err)
		}
		switch w.Kind {
		case "nts":
			var c ntsCase
			if err := json.Unmarshal(w.Case, &c); err != nil {
				t.Fatal(err)
			}
			checkNTS(exhFail{t, c}, c)
		case "ke":
			var c keCase
			if err := json.Unmarshal(w.Case, &c); err != nil {
				t.Fatal(err)
			}
			checkKE(exhFail{t, c}, c)
		default:
			var c struct {
				Bytes string `json:"bytes"`
			}
			if json.Unmarshal(w.Case, &c) == nil && c.Bytes != "" {
				bb, _ := hex.DecodeString(c.Bytes)
				checkNTPBytes(exhFail{t, c}, bb, 48)
			}
		}
	}
}
