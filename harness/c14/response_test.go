package c14

// Cookies as a server hands them out: inside the encrypted part of the authenticator field of a response
// (nts.NewResponsePacket -> EncodePacket), decoded by the client with DecodePacket + ProcessResponse. "NTS extension
// fields (... cookie ...) each decode as the kind that was encoded, 4-byte aligned" for cookie values of any length
// and number, not only the 124-byte cookies this project's own server issues.

import (
	"bytes"
	"encoding/binary"
	"fmt"
	"testing"

	"github.com/miscreant/miscreant.go"
	"pgregory.net/rapid"

	"example.com/scion-time/net/nts"
	"example.com/scion-time/net/ntske"

	"verif/internal/ev"
	"verif/internal/vt"
)

type respCase struct {
	UIDLen     int    `json:"uid_len"`
	CookieLens []int  `json:"cookie_lens"`
	Filler     uint64 `json:"filler"`
}

func (c respCase) size() int {
	n := 48 + 4 + pad4(c.UIDLen) + 4 + 4 + 16 + 16
	for _, l := range c.CookieLens {
		n += 4 + pad4(l)
	}
	return n
}

var recResp = ev.New("c14/nts-response-cookies", "rapid: 1..8 cookies (all of one length 1..200 - dense at 4, 16, 20, 24, 28, 100, 124 and at lengths that are not multiples of 4 - or, for a quarter of the cases, of individual lengths) packed by NewResponsePacket into the encrypted part of a response, EncodePacket; oracle: no panic; the harness opens the authenticator itself (own AES-SIV call) and walks the plaintext with its own walker: exactly the cookies, in order, as 4-byte aligned cookie fields, values equal up to zero padding; DecodePacket + ProcessResponse (the client's path; four times in five with 4..16 bytes of additional padding in the authenticator field) return the same cookies. One evaluation = one packet. Non-trivial: a cookie shorter than 24 bytes, a length that is not a multiple of 4, or unequal lengths; distinct by the case parameters")

func TestPropNTSResponseCookies(t *testing.T) {
	vt.Check(t, 20000, 200000, func(t *rapid.T) {
		c := respCase{UIDLen: 32, Filler: rapid.Uint64().Draw(t, "filler")}
		n := rapid.OneOf(rapid.IntRange(1, 8), rapid.SampledFrom([]int{1, 2, 8})).Draw(t, "ncookies")
		clen := rapid.OneOf(rapid.IntRange(1, 200), rapid.SampledFrom([]int{124, 100, 104, 1, 4, 13, 16, 20, 24, 28, 99, 101})).Draw(t, "clen")
		unequal := rapid.IntRange(0, 3).Draw(t, "unequal") == 0
		for i := 0; i < n; i++ {
			l := clen
			if unequal {
				l = rapid.OneOf(rapid.IntRange(1, 200), rapid.SampledFrom([]int{24, 100, 124, 4})).Draw(t, "clen_i")
			}
			c.CookieLens = append(c.CookieLens, l)
		}
		for c.size() > nts.MaxPacketLen {
			c.CookieLens = c.CookieLens[:len(c.CookieLens)-1]
		}
		msg := checkResp(c)
		if msg != "" {
			t.Fatalf("%s (%+v)", msg, c)
		}
		var ls []string
		short, unal, uneq := false, false, false
		for _, l := range c.CookieLens {
			short = short || l < 24
			unal = unal || l%4 != 0
			uneq = uneq || l != c.CookieLens[0]
		}
		for k, v := range map[string]bool{"cookie-shorter-than-24": short, "length-not-multiple-of-4": unal, "unequal-lengths": uneq} {
			if v {
				ls = append(ls, k)
			}
		}
		recResp.Eval(short || unal || uneq, ev.Hash(fmt.Sprint(c.CookieLens)), func() any { return c }, ls...)
	})
}

func checkResp(c respCase) (msg string) {
	defer func() {
		if r := recover(); r != nil {
			msg = fmt.Sprintf("panic while encoding/decoding a response with cookie lengths %v: %v", c.CookieLens, r)
		}
	}()
	raw := make([]byte, 64+8*256+64)
	fill(raw, c.Filler)
	take := func(n int) []byte { r := raw[:n:n]; raw = raw[n:]; return r }
	uid, key := take(c.UIDLen), take(32)
	var cookies [][]byte
	for _, l := range c.CookieLens {
		cookies = append(cookies, take(l))
	}
	pkt := nts.NewResponsePacket(cookies, key, uid)
	b := make([]byte, 48)
	nts.EncodePacket(&b, &pkt)
	if len(b) != c.size() {
		return fmt.Sprintf("encoded length %d, expected %d", len(b), c.size())
	}
	// the harness's own view of the wire: identifier, authenticator; plaintext = the cookie fields
	var pt []byte
	{
		pos := 48
		var auth []byte
		for pos+4 <= len(b) {
			typ, l := binary.BigEndian.Uint16(b[pos:]), int(binary.BigEndian.Uint16(b[pos+2:]))
			if l < 4 || l%4 != 0 || pos+l > len(b) {
				return fmt.Sprintf("extension field at %d: type %#x length %d", pos, typ, l)
			}
			if typ == 0x404 {
				auth = b[pos+4 : pos+l]
				a, err := miscreant.NewAEAD("AES-CMAC-SIV", key, 16)
				if err != nil {
					return err.Error()
				}
				nl, cl := int(binary.BigEndian.Uint16(auth)), int(binary.BigEndian.Uint16(auth[2:]))
				if 4+pad4(nl)+cl > len(auth) {
					return "authenticator lengths exceed the field"
				}
				pt, err = a.Open(nil, auth[4:4+nl], auth[4+pad4(nl):4+pad4(nl)+cl], b[:pos])
				if err != nil {
					return "authenticator does not open under the key: " + err.Error()
				}
			}
			pos += l
		}
		if auth == nil {
			return "no authenticator field"
		}
	}
	pos, i := 0, 0
	for pos < len(pt) {
		if len(pt)-pos < 4 {
			return fmt.Sprintf("encrypted part: %d trailing bytes", len(pt)-pos)
		}
		typ, l := binary.BigEndian.Uint16(pt[pos:]), int(binary.BigEndian.Uint16(pt[pos+2:]))
		if l < 4 || l%4 != 0 || pos+l > len(pt) {
			return fmt.Sprintf("encrypted part: field at %d has type %#x length %d (plaintext %d bytes)", pos, typ, l, len(pt))
		}
		if typ != 0x204 || i >= len(cookies) {
			return fmt.Sprintf("encrypted part: field %d has type %#x; %d cookies were encoded", i, typ, len(cookies))
		}
		if !zeroPadded(pt[pos+4:pos+l], cookies[i]) {
			return fmt.Sprintf("cookie %d (%d bytes) on the wire is %s, encoded %s", i, len(cookies[i]), hx(pt[pos+4:pos+l]), hx(cookies[i]))
		}
		pos += l
		i++
	}
	if i != len(cookies) {
		return fmt.Sprintf("encrypted part holds %d cookie fields, %d were encoded", i, len(cookies))
	}
	// the client's path; for four responses in five with additional padding in the authenticator field (RFC 8915 5.6)
	if pad := 4 * int(c.Filler%5); pad > 0 && len(b)+pad <= nts.MaxPacketLen {
		for pos := 48; pos+4 <= len(b); pos += int(binary.BigEndian.Uint16(b[pos+2:])) {
			if binary.BigEndian.Uint16(b[pos:]) == 0x404 {
				binary.BigEndian.PutUint16(b[pos+2:], binary.BigEndian.Uint16(b[pos+2:])+uint16(pad))
				b = append(b, make([]byte, pad)...)
				break
			}
		}
	}
	var d nts.Packet
	if err := nts.DecodePacket(&d, b); err != nil {
		return "DecodePacket refused the project's own response: " + err.Error()
	}
	if err := nts.ProcessResponse(b, key, &ntske.Fetcher{}, &d, uid); err != nil {
		return "ProcessResponse refused the project's own response: " + err.Error()
	}
	if len(d.Cookies) != len(cookies) {
		return fmt.Sprintf("client decoded %d cookies, %d were encoded (lengths %v)", len(d.Cookies), len(cookies), c.CookieLens)
	}
	for i := range cookies {
		if !zeroPadded(d.Cookies[i].Cookie, cookies[i]) {
			return fmt.Sprintf("client decoded cookie %d as %s, encoded %s", i, hx(d.Cookies[i].Cookie), hx(cookies[i]))
		}
	}
	if !bytes.Equal(d.UniqueID.ID, uid) {
		return "identifier differs"
	}
	return ""
}
