HOOK_COMMITS = []
NOT_APPLICABLE = {}
TEXT = {
    "C02": {
        "technique": "property-based testing (rapid) with adversarial-position generator + exhaustive small-alphabet enumeration; oracle = containment in the correct values' range, big-integer midpoint, multiset and permutation invariance",
        "level": "Generated search: tens of thousands (quick) to ~10^7 (thorough) offset multisets with up to floor((n-1)/3) adversarial values, n in 1..64, plus every sequence of length <=7 over a 5-value extreme alphabet with every admissible faulty subset. Exploration, not proof: absence of counterexamples among generated cases.",
        "note": "Trusts math/big and the Go sort used by the oracle; measurement timestamps are kept within +-100 years so time.Time.Sub does not saturate (outside the statement's domain).",
    },
    "C04": {
        "technique": "property-based testing (rapid) of the timestamp round trip relative to generated references, plus exhaustive enumeration of the nanosecond (10^9) and fraction (2^32) fields in the thorough tier; oracle = integer-arithmetic inverse (0 <= t - back <= 1 ns) and order preservation",
        "level": "Generated search over (reference 1970..2500, delta in [-2^31 s, 2^31 s)) with mass on era rollovers and both window edges; the sub-second fields are enumerated completely in the thorough tier (strided in quick). Exploration: the (reference, delta) plane itself is sampled, not enumerated.",
        "note": "Oracle uses only time.Unix/Unix()/Nanosecond() integer accessors (no time.Sub saturation). Found and repaired defect P1 (fix: 20cdc18).",
    },
    "C18": {
        "technique": "property-based testing (rapid) against big-integer / rational reference arithmetic for each conversion; exhaustive sweep of the kernel's scaled-ppm range (thorough); metamorphic construction of CSPTP timestamps from a chosen true offset and delay",
        "level": "Generated search over all int64 nanosecond counts and correction fields (corner-dense), the 48-bit timestamp range, drift/interval pairs and offset/delay/correction combinations up to 2^60 ns; the 6.6e7 scaled-ppm values are enumerated completely in the thorough tier. Exploration, not proof.",
        "note": "Trusts math/big. Drift() is exercised on the real driver/clocks.SystemClock (no privileged call involved); Sleep/Step/Adjust of that clock are out of scope of C18.",
    },
    "C14": {
        "technique": "property-based round-trip testing (rapid) per codec with an independent field reader / extension-field walker as second oracle; exhaustive enumeration of 8-bit (quick) and 16-bit (thorough) NTP fields; generated read segmentations for NTS-KE streams (metamorphic: result independent of segmentation)",
        "level": "Generated search: arbitrary 48..2048-byte NTP datagrams, CSPTP headers and TLVs, NTS packets within the size limit, server cookies, NTS-KE messages under generated read-size schedules. Exploration; exhaustive only for the enumerated NTP sub-fields.",
        "note": "NTS-KE AEAD lists with several algorithms and hostile length fields are outside the generator (see DESIGN C14 limits; C08 owns hostile input). Found and repaired P2 (a656d56) and P7 (2bdea76).",
    },
}
