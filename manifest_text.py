HOOK_COMMITS = []
NOT_APPLICABLE = {}
TEXT = {
    "C02": {
        "technique": "property-based testing (rapid) with adversarial-position generator + exhaustive small-alphabet enumeration; oracle = containment in the correct values' range, big-integer midpoint, multiset and permutation invariance",
        "level": "Generated search: tens of thousands (quick) to ~10^7 (thorough) offset multisets with up to floor((n-1)/3) adversarial values, n in 1..64, plus every sequence of length <=7 over a 5-value extreme alphabet with every admissible faulty subset. Exploration, not proof: absence of counterexamples among generated cases.",
        "note": "Trusts math/big and the Go sort used by the oracle; measurement timestamps are kept within +-100 years so time.Time.Sub does not saturate (outside the statement's domain).",
    },
}
