HOOK_COMMITS = ["a1f4396"]
NOT_APPLICABLE = {}
TEXT = {
    "C02": {
        "technique": "property-based testing (rapid) with adversarial-position generator + exhaustive small-alphabet enumeration; oracle = containment in the correct values' range, big-integer midpoint, multiset and permutation invariance",
        "level": "Generated search: tens of thousands (quick) to ~10^7 (thorough) offset multisets with up to floor((n-1)/3) adversarial values, n in 1..64, plus every sequence of length <=7 over a 5-value extreme alphabet with every admissible faulty subset. Exploration, not proof: absence of counterexamples among generated cases.",
        "note": "Trusts math/big and the Go sort used by the oracle; measurement timestamps are kept within +-100 years so time.Time.Sub does not saturate (outside the statement's domain).",
    },
    "C04": {
        "technique": "property-based testing (rapid) of the timestamp round trip relative to generated references, plus exhaustive enumeration of the nanosecond (10^9) and fraction (2^32) fields in the thorough tier; oracle = integer-arithmetic inverse (0 <= t - back <= 1 ns) and order preservation",
        "level": "Generated search over (reference 1970..2500, delta in [-2^31 s, 2^31 s)) with mass on era rollovers and both window edges; the sub-second fields are enumerated completely in the thorough tier (strided in quick). Exploration: the (reference, delta) plane itself is sampled, not enumerated.",
        "note": "Oracle uses only time.Unix/Unix()/Nanosecond() integer accessors (no time.Sub saturation). Found and repaired defect P1 (fix: 20cdc18).",
    },
    "C18": {
        "technique": "property-based testing (rapid) against big-integer / rational reference arithmetic for each conversion; exhaustive sweep of the kernel's scaled-ppm range (thorough); metamorphic construction of CSPTP timestamps from a chosen true offset and delay",
        "level": "Generated search over all int64 nanosecond counts and correction fields (corner-dense), the 48-bit timestamp range, drift/interval pairs and offset/delay/correction combinations up to 2^60 ns; the 6.6e7 scaled-ppm values are enumerated completely in the thorough tier. Exploration, not proof.",
        "note": "Trusts math/big. Drift() is exercised on the real driver/clocks.SystemClock (no privileged call involved); Sleep/Step/Adjust of that clock are out of scope of C18.",
    },
    "C14": {
        "technique": "property-based round-trip testing (rapid) per codec with an independent field reader / extension-field walker as second oracle; exhaustive enumeration of 8-bit (quick) and 16-bit (thorough) NTP fields; generated read segmentations for NTS-KE streams (metamorphic: result independent of segmentation)",
        "level": "Generated search: arbitrary 48..2048-byte NTP datagrams, CSPTP headers and TLVs, NTS packets within the size limit, server cookies, NTS-KE messages under generated read-size schedules. Exploration; exhaustive only for the enumerated NTP sub-fields.",
        "note": "NTS-KE AEAD lists with several algorithms and hostile length fields are outside the generator (see DESIGN C14 limits; C08 owns hostile input). Found and repaired P2 (a656d56) and P7 (2bdea76).",
    },
    "C01": {
        "technique": "model-based property testing (rapid): generated configurations and multi-round source histories drive the real sync.Run inside a testing/synctest bubble with a scripted system clock, scripted reference clocks/peers (in time, error, late, blocking) and a recording clock discipline; oracle = refusal predicate, one-correction-per-round invariant, the statement's bound, and an exact big-integer reference model of FTM/cutoff/clamp/midpoint",
        "level": "Generated search over configurations (incl. inadmissible ones), 0..7 reference clocks and peers, 1..8 rounds per history, offsets over the whole int64 range dense at the cutoff and both bounds. Exploration: tens of thousands of rounds per quick run, millions in the thorough tier.",
        "note": "The real SystemClock (needs CAP_SYS_TIME) and the PLL are replaced by fakes; Drift proportionality is covered by C18. NaN impact factors are generated among the inadmissible configurations (found and repaired: they were accepted, fix e9fb69f). A real-time watchdog (90 s per case, normal cost < 1 ms) converts a hang into a violation with a replay file.",
    },
    "C12": {
        "technique": "stateful property testing (rapid) of ntske.Provider under virtual time (testing/synctest) with the race detector: generated advance/Current/Get/burst sequences checked against a model of every key ever returned; plus long runs of 66 000..80 000 rotations (more than 2^16 identifiers); the binaries run in a time zone with daylight saving (TZ=Europe/Zurich)",
        "level": "Generated search over call sequences spanning up to months of virtual time with boundary advances (24 h, 48 h, 72 h +-1 ns) and concurrent bursts of 2..32 goroutines. Exploration; concurrency coverage is what the Go scheduler produces within a burst plus the race detector's verdict.",
        "note": "Virtual time stands for time.Now; key material randomness is treated as opaque (only distinctness is checked). A synctest bubble starts in the year 2000 and must stay below 2262 (runtime timers overflow), which bounds a long run to ~250 years.",
    },
    "C16": {
        "technique": "property-based testing (rapid) of ReferenceClockClient.MeasureClockOffsets under virtual time (testing/synctest) with the race detector: generated completion schedules, deadline/cancel/none, overlapping second collections; oracle = exact return instant, exactly-once placement of in-time successes, untouched tail, bubble-exit leak detection",
        "level": "Generated search over 0..12 clocks with completion times before/at/after the stop instant, blocked-until-cancelled and late-after-cancel clocks, success/error outcomes. Exploration; the order among goroutines ready at the same virtual instant is the runtime's choice and the oracle accepts every admissible order.",
        "note": "Leak detection relies on synctest.Run reporting durably blocked goroutines at bubble exit. A 60 s real-time watchdog per case turns a spin/hang into a violation.",
    },
    "C17": {
        "technique": "property-based testing (rapid) of both filters on generated exchange histories: naive reference model for the lucky-packet filter; for the Ntimed filter raw-offset checks for the first three samples, a metamorphic history-independence relation after reset/epoch change, and a harness replica of the running statistics that marks samples clearly inside the learned bounds",
        "level": "Generated search over histories of up to 100 samples, capacities 1..32, picks 1..40, resets and epoch changes at arbitrary positions. Exploration.",
        "note": "Ntimed samples within a relative 1e-9 guard band of a learned limit, or with offsets beyond ~1 day (variance estimate dominated by cancellation), are judged only by the first two oracles. One fake clock is registered per process to supply the epoch.",
    },
    "C19": {
        "technique": "stateful property testing (rapid): generated (dt, offset, weight) histories with external epoch changes drive the real Pll against a recording fake clock; oracle = statement-level predicates on every Step/Adjust call",
        "level": "Generated search over histories of up to 60 updates with boundary time steps (2 s, 6 s +-1 ns), offsets around +-1 ms and over the whole int64 range, weights around 3/50/150 and +Inf. Exploration.",
        "note": "Gaps between updates are bounded by 1e5 s (a ~292-year gap overflows the duration conversion; recorded as out of scope). MinInt64 offsets are exempt from 'by exactly the offset'.",
    },
    "C06": {
        "technique": "model-based stateful property testing (rapid state machine) of the real request handler and transmit-timestamp update through the verif hooks, with a registered fake clock; oracle = history model independent of the store's replacement policy, checked against a pre-call snapshot of the real store; plus an eviction-isolation sub-check at the store's capacity (2^20 clients)",
        "level": "Generated search over request/update histories of 2..5 clients (request kinds, colliding/decreasing receive times, clock before/at/after the receive time, delayed/lost/early kernel timestamps, 2036 era base). Exploration: ~10^5 steps quick, ~10^7 thorough.",
        "note": "Layer 1 (handler) only reaches the code through core/server/hooks_verif.go (build tag verif, add-only). Updates for an exchange whose (client, rx) key was later reused are not issued. Found and repaired: txt <= rxt recorded when the clock reads earlier than the receive time (fix 3015780).",
    },
    "C07": {
        "technique": "stateful property testing (rapid) of structural store invariants via a read-only snapshot hook; model-based eviction test at the real 2^20 capacity; concurrent batches under the race detector with porcupine linearizability checking against a nondeterministic sequential model",
        "level": "Generated search over histories with up to 200 clients (structure), one to several complete fills of 2^20 clients followed by thousands of boundary steps (capacity), and hundreds to thousands of concurrent batches of 8/16 goroutines (-race + porcupine). Exploration; schedules are those the Go runtime produces with generated yields - not enumerated.",
        "note": "Ranking order is the implementation's plain (seconds, fraction) timestamp order, as the statement says. Data-race freedom is the race detector's verdict on the executed schedules only.",
    },
    "C10": {
        "technique": "property-based testing (rapid) with exhaustive per-packet mutation sweeps: every single-bit flip and field-level edit of encoder-produced NTS requests, responses and server cookies, judged by region (authenticated bytes / nonce / ciphertext must be rejected) and differentially against an independent extension-field walker + miscreant AES-SIV; code under test's crypto/rand draws replaced by a deterministic stream",
        "level": "Generated search over keys, headers, cookie sizes, pool levels, 0x00/0xff edge patterns of cookies and identifiers; per packet ~1000 (quick, every 7th bit) to ~8000 (thorough, all bits) mutants plus ~100 field edits. Exploration of the key/packet space, exhaustive over single-bit mutations of each generated packet in the thorough tier.",
        "note": "Layer 1 (pure functions). miscreant is trusted as reference AEAD. Cookie fields shorter than 24 bytes (below the 28-byte minimum extension field) and response cookie lengths that are not a multiple of 4 are outside the generator (documented decoder/constructor limits, not this project's 124-byte cookies). Found and repaired P4 (1063f3c), P5 (8367138), P6 (2d1881a) and truncated-authenticator zero-extension (68dd72b).",
    },
    "C03": {
        "technique": "model-based stateful property testing (rapid) of the real IPClient and SCIONClient over loopback sockets against the harness's own protocol-conformant NTP server model (RFC 5905 + interleaved mode) with injected loss, duplication, stale and misdirected replies and a per-request changing server clock whose readings can be made to land on chosen NTP fractions (whole seconds, one tick around them); oracle = half-RTT envelope around the model's true offset of exactly the exchange the result must describe, plus the literal |off-theta| <= rtd/2 bound from the client's evaluation log",
        "level": "Generated search over exchange/fault sequences (up to ~1500 client calls quick). Exploration; timing is measured, not controlled, and schedules are those of the kernel and Go runtime plus injected delays.",
        "note": "IP and SCION transports (SCION through a harness front that wraps the NTP server model). Harness instants and kernel timestamps come from the same CLOCK_REALTIME, which must not be stepped during a run. The server model is the harness's own reading of the protocol.",
    },
    "C09": {
        "technique": "exhaustive enumeration of the first header byte x datagram lengths x trailing-data kinds (incl. valid, bit-flipped and foreign-key NTS requests) plus rapid-generated headers, sent to the real IP listener and, wrapped into SCION/UDP packets over empty and 1-2-segment paths, to the real SCION listener over loopback; sentinel-delimited reply counting against a shouldReply predicate written from the statement",
        "level": "The first-byte x length x trailing-kind grid is enumerated completely in the thorough tier (a third of the non-valid first bytes per quick run); the other 47 header bytes are sampled. Exploration with an exhaustive sub-grid.",
        "note": "Both listeners (SCION: lengths up to 1300 bytes, reply addressing checked as ISD-AS/host/port exchange from the listener socket to the previous hop; path reversal in depth is C13). Relies on per-socket-pair FIFO delivery on loopback; a lost sentinel is retried 6 times.",
    },
    "C20": {
        "technique": "stateful property testing (rapid) of the real ntske.Fetcher against a scripted TLS 1.3 key-exchange server: generated record streams, ALPN offers, truncations, segmentations and resets over multi-call histories; oracle = independent record parser evaluating the statement's conditions, independently derived RFC 8915 exporter keys from the server's side of the same session, pool/connection-count model; plus an end-to-end sub-check that watches at which (address, port) the NTS request of a real IPClient arrives after exchanges with/without server and port records and with the key-exchange host configured by address or by name",
        "level": "Generated search over key-exchange histories (~2500 FetchData calls quick) plus a truncation sweep of a valid message at every byte offset (thorough). Exploration.",
        "note": "TLS only (QUIC/SCION key exchange not exercised); certificate validation is disabled as in the project's insecure-skip-verify configuration; warning records and AEAD lists with several ids are not judged. Found and repaired P8 (375c2ec) and a server named by host name never being resolved (5d7b98a). Scripts may end with the server stalling on an open connection (the exchange is bounded by 5 s since fix 4e4a5e8).",
    },
    "C11": {
        "technique": "model-based stateful property testing (rapid): generated loss patterns between the real NTS-enabled IPClient and the real IP listener through an inspecting relay; oracle = pool-level model plus an independent extension-field walker and miscreant AES-SIV on every datagram on the wire; plus harness-sealed requests of shapes the project's client never builds (identifier 32..300 bytes, 0..12 placeholders) sent to the listener, replies judged for size, authenticity and cookie count = as many as fit",
        "level": "Generated search over sequences of up to 40 exchanges with runs of up to 10 consecutive losses (every pool level 8..1, exhaustion and re-keying). Exploration.",
        "note": "Server replies are checked on both listeners (IP and SCION). Cookies are exactly this project's (sealed by ServerCookie.EncryptWithNonce under the provider shared with the listener). Key rotation between exchanges is covered by C12. Found and repaired P2 (a656d56) and P3 (43dc11b).",
    },
    "C05": {
        "technique": "property-based testing (rapid) with a fault-injecting server model: scripts of 1..3 mutated/forged replies (header field mutations, NTS extension-field and key mutations, wrong source) delivered to the real IPClient after a real key exchange, and to the real SCIONClient through a front that wraps each payload into a SCION reply which is genuine, harmlessly varied or wrong in exactly one address part; oracle = the statement's acceptance predicate evaluated independently on every datagram sent (own NTS walker + miscreant) and offset attribution via per-datagram clock offsets >= 2 s apart",
        "level": "Generated search over (auth mode, interleaved mode, warm-up, mutation kind, field, source, position) - 500 scripted exchanges quick, tens of thousands thorough. Exploration.",
        "note": "IP and SCION transport (packet authenticators over SCION belong to C13; NTS over SCION needs a QUIC key exchange and is not generated). A lone genuine reply that is not accepted under the short scripted deadline is re-tried with a generous one before it counts. Datagrams from another port of the queried address are not judged. An acceptable datagram hidden behind junk may legitimately be skipped (only soundness of acceptance and completeness for a lone genuine reply are asserted).",
    },
    "C13": {
        "technique": "property-based testing (rapid) over loopback against the real SCION listener and client with USE_MOCK_KEYS: generated SCION packets (payload kind, address families, ISD-AS, traffic class, flow id, path shape and position, extensions, authenticator variants; client DSCP; listeners with DSCP 0 and 46) with sentinel-delimited reply collection; oracle = independently recomputed SPAO MAC over the packet as received (spao library), independently computed path reversal, address/port exchange, payload echo, forwarding predicate; end-to-end exchanges through a byte-flipping relay",
        "level": "Generated search: 2500 listener probes + 300 end-to-end exchanges quick, 10x per shard thorough. Exploration.",
        "note": "Two key set-ups: USE_MOCK_KEYS (all-zero host-host key; wrong key = mutated MAC/covered byte) and a harness-provided fake SCION daemon (gRPC) whose DRKeys depend on protocol, both ISD-ASes and both hosts (wrong key = the genuine key of other parameters; exercises the listener's key cache). scionproto slayers/spao/generic deriver are trusted. EPIC paths and the panic-inducing inputs (P9) are outside this generator (C08). Found and repaired: replies to one-hop-path requests carried the wrong path type (5d5f48f); MeasureClockOffsetSCION reported offset 0 without error when every path failed (3b20f61); packet authenticator verified over the tail of the packet instead of the evaluated UDP datagram (65fa2b5).",
    },
    "C15": {
        "technique": "property-based testing with scripted randomness (crypto/rand.Reader replaced by rapid-drawn words): pointwise characterisation of RandIntn, validity of Sample via replay of its pick calls, exhaustive enumeration of all draw tuples for 0<=k<=n<=7 (exact uniformity over subsets); rapid state machine over multipath measurement rounds of the real SCION clients against per-path harness time servers that answer, stay silent or refuse at once",
        "level": "Generated search (10^5 RandIntn cases, 3*10^4 Sample cases, ~1500 measurement rounds quick) plus a complete enumeration of the small-size sample space. Exploration with an exhaustive sub-check.",
        "note": "Uniformity for large n is argued from the pointwise RandIntn characterisation (result = word mod n, only words <= 2^32 mod n rejected) plus the exhaustive small cases, not measured statistically. Duplicate fingerprints are not generated. Found and repaired: all-paths-failed round returned offset 0 without error (3b20f61).",
    },
    "C08": {
        "technique": "structure-aware fuzzing with rapid generators against the real listeners and clients running in child processes: hostile datagram / byte-stream scripts (raw, mutated valid NTP/NTS/SCION/SCMP/CSPTP/NTS-KE inputs incl. authenticated odd-shaped NTS requests and correctly sealed hostile NTS replies), stream peers that close at once or hold the connection open; liveness oracle = child alive + sentinel request on the same socket pair answered (CSPTP: processed), with a reproduction protocol for hangs; every crash is shrunk by restarting the child",
        "level": "Generated search: ~1500 listener scripts and ~700 client calls quick; tens of thousands thorough. Exploration: absence of a crashing input among those generated, not proof of robustness.",
        "note": "'Never hangs' is checked as a bounded wait (a lost sentinel must reproduce twice on fresh children). QUIC/SCION key exchange and TLS handshake internals are not attacked. Native go-fuzz targets are not used (the structure-aware rapid generators reach the layer handling directly and shrink). Found and repaired: P9 (c410d10, 254e9a4, 0ef00ad, ebb9a99), P10 (34e00ca), NTS encode-buffer overflow (b35eaa0), CSPTP short datagram (4996ea0), unbounded wait on a stalled key-exchange stream (4e4a5e8). Client calls are given 3 s (12 s when the key-exchange server holds its connection open: dial and exchange are bounded by 5 s each) before a hang is reported.",
    },
}
