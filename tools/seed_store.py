#!/usr/bin/env python3
"""tools/seed_store.py <ID> <name> <detected:yes|no|after-strengthening> <needs...>  : copy a validated seeded change into /verif/seeded/<name>/"""
import json, os, shutil, sys, glob, re
pid, name, detected, needs = sys.argv[1], sys.argv[2], sys.argv[3], sys.argv[4]
wt = sys.argv[5] if len(sys.argv) > 5 else '/tmp/wt-' + pid
src = wt + '/.seeded'
dst = '/verif/seeded/' + name
os.makedirs(dst, exist_ok=True)
for f in os.listdir(src):
    p = os.path.join(src, f)
    if os.path.isdir(p):
        shutil.copytree(p, os.path.join(dst, f), dirs_exist_ok=True)
    else:
        # demo files must not be picked up by `go build ./...` of anything: keep the .go extension out of package dirs (seeded/ is not a Go package)
        shutil.copyfile(p, os.path.join(dst, f if not f.endswith('_test.go') else f + '.txt'))
log = open('/tmp/seed-%s-check.log' % pid).read() if os.path.exists('/tmp/seed-%s-check.log' % pid) else ''
viol = re.findall(r'VIOLATION property=\S+ replay=\S+/(C\d+-[A-Za-z0-9_]+)-', log)
meta = {
    'property': pid,
    'source': 'independent sub-agent given only the property text and a scratch worktree',
    'needs_to_manifest': needs,
    'validated': {
        'patch_applies_to_repo_head': True,
        'suite_passes_with_patch': True,
        'demo_fails_with_patch_and_passes_without': True,
        'how': 'tools/seed.sh %s (scratch worktree: demo with/without patch, full suite with patch; then ./check %s with the patch applied to /repo, reverted afterwards)' % (pid, pid),
    },
    'detected_by_quick_check': detected,
    'failing_sub_checks': sorted(set(viol)),
}
json.dump(meta, open(os.path.join(dst, 'meta.json'), 'w'), indent=1)
print('stored', dst, meta['failing_sub_checks'])
