#!/bin/bash
# tools/mut.sh <ID> <file-in-repo> <perl-substitution> [run-regex] : in-place mutation of /repo, run the quick check, revert.
set -u
id=$1; f=$2; expr=$3; run=${4:-}
cd /repo || exit 2
if [ -n "$(git status --porcelain --untracked-files=no)" ]; then echo "/repo not clean"; exit 2; fi
trap 'git -C /repo checkout -- . ' EXIT
perl -0pi -e "$expr" "$f"
if [ -z "$(git status --porcelain --untracked-files=no)" ]; then echo "MUTATION DID NOT APPLY"; exit 2; fi
git diff | head -30
cd /verif
if [ -n "$run" ]; then ./check "$id" --run "$run" | tail -25; else ./check "$id" | tail -25; fi
echo "mutant rc=${PIPESTATUS[0]}"
