#!/bin/bash
# tools/mutmatrix.sh : every mutants/<ID>/reintroduce-*.diff (the reverse of a repair) applied to a scratch worktree of
# the newest commit it applies to; the property's quick check must report a violation. One line per diff.
set -u
cd /verif
for f in mutants/*/*.diff; do
  id=$(basename $(dirname $f))
  # MUTMX_IDS: only the diffs of these properties (space separated)
  [ -z "${MUTMX_IDS:-}" ] || case " $MUTMX_IDS " in *" $id "*) ;; *) continue;; esac
  scr=/tmp/mutmx-$$
  base=""
  for c in $(git -C /repo log --format=%h -n 140); do
    git -C /repo worktree add --detach $scr $c -q || exit 2
    if ( cd $scr && git apply /verif/$f 2>/dev/null ); then base=$c; break; fi
    git -C /repo worktree remove --force $scr
  done
  if [ -z "$base" ]; then echo "$f DOES-NOT-APPLY"; continue; fi
  for hc in a1f4396 092d3b7 bc8bd8d; do
    if ! git -C /repo merge-base --is-ancestor $hc $base 2>/dev/null; then
      git -C /repo show $hc | ( cd $scr && git apply 2>/dev/null ) || true
    fi
  done
  VERIF_REPO=$scr ./check $id > /tmp/mutmx-$$.log 2>&1; rc=$?
  case $rc in 1) r=caught;; 0) r=MISSED;; *) r=inconclusive;; esac
  echo "$f base=$base $r"
  git -C /repo worktree remove --force $scr
done
rm -f /tmp/mutmx-$$.log
