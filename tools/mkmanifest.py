#!/usr/bin/env python3
"""Regenerates /verif/MANIFEST.json from checks_config.py (+ manifest_text.py for the prose)."""
import json, os, sys
ROOT = os.path.dirname(os.path.dirname(os.path.abspath(__file__)))
sys.path.insert(0, ROOT)
from checks_config import CHECKS
from manifest_text import TEXT, NOT_APPLICABLE, HOOK_COMMITS

ids = [json.loads(l)["id"] for l in open(os.path.join(ROOT, "properties.jsonl"))]
checks = []
for pid in ids:
    if pid not in CHECKS or pid not in TEXT:
        continue
    t = TEXT[pid]
    checks.append({
        "property_id": pid,
        "quick_cmd": "./check %s --tier quick" % pid,
        "thorough_cmd": "./check %s --tier thorough" % pid,
        "evidence_file": "evidence/%s.json" % pid,
        "replay_cmd_template": "./check %s --replay {path}" % pid,
        "engine": "harness",
        "level_claimed": {"category": "exploration", "text": t["level"], "design_ref": "DESIGN.md §6 " + pid},
        "level_note": t["note"],
        "technique": t["technique"],
    })
na = [{"property_id": p, "reason": r} for p, r in NOT_APPLICABLE.items()]
for pid in ids:
    if pid not in {c["property_id"] for c in checks} and pid not in NOT_APPLICABLE:
        na.append({"property_id": pid, "reason": "check not built yet in this session (planned in DESIGN.md §6); not claimed"})
m = {
    "version": 1,
    "setup_cmd": "./setup.sh",
    "hooks": {
        "guard": "verif",
        "enable": "go test -tags verif (the driver ./check builds every test binary with -tags verif; the harness module replaces example.com/scion-time by /repo so the current working tree is compiled)",
        "baseline_off_cmd": "cd /repo && GOFLAGS=-mod=mod GOPROXY=off go test -json -vet=off -count=1 -timeout 25m ./...",
        "source_commits": HOOK_COMMITS,
        "add_only": True,
    },
    "engines": [{
        "name": "harness", "path": "harness",
        "serves_properties": [c["property_id"] for c in checks],
        "kind_free_text": "Go module 'verif' (rapid v1.3.0 property/state-machine tests, exhaustive enumerations, native go fuzz targets) driven by ./check; builds /repo's working tree through a replace directive",
    }],
    "checks": checks,
    "not_applicable": na,
    "notes": "All checks decide their property by generated-input search against an explicit oracle (DESIGN.md). exit 2 from ./check means inconclusive (build failure, timeout, OOM), never a violation.",
}
json.dump(m, open(os.path.join(ROOT, "MANIFEST.json"), "w"), indent=1)
print("MANIFEST.json: %d checks, %d not_applicable" % (len(checks), len(na)))
