#!/bin/bash
# tools/runall.sh [tier] [ids...] : run every claimed check on the current tree, then validate evidence.
tier=${1:-quick}; shift
ids="$@"
[ -z "$ids" ] && ids=$(python3 -c "import json;print(' '.join(c['property_id'] for c in json.load(open('/verif/MANIFEST.json'))['checks']))")
cd /verif
if [ -n "$(git -C /repo status --porcelain --untracked-files=no)" ]; then echo "WARNING: /repo has local modifications"; fi
for id in $ids; do
  s=$(date +%s)
  out=$(./check $id --tier $tier 2>&1); rc=$?
  echo "$id rc=$rc $(( $(date +%s) - s ))s :: $(echo "$out" | grep -E '^(OK|VIOLATION|INCONCLUSIVE|KNOWN-FINDING)' | tr '\n' ' ')"
done
tools/validate.py | grep -v '^ok'
