#!/bin/bash
# Runs /repo's pinned suite with the verif guard OFF and compares the set of passing tests with BASELINE.json.
cd ${BASELINE_REPO:-/repo} && GOFLAGS=-mod=mod GOPROXY=off go test -json -vet=off -count=1 -timeout 25m ./... > /tmp/baseline.$$.json 2>/dev/null
python3 - /tmp/baseline.$$.json <<'P'
import json,sys
base=set(json.load(open('/root/.vp/BASELINE.json'))['stable_pass'])
got=set(); failed=set()
for l in open(sys.argv[1]):
    try: e=json.loads(l)
    except Exception: continue
    if e.get('Test') and e.get('Action')=='pass': got.add(e['Package']+'::'+e['Test'])
    if e.get('Test') and e.get('Action')=='fail': failed.add(e['Package']+'::'+e['Test'])
print('baseline pass=%d expected=%d missing=%s failed=%s'%(len(got&base),len(base),sorted(base-got)[:5],sorted(failed)[:5]))
sys.exit(0 if base<=got and not failed else 1)
P
rc=$?; rm -f /tmp/baseline.$$.json; exit $rc
