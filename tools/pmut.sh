#!/bin/bash
# tools/pmut.sh <ID> <patch-file> [run-regex] : apply a patch (e.g. mutants/<ID>/reintroduce-*.diff) to a scratch
# worktree of commit ${PMUT_BASE:-HEAD} of /repo and run the check against it (VERIF_REPO); /repo is never touched.
set -u
id=$1; patch=$(readlink -f "$2"); run=${3:-}
scr=/tmp/pmut-$id-$$
git -C /repo worktree add --detach $scr ${PMUT_BASE:-HEAD} -q || exit 2
trap 'git -C /repo worktree remove --force '$scr' 2>/dev/null' EXIT
git -C $scr apply "$patch" || { echo "PATCH DOES NOT APPLY"; exit 2; }
( cd $scr && GOFLAGS=-mod=mod GOPROXY=off go build ./... ) || { echo "MUTANT DOES NOT BUILD"; exit 2; }
cd /verif
if [ -n "$run" ]; then VERIF_REPO=$scr ./check "$id" --run "$run" | tail -${PMUT_TAIL:-6}; else VERIF_REPO=$scr ./check "$id" | tail -${PMUT_TAIL:-6}; fi
echo "mutant rc=${PIPESTATUS[0]}"
