#!/bin/bash
# tools/smut.sh <ID> <file-in-repo> <perl-substitution> [run-regex] : like mut.sh, but the mutation is applied to a
# scratch worktree of /repo's HEAD and the check is built against it (VERIF_REPO); /repo is never touched.
set -u
id=$1; f=$2; expr=$3; run=${4:-}
scr=/tmp/smut-$id-$$
git -C /repo worktree add --detach $scr HEAD -q || exit 2
trap 'git -C /repo worktree remove --force '$scr' 2>/dev/null' EXIT
( cd $scr && perl -0pi -e "$expr" "$f" )
if [ -z "$(git -C $scr status --porcelain --untracked-files=no)" ]; then echo "MUTATION DID NOT APPLY"; exit 2; fi
git -C $scr diff | head -30
( cd $scr && GOFLAGS=-mod=mod GOPROXY=off go build ./... ) || { echo "MUTANT DOES NOT BUILD"; exit 2; }
cd /verif
if [ -n "$run" ]; then VERIF_REPO=$scr ./check "$id" --run "$run" | tail -25; else VERIF_REPO=$scr ./check "$id" | tail -25; fi
echo "mutant rc=${PIPESTATUS[0]}"
