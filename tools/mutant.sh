#!/bin/bash
# tools/mutant.sh <patch-file> <ID> [tier]  : apply a patch to /repo, run the check, always revert.
set -u
patch=$(readlink -f "$1"); id=$2; tier=${3:-quick}
cd /repo || exit 2
if [ -n "$(git status --porcelain --untracked-files=no)" ]; then echo "/repo not clean"; exit 2; fi
git apply "$patch" || { echo "patch does not apply"; exit 2; }
trap 'git -C /repo checkout -- . ; git -C /repo status --porcelain --untracked-files=no' EXIT
cd /verif && ./check "$id" --tier "$tier"
echo "mutant rc=$?"
