#!/bin/bash
# tools/seedbatch.sh <round> <ID>... : tools/seed.sh for each /tmp/wt<round>-<ID>, output in /tmp/seed<round>-<ID>.out
r=$1; shift
for id in "$@"; do /verif/tools/seed.sh $id /tmp/wt$r-$id > /tmp/seed$r-$id.out 2>&1; echo "$id: $(grep -a 'demo without\|suite with\|check rc' /tmp/seed$r-$id.out | tr '\n' ' ')"; done
