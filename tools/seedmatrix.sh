#!/bin/bash
# tools/seedmatrix.sh [seeds...] : for every stored seeded change, build its property's quick check against a scratch
# worktree with the patch applied (VERIF_REPO; /repo untouched) at several VERIF_SEED values; prints one line per run.
# Output is meant to be redirected to seeded/MATRIX.txt. SEEDMX_FILTER='*-r7-*' restricts the run to matching names.
set -u
seeds=${*:-1 2 3}
cd /verif
for d in seeded/*/; do
  name=$(basename $d); id=${name%%-*}
  [ -f $d/patch.diff ] || continue
  # SEEDMX_FILTER: only the changes whose directory name matches this shell pattern (e.g. '*-r7-*')
  case $name in ${SEEDMX_FILTER:-*}) ;; *) continue;; esac
  grep -q '"superseded"' $d/meta.json && { echo "$name superseded"; continue; }
  scr=/tmp/seedmx-$$
  # the patch was written against the HEAD of its day: use the newest commit it still applies to
  base=""
  for c in $(git -C /repo log --format=%h -n 120); do
    git -C /repo worktree add --detach $scr $c -q || exit 2
    if ( cd $scr && git apply /verif/$d/patch.diff 2>/dev/null ); then base=$c; break; fi
    git -C /repo worktree remove --force $scr
  done
  if [ -z "$base" ]; then echo "$name PATCH-DOES-NOT-APPLY"; continue; fi
  # the harness needs the verif hooks (build tag verif, add-only): bring a base that predates one up to date
  for hc in a1f4396 092d3b7 bc8bd8d; do
    if ! git -C /repo merge-base --is-ancestor $hc $base 2>/dev/null; then
      git -C /repo show $hc | ( cd $scr && git apply 2>/dev/null ) || true
    fi
  done
  line="$name base=$base"
  # a change that only another property's check can see (the property's own check does not go through the changed
  # code) is run against the sibling checks named in its meta.json
  ids=$id
  if grep -q '"by-sibling"' $d/meta.json; then
    ids=$(python3 -c "import json,re,sys;m=json.load(open(sys.argv[1]));print(' '.join(sorted(set(re.findall(r'C\d\d',' '.join(m['failing_sub_checks']))))))" $d/meta.json)
    line="$line via=$(echo $ids | tr ' ' ',')"
  fi
  for s in $seeds; do
    r=MISSED
    for cid in $ids; do
      VERIF_SEED=$s VERIF_REPO=$scr ./check $cid > /tmp/seedmx-$$.log 2>&1; rc=$?
      case $rc in 1) r=caught; break;; 0) ;; *) [ $r = MISSED ] && r=inconclusive;; esac
    done
    line="$line seed$s=$r"
  done
  echo "$line"
  git -C /repo worktree remove --force $scr
done
rm -f /tmp/seedmx-$$.log
