#!/bin/bash
# tools/seedmatrix.sh [seeds...] : for every stored seeded change, build its property's quick check against a scratch
# worktree with the patch applied (VERIF_REPO; /repo untouched) at several VERIF_SEED values; prints one line per run.
# Output is meant to be redirected to seeded/MATRIX.txt.
set -u
seeds=${*:-1 2 3}
cd /verif
for d in seeded/*/; do
  name=$(basename $d); id=${name%%-*}
  [ -f $d/patch.diff ] || continue
  grep -q '"superseded"' $d/meta.json && { echo "$name superseded"; continue; }
  scr=/tmp/seedmx-$$
  git -C /repo worktree add --detach $scr HEAD -q || exit 2
  if ! ( cd $scr && git apply /verif/$d/patch.diff ); then echo "$name PATCH-DOES-NOT-APPLY"; git -C /repo worktree remove --force $scr; continue; fi
  line="$name"
  for s in $seeds; do
    VERIF_SEED=$s VERIF_REPO=$scr ./check $id > /tmp/seedmx-$$.log 2>&1; rc=$?
    case $rc in 1) r=caught;; 0) r=MISSED;; *) r=inconclusive;; esac
    line="$line seed$s=$r"
  done
  echo "$line"
  git -C /repo worktree remove --force $scr
done
rm -f /tmp/seedmx-$$.log
