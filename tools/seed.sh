#!/bin/bash
# tools/seed.sh <ID> [wt-dir] : validate a sub-agent's seeded change and run the check against it.
#  1. patch applies to /repo's HEAD, builds, the pinned suite passes with it
#  2. the demonstration fails with the patch and passes without it (run in a scratch worktree)
#  3. ./check <ID> with the patch applied to /repo (always reverted)
set -u
id=$1; wt=${2:-/tmp/wt-$id}; sd=$wt/.seeded
export GOFLAGS=-mod=mod GOPROXY=off
[ -f $sd/patch.diff ] || { echo "no $sd/patch.diff"; exit 2; }
cd /repo
git apply --check $sd/patch.diff 2>/dev/null || echo "note: patch does not apply to /repo's working tree as it is now (checked against HEAD in the scratch worktree below)"
scratch=/tmp/seedchk-$id; rm -rf $scratch; git worktree add --detach $scratch HEAD -q || exit 2
trap 'git -C /repo worktree remove --force '$scratch' 2>/dev/null' EXIT
demo=$(ls $sd/demo_test.go $sd/demo/main.go 2>/dev/null | head -1)
where=$(head -3 $demo | tr '\n' ' ')
echo "demo header: $where"
# place the demo as instructed: expect "place in <dir>" ; fall back to asking the notes
dir=${3:-}
if [ -z "$dir" ]; then
  f=$(grep -ohE '(core|net|base|driver)/[A-Za-z0-9_/]+_test\.go' <<<"$where" | head -1)
  [ -n "$f" ] || f=$(grep -ohE '(core|net|base|driver)/[A-Za-z0-9_/]+_test\.go' $sd/notes.md | head -1)
  [ -n "$f" ] && dir=$(dirname $f)
  [ -n "$dir" ] || { grep -q 'repo root\|repository root\|package main' <<<"$where" && dir=.; }
fi
echo "demo dir: $dir"
cp $demo $scratch/$dir/zz_seeded_demo_test.go
( cd $scratch && go test -vet=off -count=1 -run . ./$dir >/tmp/seed-$id-without.log 2>&1 ); rc0=$?
( cd $scratch && git apply $sd/patch.diff && go test -vet=off -count=1 -run . ./$dir >/tmp/seed-$id-with.log 2>&1 ); rc1=$?
echo "demo without patch rc=$rc0 ; with patch rc=$rc1   (want 0 / non-zero)"
rm -f $scratch/$dir/zz_seeded_demo_test.go
( cd $scratch && go build ./... && go test -vet=off -count=1 ./... >/tmp/seed-$id-suite.log 2>&1 ); rcs=$?
echo "suite with patch rc=$rcs (want 0); FAIL lines: $(grep -c '^--- FAIL\|^FAIL' /tmp/seed-$id-suite.log)"
# the check is built against the scratch worktree (patch applied there), /repo itself stays untouched
( cd $scratch && git checkout -q -- . && git apply $sd/patch.diff ) || exit 2
cd /verif && VERIF_REPO=$scratch ./check $id > /tmp/seed-$id-check.log 2>&1; rcc=$?
grep -E "^(VIOLATION|OK|INCONCLUSIVE|KNOWN)" /tmp/seed-$id-check.log | head -5
echo "check rc=$rcc (1 = detected)"
