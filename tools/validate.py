#!/opt/veriftools/pyvenv/bin/python3
import json, sys, glob, jsonschema
m = json.load(open('/verif/MANIFEST.json'))
jsonschema.validate(m, json.load(open('/root/.vp/MANIFEST.schema.json')))
es = json.load(open('/root/.vp/EVIDENCE.schema.json'))
for c in m['checks']:
    p = '/verif/' + c['evidence_file']
    try:
        jsonschema.validate(json.load(open(p)), es)
        print('ok', p)
    except FileNotFoundError:
        print('MISSING', p)
    except jsonschema.ValidationError as e:
        print('INVALID', p, e.message[:300])
print('manifest valid,', len(m['checks']), 'checks')
