#!/bin/bash
# tools/seedsib.sh <check-ID> <seed-dir-with-patch.diff> [run-regex] : run another property's check against a seeded change
exec env PMUT_TAIL=${PMUT_TAIL:-4} /verif/tools/pmut.sh "$1" "$2/patch.diff" "${3:-}"
