#!/bin/bash
# Offline set-up after a fresh restore: refresh harness/go.sum from /repo/go.sum and warm the
# build cache by compiling every check package once (checks rebuild incrementally afterwards).
set -u
cd "$(dirname "$0")"
export GOFLAGS=-mod=mod GOPROXY=off GOTOOLCHAIN=auto GOEXPERIMENT=synctest
unset GOSUMDB
sort -u /repo/go.sum harness/go.sum.extra | grep -v '^$' > harness/go.sum
mkdir -p evidence replays .work
cd harness
go build ./internal/... || exit 1
for d in c[0-9][0-9]; do
  [ -d "$d" ] || continue
  race=""
  if python3 -c "import sys; sys.path.insert(0,'..'); from checks_config import CHECKS; sys.exit(0 if any(c['pkg']=='$d' and c.get('race') for c in CHECKS.values()) else 1)"; then race="-race"; fi
  go test -c -tags verif -vet=off $race -o /dev/null ./$d || { echo "setup: build of $d failed"; exit 1; }
done
echo "setup done"
