#!/bin/bash
# Offline set-up after a fresh restore: refresh harness/go.sum from /repo/go.sum and warm the
# build cache by compiling every check package once (checks rebuild incrementally afterwards).
set -u
cd "$(dirname "$0")"
export GOFLAGS=-mod=mod GOPROXY=off GOTOOLCHAIN=auto GOEXPERIMENT=synctest
unset GOSUMDB
sort -u /repo/go.sum harness/go.sum.extra | grep -v '^$' > harness/go.sum
mkdir -p evidence replays .work
cd harness
go build ./internal/... || exit 1
python3 - <<'P' > ../.work/setup-parts.txt
import sys
sys.path.insert(0, '..')
from checks_config import CHECKS
seen = set()
for c in CHECKS.values():
    for p in (c.get('parts') or [{}]):
        d = dict(c); d.update(p)
        k = (d['pkg'], bool(d.get('race')))
        if k not in seen:
            seen.add(k)
            print(d['pkg'], 'overlay' if d.get('overlay_main') else '-', '-race' if d.get('race') else '')
P
while read -r d ov race; do
  [ -d "$d" ] || continue
  ovflag=""
  if [ "$ov" = overlay ]; then
    # a package main holding only tests: the repository's main package files are laid over it (as ./check does)
    python3 - "$d" > ../.work/setup-overlay-$d.json <<'P'
import glob, json, os, sys
d = sys.argv[1]
print(json.dumps({"Replace": {os.path.join(os.getcwd(), d, "zz_repo_" + os.path.basename(f)): f
                              for f in sorted(glob.glob("/repo/*.go")) if not f.endswith("_test.go")}}))
P
    ovflag="-overlay ../.work/setup-overlay-$d.json"
  fi
  go test -c -tags verif -vet=off $race $ovflag -o /dev/null ./$d || { echo "setup: build of $d failed"; exit 1; }
done < ../.work/setup-parts.txt
echo "setup done"
