#!/bin/bash
# Offline set-up after a fresh restore: refresh harness/go.sum from /repo/go.sum and warm the
# build cache by compiling every check package once (checks rebuild incrementally afterwards).
set -u
cd "$(dirname "$0")"
export GOFLAGS=-mod=mod GOPROXY=off GOTOOLCHAIN=auto GOEXPERIMENT=synctest
unset GOSUMDB
sort -u /repo/go.sum harness/go.sum.extra | grep -v '^$' > harness/go.sum
mkdir -p evidence replays .work
cd harness
go build ./internal/... || exit 1
python3 - <<'P' > ../.work/setup-parts.txt
import sys
sys.path.insert(0, '..')
from checks_config import CHECKS
seen = set()
for c in CHECKS.values():
    for p in (c.get('parts') or [{}]):
        d = dict(c); d.update(p)
        k = (d['pkg'], bool(d.get('race')))
        if k not in seen:
            seen.add(k)
            print(d['pkg'], '-race' if d.get('race') else '')
P
while read -r d race; do
  [ -d "$d" ] || continue
  go test -c -tags verif -vet=off $race -o /dev/null ./$d || { echo "setup: build of $d failed"; exit 1; }
done < ../.work/setup-parts.txt
echo "setup done"
